// Goes into pallas-validate/tests/shelley_ma.rs, inside `mod shelley_ma_tests` (before the first `#[test]`).
// Fails before the fix (panic: `copy_from_slice` length mismatch in utils::verify_signature),
// passes with proposed/C33/fix-vkey-witness-length.diff.

    #[test]
    // Same as vk_witness_changed, except that the signature loses its last byte (63 bytes).
    fn vk_witness_with_short_signature() {
        let cbor_bytes: Vec<u8> = cbor_to_bytes(include_str!("../../test_data/shelley1.tx"));
        let mut mtx: Tx = minted_tx_from_cbor(&cbor_bytes);
        let mut tx_wits: WitnessSet = mtx.transaction_witness_set.unwrap().clone();
        let mut wit: VKeyWitness = tx_wits.vkeywitness.clone().unwrap().pop().unwrap();
        let mut sig_as_vec: Vec<u8> = wit.signature.to_vec();
        sig_as_vec.pop();
        wit.signature = Bytes::from(sig_as_vec);
        tx_wits.vkeywitness = Some(Vec::from([wit]));
        let mut tx_buf: Vec<u8> = Vec::new();
        encode(tx_wits, &mut tx_buf).unwrap();
        mtx.transaction_witness_set =
            Decode::decode(&mut Decoder::new(tx_buf.as_slice()), &mut ()).unwrap();
        let metx: MultiEraTx = MultiEraTx::from_alonzo_compatible(&mtx, Era::Shelley);
        let env: Environment = hardcoded_environment_values!();
        let utxos: UTxOs = mk_utxo_for_alonzo_compatible_tx(
            &mtx.transaction_body,
            &[(
                String::from(
                    "0129bb156d52d014bb444a14138cbee36044c6faed37d0c2d49d2358315c465cbf8c5536970e8a29bb7adcda0d663b20007d481813694c64ef",
                ),
                Value::Coin(2332267427205),
                None,
            )],
        );
        let mut cert_state: CertState = CertState::default();
        match validate_txs(&[metx], &env, &utxos, &mut cert_state) {
            Ok(()) => panic!("A 63-byte signature cannot verify"),
            Err(err) => match err {
                ShelleyMA(ShelleyMAError::WrongSignature) => (),
                _ => panic!("Unexpected error ({err:?})"),
            },
        }
    }
