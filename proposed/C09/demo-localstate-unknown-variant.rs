// Demonstration for C09 finding "localstate queries_v16 decoders panic on an unknown variant index".
// Place this file at pallas-network/tests/c09_localstate_unknown_variant.rs and run
//   cargo test --offline -p pallas-network --test c09_localstate_unknown_variant
// Without proposed/C09/fix-localstate-unknown-variant.diff every test panics inside `decode`
// ("internal error: entered unreachable code"); with the fix each decoder returns Err.
use pallas_codec::minicbor;
use pallas_network::miniprotocols::localstate::queries_v16::{
    CommitteeAuthorization, DRep, FuturePParams, GovAction, NextEpochChange,
};

// CBOR `[99]`: a one-element array whose variant index (24-encoded u8 99) is not a known constructor.
const UNKNOWN_VARIANT: [u8; 3] = [0x81, 0x18, 0x63];

#[test]
fn drep_unknown_variant_is_an_error() {
    assert!(minicbor::decode::<DRep>(&UNKNOWN_VARIANT).is_err());
}

#[test]
fn committee_authorization_unknown_variant_is_an_error() {
    assert!(minicbor::decode::<CommitteeAuthorization>(&UNKNOWN_VARIANT).is_err());
}

#[test]
fn future_pparams_unknown_variant_is_an_error() {
    assert!(minicbor::decode::<FuturePParams>(&UNKNOWN_VARIANT).is_err());
}

#[test]
fn gov_action_unknown_variant_is_an_error() {
    assert!(minicbor::decode::<GovAction>(&UNKNOWN_VARIANT).is_err());
}

#[test]
fn next_epoch_change_unknown_variant_is_an_error() {
    assert!(minicbor::decode::<NextEpochChange>(&UNKNOWN_VARIANT).is_err());
}
