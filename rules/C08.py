"""C08 — the script integrity hash follows the ledger formula.

Decides, on the MIR of pallas-primitives/src/conway/script_data.rs and its two callers (nothing is executed):

 (a) `ScriptData::build_for` as a table over (witness.redeemer present, witness.plutus_data present, language views given):
     `None` exactly for (absent, absent); redeemers / datums of the result are present exactly when the witness-set fields are and
     come from them; language views are kept exactly when redeemers are present (and views were given).
 (b) `ScriptData::hash` as a table over the presence of its three fields -> ordered writes into the hashed buffer:
     redeemers (CBOR-encoded) or the single byte 0xA0; then the datums or nothing; then the language views or 0xA0 — in this order on
     every path; the returned value is `Hasher::<256>::hash` of exactly that buffer.
 (c) datum bytes are the original bytes: the `datums` field is a `KeepRaw` of a set of `KeepRaw` items, it is passed to the encoder
     as it is (no deref/unwrap), `build_for` copies it from the witness set without rebuilding it, and `KeepRaw`'s encoder writes the
     stored bytes whenever it has them.
 (d) `LanguageViews::encode`: a map header of `len()` entries; the entry whose key is 0 (PlutusV1) is written as two byte strings —
     the key wraps the CBOR integer 0, the value wraps an indefinite array (begin_array, the cost-model items, end) built in a
     separate buffer; every other entry is written as two plain items (key, cost model); the iteration sequence is the map's keys
     without 0, ascending, followed by 0 when the map has it (= canonical CBOR key order: 0x41 0x00 is longer than one-byte keys).
     Accepted ordering idiom: a Vec collected from `keys()` through a filter that rejects exactly 0 (sorted by `sort*` or by being
     taken from the BTreeMap with order-preserving adaptors), `push(0)` exactly when `contains_key(&0)`, no reordering afterwards.
 (e) callers: the Conway phase-1 rule compares the body's `script_data_hash` with `ScriptData::hash(build_for(tx witness set, ..))`,
     returns `Err` exactly on inequality and `Ok` (for a present hash) only after the equality test; the transaction builder stores
     the value returned by `ScriptData::hash`; `ScriptData` is only ever constructed by `build_for` (who-may-construct), so the
     presence table of (a) governs every hash the workspace computes.
Not decided: Blake2b itself, the CBOR item codecs of redeemers / cost models, sortedness provided by std, and that redeemers are
re-encoded rather than hashed over their original bytes (`ScriptData.redeemers` is an owned `Redeemers`; reported as a note)."""
import re

from pv.program import Program
from pv.report import Result, finish
from pv.tabulate import tabulate, strip_adt
from pv.mir import sym_str, sym_walk
from pv import finite, flow, hirwalk
from pv import x_plutus as X
from pv.x_plutus import strip_generics

SD = "pallas_primitives::conway::script_data::"
EMPTY_MAP = 0xA0


def sd_fn(P, name):
    return P.one(r"^" + re.escape(SD) + r"ScriptData::<[^>]*>::" + name + r"$")


def fields_of(P, adt):
    a = P.adt(adt)
    return [f["name"] for f in a["variants"][0]["fields"]] if a else []


# ------------------------------------------------------------------------------------------------ (a) build_for

def build_for_table(P, res):
    f = sd_fn(P, "build_for")
    is_r, is_d = X.field_root(1, ["redeemer"]), X.field_root(1, ["plutus_data"])

    def root_of(s):
        s = X.strip(s)
        if is_r(s):
            return "R"
        if is_d(s):
            return "D"
        if s[0] == "param" and s[1] == 2:
            return "L"
        return None
    names = fields_of(P, SD + "ScriptData")
    if names != ["redeemers", "datums", "language_views"]:
        res.violation("build_for:fields", "ScriptData no longer has the fields redeemers, datums, language_views (%s)" % names, where=X.where(f), rule="R-TABLE")
        return
    paths = [p for p in tabulate(f, P, 1024)]
    n = 0
    for r in (False, True):
        for d in (False, True):
            for l in (False, True):
                pres = X.Presence(root_of, {"R": r, "D": d, "L": l})
                cell = "redeemers=%d,datums=%d,views=%d" % (r, d, l)
                outs = set()
                detail = None
                try:
                    for p in paths:
                        if not pres.feasible(p):
                            continue
                        if p.end != "return":
                            outs.add("diverges")
                            continue
                        s = X.strip(p.ret)
                        if s[0] == "agg" and strip_adt(s[1]) == "core::option::Option" and s[2] == "None":
                            outs.add("None")
                        elif s[0] == "agg" and strip_adt(s[1]) == "core::option::Option" and s[2] == "Some" and X.strip(s[3][0])[0] == "agg":
                            sd = X.strip(s[3][0])
                            fl = dict(zip(names, sd[3]))
                            pr = tuple(pres.present(fl[k]) for k in names)
                            src_ok = (not pr[0] or any(is_r(x) for x in sym_walk(fl["redeemers"]))) and \
                                     (not pr[1] or any(is_d(x) for x in sym_walk(fl["datums"]))) and \
                                     (not pr[2] or X.roots(fl["language_views"]) == {2})
                            outs.add(("Some", pr, src_ok))
                            detail = fl
                        else:
                            outs.add("?" + sym_str(p.ret, 80))
                except X.Unknown as e:
                    res.violation("build_for:%s" % cell, "a condition of build_for is outside the presence fragment (is_some/is_none/match on Options): %s" % e,
                                  where=X.where(f), rule="R-TABLE")
                    continue
                n += 1
                want = "None" if (not r and not d) else ("Some", (r, d, r and l), True)
                if outs == {want}:
                    res.ok("build_for:%s" % cell, "R-TABLE", "-> %s" % (want if want == "None" else "Some(redeemers=%d, datums=%d, views=%d)" % want[1]))
                else:
                    def show(o):
                        return o if isinstance(o, str) else "Some(redeemers=%d, datums=%d, views=%d%s)" % (o[1] + ("" if o[2] else "; not taken from the witness set / the given views",))
                    res.violation("build_for:%s" % cell, "build_for with %s yields %s, the ledger formula needs %s" % (cell, sorted(show(o) for o in outs), show(want)),
                                  where=X.where(f), rule="R-TABLE")
    res.count("build_for cells", n)
    res.floor("build_for cells", n, 8)
    # (c) datums are copied, not rebuilt: no KeepRaw is unwrapped / re-created / cleared on the way from witness.plutus_data
    bad = []
    for g in [f] + P.closure_children(f):
        for bi, t in g.calls():
            nme = flow.callee_name(t)
            if re.search(r"KeepRaw::(unwrap|clear_raw)$|KeepRaw as core::convert::From::from$|KeepRaw as core::ops::deref::DerefMut::deref_mut$", nme):
                args = [g.sym_operand(a) for a in t["args"]]
                if g is f and any(is_d(x) for a in args for x in sym_walk(a)):
                    bad.append(nme)
                elif g is not f:
                    env = X.closure_env(f, g.path) or []
                    # closure applied to an Option built from plutus_data?
                    for bj, u in f.calls():
                        if any(X.strip(f.sym_operand(a))[0] == "agg" and X.strip(f.sym_operand(a))[2] == g.path for a in u["args"]) and \
                                any(is_d(x) for a in u["args"] for x in sym_walk(f.sym_operand(a))):
                            bad.append(nme)
    if bad:
        res.violation("build_for:datums-raw", "build_for rebuilds the datums (%s): their original bytes are lost and the hash is taken over a re-encoding" % bad[0].split("::")[-1],
                      where=X.where(f), rule="R-PROV")
    else:
        res.ok("build_for:datums-raw", "R-PROV", "witness.plutus_data is copied as a KeepRaw")


# ------------------------------------------------------------------------------------------------ (b) hash

def hash_table(P, res):
    f = sd_fn(P, "hash")
    names = ["redeemers", "datums", "language_views"]
    preds = {k: X.field_root(1, [k]) for k in names}

    def root_of(s):
        s = X.strip(s)
        for k, pr in preds.items():
            if pr(s):
                return k
        return None

    def field_of_value(v):
        """name of the ScriptData field a written value is, and whether it is passed as it is"""
        for k, pr in preds.items():
            if any(pr(x) for x in sym_walk(v)):
                direct = not X.calls_in(v) or all(re.search(r"core::option::Option::(as_ref|unwrap|expect)$", strip_generics(c[1])) for c in X.calls_in(v))
                return k, direct
        return None, False
    paths = tabulate(f, P, 4096)
    a = P.adt(SD + "ScriptData")
    dty = next((fl["ty"] for fl in a["variants"][0]["fields"] if fl["name"] == "datums"), "") if a else ""
    inner = re.sub(r"^core::option::Option<", "", dty)
    if inner.startswith("pallas_codec::utils::KeepRaw<") and inner.count("pallas_codec::utils::KeepRaw<") >= 2:
        res.ok("hash:datums-type", "R-PROV", "ScriptData.datums : Option<KeepRaw<set of KeepRaw<PlutusData>>>")
    else:
        res.violation("hash:datums-type", "ScriptData.datums is %s: the datums (set and items) must be kept with their original bytes (KeepRaw)" % dty, where=X.where(f), rule="R-PROV")
    n = 0
    for r in (False, True):
        for d in (False, True):
            for l in (False, True):
                assign = {"redeemers": r, "datums": d, "language_views": l}
                pres = X.Presence(root_of, assign)
                cell = "redeemers=%d,datums=%d,views=%d" % (r, d, l)
                try:
                    feas = [p for p in paths if pres.feasible(p)]
                except X.Unknown as e:
                    res.violation("hash:%s" % cell, "a condition of hash() is outside the presence fragment: %s" % e, where=X.where(f), rule="R-TABLE")
                    continue
                if not feas or any(p.end != "return" for p in feas):
                    res.violation("hash:%s" % cell, "hash() does not return on every path for %s (loop or panic)" % cell, where=X.where(f), rule="R-TABLE")
                    continue
                seqs = set()
                for p in feas:
                    ret = X.strip(p.ret)
                    if not (ret[0] == "call" and re.search(r"hash::hasher::Hasher::<256>::hash$", ret[1]) and len(ret[2]) == 1):
                        seqs.add(("digest", sym_str(p.ret, 100)))
                        continue
                    sink = X.norm(X.buffer_of(ret[2][0]))
                    if sink[0] != "call" or not re.search(r"Vec::(new|with_capacity)$|vec::from_elem$", strip_generics(sink[1])):
                        seqs.add(("digest", "input of the digest is not a local buffer: " + sym_str(ret[2][0], 80)))
                        continue
                    seg = X.write_segments(P, p, sink, pres)
                    seqs.add(tuple((s[0], field_of_value(s[1]) if s[0] in ("value", "raw") else tuple(s[1]) if s[0] == "bytes" else s[1]) for s in seg))
                n += 1
                want = (("value", ("redeemers", True)) if r else ("bytes", (EMPTY_MAP,)),) + \
                       ((("value", ("datums", True)),) if d else ()) + \
                       (("value", ("language_views", True)) if l else ("bytes", (EMPTY_MAP,)),)

                def relax(seq):
                    # a KeepRaw may also be appended through raw_cbor(); directness only matters for the datums
                    out = []
                    for s in seq:
                        if s[0] in ("value", "raw") and isinstance(s[1], tuple) and s[1][0] != "datums":
                            out.append(("value", (s[1][0], True)))
                        elif s[0] == "raw":
                            out.append(("value", s[1]))
                        else:
                            out.append(s)
                    return tuple(out)
                got = {relax(s) for s in seqs}
                if got == {want}:
                    res.ok("hash:%s" % cell, "R-ORDER", " ++ ".join(show_seg(s) for s in want))
                else:
                    res.violation("hash:%s" % cell, "with %s the hashed bytes are %s; the ledger formula is %s" %
                                  (cell, " | ".join(sorted(" ++ ".join(show_seg(s) for s in g) or "(nothing)" for g in got)), " ++ ".join(show_seg(s) for s in want)),
                                  where=X.where(f), rule="R-ORDER")
    res.count("hash cells", n)
    res.floor("hash cells", n, 8)
    rty = next((fl["ty"] for fl in a["variants"][0]["fields"] if fl["name"] == "redeemers"), "") if a else ""
    if "KeepRaw<" not in rty:
        res.notes.append("ScriptData.redeemers is %s (not KeepRaw): redeemers are re-encoded before hashing; a witness set whose redeemers are not in pallas' own "
                         "encoding (indefinite list, unsorted map, non-minimal integers) hashes differently from the ledger. Not claimed by this check." % rty)


def show_seg(s):
    if s[0] == "bytes":
        return "[" + " ".join("%02x" % b for b in s[1]) + "]"
    if s[0] in ("value", "raw"):
        k, direct = s[1] if isinstance(s[1], tuple) else (s[1], True)
        return "%s(%s%s)" % ("cbor" if s[0] == "value" else "raw", k, "" if direct else " re-built")
    return "?%s" % (s[1],)


def keepraw_encode(P, res):
    g = P.one(r"^<pallas_codec::utils::KeepRaw<[^>]*> as minicbor::encode::Encode<[^>]*>>::encode$")
    ok_raw = False
    bad = []
    for p in tabulate(g, P, 256):
        if p.end != "return" or X.is_error_propagation(p):
            continue
        names = [strip_generics(c[0]) for c in p.calls]
        reenc = any(re.search(r"Encoder::(encode_with|encode)$", n) for n in names)
        raw = any(re.search(r"Write::write_all$", n) and X.mentions_call(c[1][1], r"KeepRaw::raw_cbor$") or
                  (re.search(r"Write::write_all$", n) and X.mentions_field(c[1][1], "raw")) for n, c in zip(names, p.calls))
        empty = None
        for d, c in [(x[0], x[1]) for x in p.conds]:
            if d[0] == "call" and re.search(r"::is_empty$", strip_generics(d[1])) and (X.mentions_call(d, r"KeepRaw::raw_cbor$") or X.mentions_field(d, "raw")):
                empty = (c[0] == "eq" and int(c[1]) != 0) or (c[0] == "ne" and 0 in [int(v) for v in c[1]])
        if raw and not reenc:
            ok_raw = True
        if reenc and empty is not True:
            bad.append("re-encodes the inner value although original bytes may be present")
    if ok_raw and not bad:
        res.ok("KeepRaw::encode", "R-TABLE", "writes the stored bytes; re-encodes only when none are stored")
    else:
        res.violation("KeepRaw::encode", "KeepRaw's encoder %s" % (bad[0] if bad else "never writes the stored original bytes"), where=X.where(g), rule="R-TABLE")


# ------------------------------------------------------------------------------------------------ (d) LanguageViews::encode

def hir_contains_key_literals(f):
    """literal arguments of `contains_key(&lit)` calls in the HIR body (the MIR operand is a promoted constant)."""
    out = []
    if f.hir is None:
        return out
    for n in hirwalk.walk(f.hir.get("root")):
        if n.get("k") == "mcall" and str(n.get("def", "")).endswith("::contains_key"):
            for a in n.get("args", []):
                a = hirwalk.strip(a)
                if isinstance(a, dict) and a.get("k") == "lit":
                    v = a.get("v", a.get("value"))
                    out.append(v.get("int", v) if isinstance(v, dict) else v)
    return out


def language_views(P, res):
    f = P.one(r"^<" + re.escape(SD) + r"LanguageViews as minicbor::encode::Encode<[^>]*>>::encode$")
    paths = tabulate(f, P, 8192)
    is_e = lambda s: X.strip(s)[0] == "param" and X.strip(s)[1] == 2
    is_map = X.field_root(1, ["0"])

    def short(n):
        return n.split("::")[-1]
    # ---- header
    hdr_ok, hdr_n = True, 0
    for p in paths:
        em = X.emissions(p, is_e)
        if not em:
            continue
        hdr_n += 1
        n0, a0, _ = em[0]
        if not (n0.endswith("Encoder::map") and X.mentions_call(a0[1], r"BTreeMap::len$") and any(is_map(x) for x in sym_walk(a0[1]))):
            hdr_ok = False
        if any(short(n) in ("map", "array", "begin_map") for n, _, _ in em[1:]):
            hdr_ok = False
    if hdr_ok and hdr_n:
        res.ok("LanguageViews::encode:header", "R-TABLE", "map(self.0.len()) is the first and only container header written to the encoder")
    else:
        res.violation("LanguageViews::encode:header", "the language views are not written as one definite map of self.0.len() entries", where=X.where(f), rule="R-TABLE")

    # ---- arms: complete iterations = paths that end at the loop head (or return) with two items written after the header
    arms = {}
    subject = None
    for p in paths:
        em = X.emissions(p, is_e)[1:]
        if p.end not in ("loop", "return") or X.is_error_propagation(p) or len(em) != 2:
            continue
        kinds = tuple(short(n) for n, _, _ in em)
        arms.setdefault(kinds, []).append((p, em))
    v1 = [k for k in arms if k == ("bytes", "bytes")]
    plain = [k for k in arms if k != ("bytes", "bytes")]
    res.count("LanguageViews arms", len(arms))
    if not v1 or not plain:
        res.violation("LanguageViews::encode:arms", "expected one arm writing two byte strings (PlutusV1) and one arm writing two plain items; found %s" % sorted(arms),
                      where=X.where(f), rule="R-TABLE")
        return
    # plain arm: encode(key), encode(value looked up by that key); the key is the dispatch subject, tested != 0
    okp = True
    for k in plain:
        if not all(x in ("encode", "encode_with", "u8", "u16", "u32", "u64") for x in k):
            okp = False
        for p, em in arms[k]:
            key = X.strip(em[0][1][1])
            subject = X.norm(key)
            conds = [c for c in p.conds if X.norm(X.strip(c[0])) == subject]
            nonzero = any((c[1][0] == "ne" and 0 in [int(v) for v in c[1][1]]) or (c[1][0] == "eq" and int(c[1][1]) != 0) for c in conds)
            val = em[1][1][1]
            looked_up = any(X.norm(X.strip(x)) == subject for x in sym_walk(val)) and any(is_map(x) for x in sym_walk(val))
            paired = X.norm(X.buffer_of(val))[:1] == ("field",) and X.norm(X.strip(key))[:1] == ("field",) and X.strip(X.strip(val)[1]) == X.strip(X.strip(key)[1]) if False else False
            if not nonzero or not (looked_up or paired):
                okp = False
    if okp:
        res.ok("LanguageViews::encode:plain-arm", "R-TABLE", "key != 0: encode(key), encode(cost model of that key)")
    else:
        res.violation("LanguageViews::encode:plain-arm", "the arm for languages other than PlutusV1 does not write the key followed by that key's cost model as two plain items",
                      where=X.where(f), rule="R-TABLE")
    # V1 arm
    okv, why = True, ""
    nv = 0
    for p, em in arms[("bytes", "bytes")]:
        nv += 1
        conds = [c for c in p.conds if subject is not None and X.norm(X.strip(c[0])) == subject]
        if not any(c[1][0] == "eq" and int(c[1][1]) == 0 for c in conds):
            okv, why = False, "the two-byte-string arm is not selected by key == 0"
        kb = em[0][1][1]
        tv = [c for c in X.calls_in(kb) if strip_generics(c[1]).endswith("minicbor::to_vec")]
        cb = X.const_bytes(X.buffer_of(kb))
        if tv:
            a = X.strip(tv[0][2][0])
            if not ((a[0] == "const" and int(a[1]) == 0) or X.norm(a) == subject):
                okv, why = False, "the key byte string does not wrap the CBOR encoding of 0"
        elif cb != [0]:
            okv, why = False, "the key byte string does not wrap the CBOR encoding of 0"
        vb = X.norm(X.buffer_of(em[1][1][1]))
        if vb[0] != "call" or not re.search(r"Vec::(new|with_capacity)$", strip_generics(vb[1])):
            okv, why = False, "the value byte string is not a locally built buffer"
            continue

        def is_sub(s, vb=vb):
            s = X.strip(s)
            return s[0] == "call" and strip_generics(s[1]).endswith("Encoder::new") and X.norm(X.buffer_of(s[2][0])) == vb
        sub = [short(n) for n, _, _ in X.emissions(p, is_sub)]
        if not sub or sub[0] != "begin_array" or sub[-1] != "end" or any(x not in ("encode_with", "encode", "i64", "int") for x in sub[1:-1]):
            okv, why = False, "the wrapped value is not begin_array, items, end (found %s)" % sub
        if [short(n) for n, _, _ in X.emissions(p, is_e)].index("bytes") < 1:
            okv = False
    # the items of the indefinite array: inner loop writes each cost-model entry
    inner_items = 0
    for p in paths:
        if p.end != "loop":
            continue
        for callee, args, bb in p.calls:
            n = strip_generics(callee)
            if re.search(r"Encoder::(encode_with|encode)$", n) and args and X.strip(args[0])[0] == "call" and strip_generics(X.strip(args[0])[1]).endswith("Encoder::new"):
                if any(is_map(x) for x in sym_walk(args[1])):
                    inner_items += 1
    if not inner_items:
        okv, why = False, "no loop writes the cost-model entries into the wrapped indefinite array"
    if okv and nv:
        res.ok("LanguageViews::encode:v1-arm", "R-TABLE", "key == 0: bytes(cbor(0)), bytes([begin_array, cost-model items, end])")
    else:
        res.violation("LanguageViews::encode:v1-arm", "PlutusV1 entry: %s; the ledger hashes it as 0x41 0x00 followed by a byte string wrapping an indefinite list" % (why or "arm not found"),
                      where=X.where(f), rule="R-TABLE")

    # ---- ordering of the iteration sequence
    ordering(P, res, f, paths, subject, is_map)


def ordering(P, res, f, paths, subject, is_map):
    key = "LanguageViews::encode:order"
    if subject is None:
        res.violation(key, "iteration subject not found", where=X.where(f), rule="R-ORDER")
        return
    # the collection iterated by the loop: the Vec the subject is drawn from
    colls = [c for c in X.calls_in(subject) if re.search(r"Iterator::collect$", strip_generics(c[1]))]
    if not colls:
        res.violation(key, "the languages are not iterated from a collected sequence (ordering idiom not recognised; accepted: Vec of keys without 0, sorted, then push(0))",
                      where=X.where(f), rule="R-ORDER")
        return
    coll = colls[0]     # outermost collect: the iterated Vec
    src = [strip_generics(c[1]).split("::")[-1] for c in X.calls_in(coll)]
    from_keys = any(re.search(r"BTreeMap::keys$", strip_generics(c[1])) and any(is_map(x) for x in sym_walk(c)) for c in X.calls_in(coll))
    order_preserving = all(s in ("collect", "keys", "copied", "cloned", "filter", "into_iter", "iter", "map", "by_ref") for s in src)
    # filter closure rejects exactly 0
    rejects = None
    for c in X.calls_in(coll):
        if strip_generics(c[1]).endswith("Iterator::filter"):
            cl = X.strip(c[2][1])
            g = P.fns.get(cl[2]) if cl[0] == "agg" and cl[1] == "closure" else None
            if g is None:
                continue
            rej = set()
            for v in range(256):
                def leaf(s, v=v):
                    s = X.strip(s)
                    if s[0] == "param":
                        return v
                    raise finite.NotFinite(s)
                vals = set()
                for q in tabulate(g, P, 64):
                    if q.end != "return":
                        continue
                    try:
                        if all(finite.holds(cc, leaf, 8) is not False for cc in q.conds):
                            vals.add(finite.ev(q.ret, leaf, 8))
                    except finite.NotFinite:
                        vals.add(None)
                if vals == {0}:
                    rej.add(v)
                elif vals != {1}:
                    rej.add(None)
            rejects = rej
    reach = [p for p in paths if any(strip_generics(c[0]).endswith("IntoIterator::into_iter") and X.norm(X.strip(c[1][0])) == X.norm(coll) for c in p.calls)]
    lits = hir_contains_key_literals(f)
    problems = []
    if not from_keys:
        problems.append("the sequence is not drawn from the keys of the map")
    if rejects != {0}:
        problems.append("the filter does not reject exactly the key 0 (rejects %s)" % (sorted(x for x in rejects if x is not None)[:4] if rejects else "nothing"))
    n = 0
    for p in reach:
        n += 1
        names = [(strip_generics(c[0]), c[1]) for c in p.calls]
        on_coll = [(nm, a) for nm, a in names if a and X.norm(X.buffer_of(a[0])) == X.norm(coll) or
                   (a and X.strip(a[0])[0] == "call" and strip_generics(X.strip(a[0])[1]).endswith("DerefMut::deref_mut") and X.norm(X.buffer_of(X.strip(a[0])[2][0])) == X.norm(coll))]
        seq = [nm.split("::")[-1] for nm, a in on_coll if nm.split("::")[-1] not in ("deref_mut", "deref", "into_iter", "len", "is_empty", "iter")]
        sorts = [i for i, s in enumerate(seq) if s.startswith("sort")]
        pushes = [i for i, s in enumerate(seq) if s == "push"]
        other = [s for s in seq if not s.startswith("sort") and s != "push"]
        if other:
            problems.append("the sequence is modified by %s" % other[0])
        if not sorts and not order_preserving:
            problems.append("the sequence is neither sorted nor taken in BTreeMap order")
        if pushes and sorts and max(sorts) > min(pushes):
            problems.append("the sequence is sorted after 0 was appended: 0 would come first")
        has0 = None
        for d, c in [(x[0], x[1]) for x in p.conds]:
            sd = X.strip(d)
            if sd[0] == "call" and strip_generics(sd[1]).endswith("BTreeMap::contains_key") and any(is_map(x) for x in sym_walk(sd)):
                has0 = (c[0] == "eq" and int(c[1]) != 0) or (c[0] == "ne" and 0 in [int(v) for v in c[1]])
        pushed0 = False
        for nm, a in on_coll:
            if nm.endswith("Vec::push"):
                v = X.strip(a[1])
                pushed0 = v[0] == "const" and int(v[1]) == 0
                if not pushed0:
                    problems.append("a key other than 0 is appended after the sorted keys")
        if has0 is None:
            problems.append("appending 0 does not depend on contains_key(&0)")
        elif has0 != pushed0:
            problems.append("0 is %s although the map %s it" % ("appended" if pushed0 else "not appended", "contains" if has0 else "does not contain"))
    if lits and any(str(x) not in ("0", "0u8") for x in lits):
        problems.append("contains_key tests the key %s, not 0" % lits)
    if not lits:
        problems.append("the key tested by contains_key is not the literal 0")
    res.count("LanguageViews paths reaching the loop", n)
    res.floor("LanguageViews paths reaching the loop", n, 2)
    if problems:
        res.violation(key, "canonical key order (non-zero keys ascending, then PlutusV1 = 0): %s" % problems[0], where=X.where(f), rule="R-ORDER")
    else:
        res.ok(key, "R-ORDER", "keys() without 0 (%s), then push(0) iff contains_key(&0); nothing reorders the sequence afterwards" %
               ("sorted" if any("sort" in strip_generics(c[0]) for p in reach for c in p.calls) else "BTreeMap order"))


# ------------------------------------------------------------------------------------------------ (e) callers

def callers(P, res):
    hash_raw = r"conway::script_data::ScriptData::<[^>]*>::hash$"           # raw resolved path (callers_of, Fn.path)
    build_raw = r"conway::script_data::ScriptData::<[^>]*>::build_for$"
    hash_rx = r"conway::script_data::ScriptData::hash$"                     # generics stripped (terms)
    build_rx = r"conway::script_data::ScriptData::build_for$"
    # --- who may construct ScriptData
    n_ctor = 0
    for g in P.fns.values():
        for bi, si, rv in flow.aggregates(g, r"^" + re.escape(SD) + r"ScriptData$"):
            n_ctor += 1
            root = g.b.get("root") or g.b.get("parent") or g.path
            if re.search(build_raw, g.path) or (g.b.get("impl_trait") == "core::clone::Clone" and g.b.get("impl_adt") == SD + "ScriptData"):
                res.ok("ScriptData:ctor:%s" % strip_generics(root), "R-CTORS", "constructed by build_for / Clone")
                continue
            res.violation("ScriptData:ctor:%s" % strip_generics(root),
                          "ScriptData is assembled by hand in %s instead of ScriptData::build_for(witness set, views): which of redeemers / datums / language views are "
                          "present is then not derived from the witness set that is emitted, so the hash can disagree with it (e.g. `Some(empty redeemer list)` "
                          "hashes 0x80 where the witness set has no redeemers and the ledger hashes 0xA0; a hash is produced when there are neither redeemers nor datums)"
                          % strip_generics(root), where="%s:%s" % (g.file, g.line), rule="R-CTORS")
    res.count("ScriptData construction sites", n_ctor)
    res.floor("ScriptData construction sites", n_ctor, 1)

    # --- pallas-validate: the Conway script-integrity rule
    # the rule function is found by what it does, not by its name: a Conway phase-1 function that reads the body's
    # `script_data_hash` field and (itself or through helpers) reaches ScriptData::hash
    import json as _json
    hrx = re.compile(hash_rx)
    vs = [g for g in P.by_crate.get("pallas_validate", [])
          if "::conway::" in g.path and g.kind != "Closure" and '"script_data_hash"' in _json.dumps(g.mir["blocks"]) and X.fn_reaches(P, g, hrx)]
    res.count("validate functions comparing script_data_hash", len(vs))
    if not vs:
        res.violation("validate:caller", "no Conway phase-1 function of pallas-validate reads the body's script_data_hash and computes ScriptData::hash: "
                      "the script-integrity rule is gone", rule="R-PROV")
    for g in vs:
        key = "validate:%s" % strip_generics(g.path)
        paths = tabulate(g, P, 4096)
        n_ok, bad = 0, []
        for p in paths:
            if p.end != "return" or X.is_error_propagation(p):
                continue
            rc = X.result_class(p.ret)
            if rc is None:
                continue
            # is the body's hash present on this path, and what did the equality test say
            present = None
            equal = None
            for d, c in [(x[0], x[1]) for x in p.conds]:
                if d[0] == "discr" and X.mentions_field(d[1], "script_data_hash") and not X.calls_in(d[1]):
                    present = (int(c[1]) == 1) if c[0] == "eq" else (1 not in [int(v) for v in c[1]])
                sd = X.strip(d)
                a = b = None
                neg = False
                if sd[0] == "call" and X.IS_EQ.search(sd[1]) and len(sd[2]) == 2:
                    a, b, neg = sd[2][0], sd[2][1], sd[1].endswith("::ne")
                elif sd[0] == "bin" and sd[1] in ("Eq", "Ne"):
                    a, b, neg = sd[2], sd[3], sd[1] == "Ne"
                if a is None:
                    continue
                for x, y in ((a, b), (b, a)):
                    if X.mentions_field(x, "script_data_hash") and not X.reaches_call(P, x, hash_rx) and X.reaches_call(P, y, hash_rx):
                        # the hashed ScriptData comes from build_for over the transaction's witness set (directly, or inside a helper
                        # that is handed the transaction)
                        direct = X.mentions_call(y, build_rx) and X.mentions_field(y, "transaction_witness_set")
                        via = X.reaches_call(P, y, build_rx) and any(sub[0] == "param" for sub in sym_walk(y))
                        if not (direct or via):
                            bad.append("the expected hash is not ScriptData::hash(build_for(the transaction's witness set, ..))")
                        truth = (c[0] == "eq" and int(c[1]) != 0) or (c[0] == "ne" and 0 in [int(v) for v in c[1]])
                        equal = truth != neg
            if rc[0] == "ok" and present:
                n_ok += 1
                if equal is not True:
                    bad.append("a transaction carrying a script_data_hash is accepted on a path that does not establish equality with the computed hash")
            if rc[0] == "err" and equal is True:
                bad.append("the rule rejects although the hashes are equal")
            if rc[0] == "ok" and equal is False:
                bad.append("the rule accepts although the hashes differ")
        if not bad and n_ok:
            res.ok(key, "R-CDEP", "Ok with a present hash only when it equals ScriptData::hash(build_for(witness set, ..)); Err on inequality")
        else:
            res.violation(key, "script-integrity rule: %s" % (bad[0] if bad else "no accepting path for a present script_data_hash found"), where=X.where(g), rule="R-CDEP")

    # --- pallas-txbuilder: the stored script_data_hash is what ScriptData::hash returned
    n_body = 0
    for g in P.by_crate.get("pallas_txbuilder", []):
        for bj, sj, rv in flow.aggregates(g, r"^pallas_primitives::conway::model::TransactionBody$"):
            names = fields_of(P, rv["adt"])
            if "script_data_hash" not in names:
                continue
            n_body += 1
            root = g.b.get("root") or g.b.get("parent") or g.path
            key = "txbuilder:%s" % strip_generics(root)
            v = g.sym_operand(rv["fields"][names.index("script_data_hash")])
            if X.reaches_call(P, v, hash_rx):
                res.ok(key, "R-PROV", "TransactionBody.script_data_hash is computed by ScriptData::hash")
            else:
                res.violation(key, "the script_data_hash stored in the built transaction body (%s) is not the value computed by ScriptData::hash" % sym_str(v, 80),
                              where=X.where(g), rule="R-PROV")
    res.count("TransactionBody construction sites in pallas-txbuilder", n_body)
    res.floor("TransactionBody construction sites in pallas-txbuilder", n_body, 1)


def check_redeemer_key_order(res, P):
    """The redeemer bytes of the pre-image are produced by re-encoding `Redeemers`; in map form that is a BTreeMap keyed by
    RedeemersKey, so the order of the entries on the wire is RedeemersKey's Ord.  The ledger's canonical order is (tag, index).
    A derived Ord compares the fields in declaration order: the declaration order must be tag, then index (the #[n(..)] wire
    indices are independent of it).  A hand-written Ord is reported as unrecognised (fail closed)."""
    adt = P.adt("pallas_primitives::conway::model::RedeemersKey")
    if adt is None:
        res.violation("redeemers-key:anchor", "conway::RedeemersKey not found", rule="anchor")
        return
    ords = [i for c, i in P.impls() if i.get("adt") == adt["path"] and i.get("trait") == "core::cmp::Ord"]
    fields = [f["name"] for f in adt["variants"][0]["fields"]]
    key = "redeemers-key:order"
    if not ords:
        res.violation(key, "conway::RedeemersKey has no Ord impl although Redeemers::Map is keyed by it", rule="R-ORDER")
    elif "Derive:Ord" in (ords[0].get("expn") or ""):
        if fields[:2] == ["tag", "index"]:
            res.ok(key, "R-ORDER", "derived Ord over fields (tag, index): map-form redeemers are written in the ledger's (tag, index) order")
        else:
            res.violation(key, "conway::RedeemersKey derives Ord over its fields in declaration order %s: a map-form redeemer set is re-encoded in that order, "
                          "not in the ledger's (tag, index) order, so the redeemer bytes of the script-integrity pre-image are permuted" % fields,
                          where="%s:%s" % (adt["file"], adt["line"]), rule="R-ORDER")
    else:
        res.violation(key + ":unrecognised", "conway::RedeemersKey has a hand-written Ord; its agreement with the ledger's (tag, index) order is not decided", rule="R-ORDER")


def run(tier):
    res = Result("C08", tier, level="other")
    P = Program(crates=["pallas_codec", "pallas_primitives", "pallas_validate", "pallas_txbuilder"])
    build_for_table(P, res)
    hash_table(P, res)
    keepraw_encode(P, res)
    language_views(P, res)
    callers(P, res)
    check_redeemer_key_order(res, P)
    res.assumptions += ["Blake2b-256 (pallas_crypto::hash::Hasher<256>) and minicbor's item encoders are correct",
                        "std: BTreeMap::keys is ascending, sort/sort_unstable sort ascending, Vec::push appends",
                        "the ledger formula: hash(redeemers-or-0xA0 ++ datums-or-nothing ++ language-views-or-0xA0), views only with redeemers (Conway UTXOW / Alonzo spec 4.2)"]
    return finish(res,
                  explanation="build_for and hash are extracted as tables over the presence of redeemers / datums / language views and compared with the ledger formula "
                              "(None exactly without redeemers and datums; ordered writes redeemers|0xA0, datums|nothing, views|0xA0 into the buffer that Hasher<256> digests); "
                              "datums keep their original bytes (KeepRaw passed as it is); LanguageViews::encode writes PlutusV1 as 0x4100 + bytes-wrapped indefinite list, other "
                              "languages plain, in the order non-zero keys ascending then 0; the Conway phase-1 rule rejects exactly on inequality with the body's hash; the "
                              "builder stores ScriptData::hash; ScriptData is only constructed by build_for. Not decided: digest arithmetic, item codecs, redeemer re-encoding.",
                  rule_text="R-TABLE(build_for, hash, LanguageViews::encode arms) + R-ORDER(buffer writes; key sequence) + R-PROV(KeepRaw datums; stored hash) + "
                            "R-CDEP(validate rule) + R-CTORS(ScriptData)",
                  trusted_base=["rustc MIR", "type-resolved HIR (literal of contains_key)"])
