#!/bin/bash
# Confirm one mutant independently in a scratch git worktree of /repo (never /repo itself):
#   demo passes on the unchanged tree, fails with the patch, and the touched crate's existing tests pass with the patch.
# usage: tools/confirm_mutant.sh <dir containing patch.diff + one demo *.rs (first line: "// place at <crate>/tests/<name>.rs ...")>
# writes <dir>/confirm.json ; shares one worktree (/tmp/confirm_wt) and one target dir (/var/tmp/confirm_target) across calls.
set -u
d=$(realpath "$1")
WT=/tmp/confirm_wt
TGT=/var/tmp/confirm_target
export CARGO_NET_OFFLINE=true CARGO_TARGET_DIR=$TGT
if [ ! -d $WT ]; then git -C /repo worktree add -q --detach $WT HEAD || exit 1; fi
cd $WT && git checkout -q --detach $(git -C /repo rev-parse HEAD) && git checkout -q -- . && git clean -fdq
demo=$(ls $d/*.rs | head -1)
place=$(head -1 "$demo" | sed -n 's#^// place at \([^ ;]*\).*#\1#p')
[ -z "$place" ] && { echo "no placement comment in $demo"; exit 2; }
crate=${place%%/*}
name=$(basename "$place" .rs)
feat=""
grep -q 'features kes' "$demo" && feat="--features kes"
if ! git apply --check $d/patch.diff 2>/dev/null; then
  echo "{\"status\":\"patch does not apply to current HEAD\"}" > $d/confirm.json; cat $d/confirm.json; exit 3
fi
mkdir -p $(dirname $place) && cp "$demo" $place
cargo test --offline -p $crate $feat --test $name > $d/confirm_demo_orig.log 2>&1; orig=$?
git apply $d/patch.diff
cargo test --offline -p $crate $feat --test $name > $d/confirm_demo_mut.log 2>&1; mut=$?
rm -f $place
cargo test --offline -p $crate $feat > $d/confirm_suite_mut.log 2>&1; suite=$?
git checkout -q -- . && git clean -fdq
conf=false; [ $orig -eq 0 ] && [ $mut -ne 0 ] && [ $suite -eq 0 ] && conf=true
echo "{\"repo_head\":\"$(git -C /repo rev-parse --short HEAD)\",\"crate\":\"$crate\",\"demo\":\"$name\",\"demo_on_original_exit\":$orig,\"demo_on_mutant_exit\":$mut,\"existing_tests_on_mutant_exit\":$suite,\"confirmed\":$conf}" > $d/confirm.json
cat $d/confirm.json
