// Demonstration for C22 (goes to pallas-network/tests/c22_wellformed.rs).
// Every test encodes a value with the crate's own `Encode`, then
//  (1) walks the bytes with a strict generic CBOR reader (over minicbor's `Tokenizer`; `Decoder::skip` is lenient about a
//      `break` inside a definite container): the encoding must be exactly one well-formed data item, and
//  (2) decodes it back with the crate's own `Decode` and compares.
// Without the fixes: v6 / reply_blocking / ohashmap fail in (1) (declared lengths do not match the contents),
// plutus_purpose / tx_validation_error fail in (2) (the decoder does not read what the encoder writes).
use pallas_codec::minicbor::{self, data::Token, decode::Tokenizer};
use pallas_network::miniprotocols::{localmsgnotification, localtxsubmission, peersharing};
use std::net::Ipv6Addr;

/// A strict generic CBOR reader over minicbor's tokenizer: the buffer must hold exactly one complete data item, every
/// definite container holding exactly as many items as it declares, `break` only closing an open indefinite container.
fn single_wellformed_item(bytes: &[u8]) {
    fn item(toks: &[Token<'_>], i: usize) -> Result<usize, String> {
        let tok = toks.get(i).ok_or("input ends where an item is expected")?;
        match tok {
            Token::Array(n) => (0..*n).try_fold(i + 1, |j, _| item(toks, j)),
            Token::Map(n) => (0..2 * *n).try_fold(i + 1, |j, _| item(toks, j)),
            Token::Tag(_) => item(toks, i + 1),
            Token::BeginArray | Token::BeginMap | Token::BeginBytes | Token::BeginString => {
                let mut j = i + 1;
                loop {
                    match toks.get(j) {
                        None => return Err("indefinite container is not closed".into()),
                        Some(Token::Break) => return Ok(j + 1),
                        Some(_) => j = item(toks, j)?,
                    }
                }
            }
            Token::Break => Err("`break` where a data item is expected: a definite container declares more items than it holds".into()),
            _ => Ok(i + 1),
        }
    }
    let toks: Vec<Token<'_>> = Tokenizer::new(bytes)
        .collect::<Result<_, _>>()
        .unwrap_or_else(|e| panic!("not CBOR ({e}): {}", hex::encode(bytes)));
    match item(&toks, 0) {
        Ok(n) if n == toks.len() => {}
        Ok(n) => panic!("{} token(s) after the first complete item: {}", toks.len() - n, hex::encode(bytes)),
        Err(e) => panic!("not one well-formed CBOR item: {e}: {}", hex::encode(bytes)),
    }
}

#[test]
fn peer_address_v6_is_one_wellformed_item() {
    let addr = peersharing::PeerAddress::V6(Ipv6Addr::new(0x2001, 0xdb8, 0, 0, 0, 0, 0, 1), 3001);
    let msg = peersharing::Message::SharePeers(vec![addr.clone()]);
    let bytes = minicbor::to_vec(&msg).unwrap();
    single_wellformed_item(&bytes);
    let back: peersharing::Message = minicbor::decode(&bytes).unwrap();
    assert!(matches!(back, peersharing::Message::SharePeers(ref v) if v == &vec![addr]));
}

#[test]
fn reply_messages_blocking_is_one_wellformed_item() {
    let msg = localmsgnotification::Message::ReplyMessagesBlocking(vec![]);
    let bytes = minicbor::to_vec(&msg).unwrap();
    single_wellformed_item(&bytes);
    let back: localmsgnotification::Message = minicbor::decode(&bytes).unwrap();
    assert!(matches!(back, localmsgnotification::Message::ReplyMessagesBlocking(ref v) if v.is_empty()));
}

#[test]
fn ohashmap_is_one_wellformed_item_and_round_trips() {
    let m = localtxsubmission::OHashMap(vec![(1u8, 2u8), (3u8, 4u8)]);
    let bytes = minicbor::to_vec(&m).unwrap();
    single_wellformed_item(&bytes);
    let back: localtxsubmission::OHashMap<u8, u8> = minicbor::decode(&bytes).unwrap();
    assert_eq!(back, m);
}

#[test]
fn plutus_purpose_round_trips() {
    type P = localtxsubmission::PlutusPurpose<u8, u8, u8, u8, u8, u8>;
    let p: P = localtxsubmission::PlutusPurpose::Minting(7);
    let bytes = minicbor::to_vec(&p).unwrap();
    single_wellformed_item(&bytes);
    let back: P = minicbor::decode(&bytes).unwrap();
    assert_eq!(back, p);
}

#[test]
fn tx_validation_error_round_trips() {
    let e = localtxsubmission::TxValidationError::ShelleyTxValidationError {
        error: localtxsubmission::ApplyTxError(vec![]),
        era: localtxsubmission::ShelleyBasedEra::Conway,
    };
    let bytes = minicbor::to_vec(&e).unwrap();
    single_wellformed_item(&bytes);
    let back: localtxsubmission::TxValidationError = minicbor::decode(&bytes).unwrap();
    assert_eq!(back, e);
}
