// Goes into pallas-validate/tests/shelley_ma.rs, inside `mod shelley_ma_tests` (before the first `#[test]`).
// Both tests fail before the fix (panics: attempt to subtract with overflow / attempt to add with overflow
// in shelley_ma::check_mir), pass with proposed/C33/fix-mir.diff.

    #[test]
    // Same as successful_mainnet_allegra_tx_with_mir, except that the block slot is an
    // early one (the first Shelley epoch of the pre-production network starts at slot 86400).
    fn mir_in_an_early_slot() {
        let cbor_bytes: Vec<u8> = cbor_to_bytes(include_str!("../../test_data/allegra1.tx"));
        let mtx: Tx = minted_tx_from_cbor(&cbor_bytes);
        let metx: MultiEraTx = MultiEraTx::from_alonzo_compatible(&mtx, Era::Mary);
        let utxos: UTxOs = mk_utxo_for_alonzo_compatible_tx(
            &mtx.transaction_body,
            &[(
                String::from("61b651c2062463499961b9cd594da399a5ec910fceb5c63f9eb55a224a"),
                Value::Coin(96_400_000),
                None,
            )],
        );
        let mut env: Environment = hardcoded_environment_values!(max_transaction_size = 16384);
        env.block_slot = 90000;
        let mut cert_state: CertState = CertState::default();
        match validate_txs(&[metx], &env, &utxos, &mut cert_state) {
            Ok(()) => panic!("Slot 90000 is within the stability window of the end of its epoch"),
            Err(err) => match err {
                ShelleyMA(ShelleyMAError::MIRCertificateTooLateinEpoch) => (),
                _ => panic!("Unexpected error ({err:?})"),
            },
        }
    }

    #[test]
    // Same as successful_mainnet_allegra_tx_with_mir, except that every amount of the
    // MIR certificate is replaced by -1.
    fn mir_whose_total_does_not_fit_in_64_bits() {
        use pallas_primitives::alonzo::{Certificate, InstantaneousRewardTarget};
        let cbor_bytes: Vec<u8> = cbor_to_bytes(include_str!("../../test_data/allegra1.tx"));
        let mut mtx: Tx = minted_tx_from_cbor(&cbor_bytes);
        let utxos: UTxOs = mk_utxo_for_alonzo_compatible_tx(
            &mtx.transaction_body,
            &[(
                String::from("61b651c2062463499961b9cd594da399a5ec910fceb5c63f9eb55a224a"),
                Value::Coin(96_400_000),
                None,
            )],
        );
        let mut tx_body: TransactionBody = (*mtx.transaction_body).clone();
        let mut changed: usize = 0;
        for cert in tx_body.certificates.as_mut().unwrap().iter_mut() {
            if let Certificate::MoveInstantaneousRewardsCert(mir) = cert
                && let InstantaneousRewardTarget::StakeCredentials(amounts) = &mut mir.target
            {
                for amount in amounts.values_mut() {
                    *amount = -1;
                    changed += 1;
                }
            }
        }
        assert!(changed >= 2, "the test needs at least two MIR targets");
        let mut tx_buf: Vec<u8> = Vec::new();
        encode(tx_body, &mut tx_buf).unwrap();
        mtx.transaction_body =
            Decode::decode(&mut Decoder::new(tx_buf.as_slice()), &mut ()).unwrap();
        let metx: MultiEraTx = MultiEraTx::from_alonzo_compatible(&mtx, Era::Mary);
        let mut env: Environment = hardcoded_environment_values!(max_transaction_size = 16384);
        env.block_slot = 19282133;
        let mut cert_state: CertState = CertState::default();
        match validate_txs(&[metx], &env, &utxos, &mut cert_state) {
            Ok(()) => panic!("The instantaneous rewards exceed the pot"),
            Err(err) => match err {
                ShelleyMA(ShelleyMAError::InsufficientForInstantaneousRewards) => (),
                _ => panic!("Unexpected error ({err:?})"),
            },
        }
    }
