"""C13 — KES evolution erases all signing material of past periods (facts config `kes`).

Decides three erasure clauses over every macro-generated key type (Sum0..7Kes, Sum0..7CompactKes):
 R-ERASE   every function of the kes modules that derives key material from a mutable byte region (an ed25519 signing key built
           from it, or the seed-expansion hash fed with it) overwrites that very region with zeros on every path from the
           derivation to its return — itself or through a callee that provably zeroes the region it is handed; a function that
           leaves such a region intact passes the obligation to its callers, and a public / trait entry point may not; named local
           arrays that hold derived seeds (results of the seed-splitting function) or into which a callee writes a secret key are
           zero at return as well (explicitly, by the consuming callee, or by the Drop impl of the key value wrapping them).
 R-TABLE   evolution, evaluated over every period p < 2^depth - 1 of every key type: exactly one stored seed is consumed, by the
           key of level (trailing one bits of p) + 1, through a call that passes `None` to a function deriving a fresh subtree from
           the seed stored in the slice (and zeroing it); the consumed slot is the 32-byte slot key generation stored the seed in.
 R-DROP    the Drop impl of every key type zeroes its whole buffer.
Not decided: that the regenerated subtree overwrites every byte of the previous left subtree key (offset arithmetic inside the
callee), stack copies made by by-value returns, what the ed25519 / blake2b crates leave on their own stacks."""
import json
import os

from pv.program import Program, AnchorLost
from pv.report import Result, finish
from pv import x_kes as K

HERE = os.path.dirname(os.path.dirname(os.path.abspath(__file__)))


def boundary(f):
    return f.b.get("vis") == "Public" or bool(f.b.get("impl_trait"))


def where(f, bb=None):
    if bb is not None:
        t = f.blocks[bb]["term"]
        s = t.get("s")
        if s:
            return "%s:%s" % (f.file, s[0])
    return "%s:%s" % (f.file, f.line)


def erase_clause(res, M):
    fns = M.kes_fns()
    res.count("kes functions analysed", len(fns))
    n_obl = 0
    n_fn = 0
    n_ev = 0
    fails = {}
    for f in sorted(fns, key=lambda f: f.path):
        n_ev += len(M.events(f))
        seen = {}
        for rd in M.reads(f):
            k = (rd.region, rd.origin[:2] if rd.origin else None)
            bad = M.erased_after(f, rd)
            if k not in seen or (bad is not None and seen[k][1] is None):
                seen[k] = (rd, bad)
        had = False
        failed_regions = set()
        for (reg, _), (rd, bad) in seen.items():
            if reg.root[0] == "param" and not M.mutable_root(f, reg):
                continue        # bytes borrowed immutably (e.g. the current signing key in `sign`) cannot be erased here; callers inherit
            if reg.root[0] == "param" and bad is not None and not boundary(f):
                continue        # the callers of this crate-private function inherit the obligation (M.reads of the caller)
            had = True
            n_obl += 1
            if bad is None:
                res.ok("erase:%s:%s" % (K._short(f.path), K.region_key(f, reg)), "R-ERASE",
                       "%s: %s is zeroed on every path to the return" % (rd.how, K.region_str(f, reg)))
                res.sample({"fn": K._short(f.path), "region": K.region_str(f, reg), "read": rd.how, "verdict": "erased"})
            else:
                failed_regions.add(reg)
                ofn, okey, ohow, obb = rd.origin
                e = fails.setdefault("erase:%s:%s" % (K._short(ofn), okey), {"origin": rd.origin, "at": []})
                e["at"].append((f, reg, bad))
        for bb, reg, why in M.secret_local_obligations(f):
            had = True
            n_obl += 1
            key = "erase-local:%s:%s" % (K._short(f.path), K.region_key(f, reg))
            bad = M.erased_after(f, K.Read(bb, reg, why))
            if bad is None:
                res.ok(key, "R-ERASE", "local %s (%s) is zero at return" % (K.region_str(f, reg), why))
            elif reg in failed_regions:
                continue        # already attributed to the function that derives from it without erasing
            else:
                res.violation(key, "%s: local %s %s and is not zeroed on every path to the return (neither explicitly, nor by the callee "
                              "it is handed to, nor by a Drop impl)" % (K._short(f.path), K.region_str(f, reg), why), where=where(f, bb), rule="R-ERASE")
        if had:
            n_fn += 1
    for key, e in sorted(fails.items()):
        ofn, okey, ohow, obb = e["origin"]
        of = M.P.fns[ofn]
        oreg = next((rd.region for rd in M.direct_reads(of) if K.region_key(of, rd.region) == okey), None)
        at = sorted({"%s (%s)" % (K._short(f.path), K.region_str(f, reg)) for f, reg, bad in e["at"]})
        res.violation(key, "%s: %s from %s, and those bytes are not overwritten with zeros on every path afterwards — neither in this function nor "
                      "in its callers up to %s: the seed / signing key of an earlier period survives in memory"
                      % (K._short(ofn), ohow, K.region_str(of, oreg) if oreg else okey, "; ".join(at[:6]) + (" …" if len(at) > 6 else "")),
                      where=where(of, obb), rule="R-ERASE")
    res.count("zero-overwrite events recognised", n_ev)
    res.floor("functions with erase obligations", n_fn, 6)
    res.floor("erase obligations", n_obl, 10)
    res.floor("zero-overwrite events", n_ev, 12)


def drop_clause(res, M, kts):
    for kt in kts:
        key = "drop:%s" % kt.name
        d = M.drop_fn(kt.adt)
        if d is None:
            res.violation(key, "%s has no Drop impl: its key buffer keeps the signing material when the key value goes away" % kt.adt,
                          rule="R-DROP")
        elif M.drop_zeroes_whole(kt.adt):
            res.ok(key, "R-DROP", "Drop zeroes the whole buffer")
        else:
            res.violation(key, "the Drop impl of %s does not overwrite its whole buffer (self.0) with zeros on every path" % kt.adt,
                          where=where(d), rule="R-DROP")


def depth_of(kt, spec):
    if kt.total_len is None:
        return None
    n = kt.total_len - spec["period_bytes"] - spec["leaf_secret_bytes"]
    if n < 0 or n % spec["per_level_bytes"]:
        return None
    return n // spec["per_level_bytes"]


def seed_store_sites(M, adt):
    """[(fn, bb, region)] — copies of a derived seed into a parameter region, in the functions of this key type."""
    out = []
    for f in M.kes_fns():
        if f.b.get("impl_adt") != adt:
            continue
        tainted = M.seed_locals(f)
        if not tainted:
            continue
        for bi, t in f.calls():
            if K._COPY.search(K.callee(t)) and len(t["args"]) == 2:
                dst = K.region(f, f.sym_operand(t["args"][0]))
                if dst is None or dst.root[0] != "param" or dst.root[2] != ():
                    continue
                if any(r.root[0] == "local" and r.root[1] in tainted for r in M.byte_sources(f, f.sym_operand(t["args"][1]), through_calls=False)):
                    out.append((f, bi, dst))
    return out


def table_clause(res, M, kts, spec):
    E = K.Evolution(M, kts)
    depth = {kt.name: depth_of(kt, spec) for kt in kts}
    steps = 0
    n_types = 0
    for kt in kts:
        d = depth[kt.name]
        key = "regen:%s" % kt.name
        if d is None:
            res.violation(key, "%s: the buffer length tested by from_bytes (%s) is not 32 + 96*depth + 4: the key layout of spec/kes_layout.json "
                          "does not apply" % (kt.adt, kt.total_len), rule="R-TABLE")
            continue
        if d == 0:
            continue
        n_types += 1
        if kt.updater is None:
            res.violation(key, "%s::update does not hand its key slice and period to an evolution function of the kes modules" % kt.adt,
                          where=where(kt.update) if kt.update else None, rule="R-TABLE")
            continue
        bad = []
        for p in range(2 ** d - 1):
            r = E.step(kt, p)
            steps += 1
            want = K.trailing_ones(p) + 1
            if r["problems"]:
                bad.append("p=%d: %s" % (p, "; ".join(r["problems"])))
                continue
            if r["result"] != "Ok":
                continue      # exhaustion behaviour is C12's clause
            levels = []
            for (g, name, args, bb, rg) in r["regen"]:
                k2 = E.by_updater.get(g.path)
                levels.append(depth.get(k2.name) if k2 else None)
            if levels != [want]:
                bad.append("p=%d: stored seeds consumed at levels %s, expected exactly one at level %d" % (p, levels, want))
        if bad:
            res.violation(key, "%s: evolving from period p does not regenerate the right subtree of the half-way key from its stored seed "
                          "(which erases the seed and replaces the exhausted left subtree): %s" % (kt.adt, "; ".join(bad[:4])),
                          where=where(kt.updater[0]), rule="R-TABLE")
        else:
            res.ok(key, "R-TABLE", "periods 0..%d: one seed consumed per step at level tz1(p)+1" % (2 ** d - 2))
        # static shape of the regeneration site and of the seed slot
        g, bufp = kt.updater[0], kt.updater[1]
        sites = []
        for bi, t in g.calls():
            args = [g.sym_operand(a) for a in t["args"]]
            rg = E.is_regenerate(g, t.get("f") or "", args)
            if rg is None:
                continue
            h, k, lo, hi = rg
            r = M.map_to_caller(g, t, k, (), lo, hi)
            sites.append((bi, h, r))
        key2 = "seed-slot:%s" % kt.name
        slots = {(r.lo, r.hi) for _, _, r in sites if r is not None and r.root == ("param", bufp, ())}
        if len(sites) != 1 or len(slots) != 1:
            res.violation(key2, "%s: expected exactly one call that consumes the stored seed of the key slice (found %d)" % (g.path, len(sites)),
                          where=where(g), rule="R-TABLE")
            continue
        lo, hi = next(iter(slots))
        stores = seed_store_sites(M, kt.adt)
        st = {(r.lo, r.hi) for _, _, r in stores}
        if hi is None or hi - lo != spec["seed_bytes"]:
            res.violation(key2, "%s consumes the bytes [%s..%s) of the key slice as the stored seed: not a %d-byte slot"
                          % (g.path, lo, hi, spec["seed_bytes"]), where=where(g, sites[0][0]), rule="R-TABLE")
        elif st != {(lo, hi)}:
            res.violation(key2, "%s: key generation stores the right-subtree seed in %s but evolution consumes (and erases) [%d..%d): "
                          "the stored seed is never erased" % (kt.adt, sorted(st), lo, hi), where=where(g, sites[0][0]), rule="R-TABLE")
        elif not M.secret_outputs(sites[0][1]):
            res.violation(key2, "%s: the call consuming the stored seed does not write a new key into the slice" % g.path,
                          where=where(g, sites[0][0]), rule="R-TABLE")
        else:
            res.ok(key2, "R-TABLE", "seed stored in and consumed from [%d..%d)" % (lo, hi))
    res.count("evolution steps evaluated", steps)
    res.floor("key types with evolution", n_types, 6)
    have = {}
    for kt in kts:
        have.setdefault(depth[kt.name], []).append(kt.name)
    missing = [d for d in spec["depths"] if len(have.get(d, [])) < spec["families"]]
    if missing:
        res.violation("depths", "key types of depth %s are missing (expected %d constructions per depth 1..7): %s"
                      % (missing, spec["families"], {k: v for k, v in have.items()}), rule="floor")
    else:
        res.ok("depths", "floor", "two constructions for every depth 1..7")


def run(tier):
    res = Result("C13", tier, level="other")
    spec = json.load(open(os.path.join(HERE, "spec", "kes_layout.json")))
    P = Program(crates=["pallas_crypto"], config="kes")
    M = K.KesModel(P)
    kts = K.key_types(M)
    res.count("key types", len(kts))
    res.floor("key types", len(kts), 8)
    # anchors: the derivation sinks must still be what the kes code uses
    sinks = sum(len(M.direct_reads(f)) for f in M.kes_fns())
    res.floor("key-derivation reads of mutable regions", sinks, 4)
    erase_clause(res, M)
    drop_clause(res, M, kts)
    table_clause(res, M, kts, spec)
    res.assumptions += ["ed25519_dalek::SigningKey::from_bytes and pallas Hasher::input are the only ways the kes modules turn bytes into key material",
                        "copy_from_slice / fill / zeroize write every byte of their destination",
                        "spec/kes_layout.json (sum-composition key layout)"]
    return finish(res,
                  explanation="Erase-on-consume: every mutable region a kes function derives key material from is provably zero when the function returns "
                              "(region = constant-folded byte range of a parameter or local; zeroing by copy of a zero array, fill(0), zeroize, a zeroing callee, "
                              "or Drop of the wrapping key), for every macro instance; evolution evaluated over all periods of all depths consumes exactly the "
                              "stored seed of the half-way level, in the slot key generation stored it; Drop zeroes the whole buffer.  Not decided: that the "
                              "regenerated subtree overwrites every byte of the old one, stack residue of by-value returns and of the crypto crates.",
                  rule_text="R-ERASE (must-zero after derivation, inter-procedural summaries) + R-TABLE (finite evaluation of update over all periods) + R-DROP",
                  trusted_base=["rustc MIR/HIR facts (config kes)", "ed25519-dalek, zeroize, cryptoxide", "spec/kes_layout.json"])
