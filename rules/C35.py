"""C35 — accepted transactions carry only valid signatures, and all needed ones (necessary clauses).

Per post-Byron era (Shelley-MA, Alonzo, Babbage, Conway), over the functions reachable from validate_<era>_tx:
 (a) R-PIPE    the witness rules (vkey witness present / signature verifies / required signer present / its signature verifies,
               keyed by their error variants in tables/pipelines.json, entries tagged C35) are enforced by the pipeline and no
               validation result on the way is dropped (shared with C38, pv/x_pipe.py).
 (b) R-FORALL  a loop that applies utils::verify_signature to the elements of the witness list may return Ok from inside the loop
               (skipping the remaining witnesses) only when the function *searches* for one key: the Ok is on the equal side of a
               comparison between the hash of the witness's own vkey and a `Hash<28>` parameter.  Any other Ok reachable from the
               verified side without re-entering the loop head is an unverified remainder.  Iterator spellings: a closure that
               verifies must be consumed by all / try_for_each / try_fold (not any / find / position / ...).
 (c) R-CDEP    polarity: from the side of every test of verify_signature(..) that means "false" every path ends in an error
               return (or `false` of a predicate closure) and never reaches an Ok exit; every write of `true` into the flag of a
               `(bool, VKeyWitness)` check-list entry is dominated by the "true" side of such a test.
 (d) R-PROV    the message passed to verify_signature originates (through the callers) from
               OriginalHash::original_hash of the `transaction_body` field of the transaction handed to the pipeline — not a
               re-encoding, not another part of the transaction; inside verify_signature the key is the witness's own `vkey`, the
               signature its own `signature`, and in a search the hash compared is the hash of the vkey of the witness verified.
Not decided: Ed25519 itself (pallas-crypto / cryptoxide), that the payment key hash looked for is the right one."""
import re
from pv.program import Program
from pv.report import Result, finish
from pv.mir import sym_str, sym_walk, op_place, pl_local
from pv.panic import strip_generics
from pv import x_pipe, x_wit
from pv.x_pipe import callee, where, exits, closure_aggs, consumer_of

PROP = "C35"
VERIFY = r"^pallas_validate::utils::verify_signature$"
ED_VERIFY = r"^pallas_crypto::key::ed25519::PublicKey::verify$"
CHECKLIST_TY = re.compile(r"\(bool, [^()]*VKeyWitness\)")
TRANSPARENT = re.compile(r"::(deref|deref_mut|as_ref|as_mut|as_slice|to_vec|to_owned|clone|cloned|borrow|into|from|as_bytes|to_bytes|into_vec|into_boxed_slice)$")
ALL_CONSUMERS = {"all", "try_for_each", "try_fold"}
EARLY_CONSUMERS = {"any", "find", "find_map", "position", "rposition", "skip", "skip_while", "take", "take_while", "step_by", "nth", "last",
                   "next", "map_while", "max_by", "min_by", "max_by_key", "min_by_key", "rfind"}


def strip(sym):
    while True:
        k = sym[0]
        if k in ("ref", "deref", "cast"):
            sym = sym[1]
        elif k == "call" and sym[2] and TRANSPARENT.search(strip_generics(sym[1])):
            sym = sym[2][0]
        else:
            return sym


# ------------------------------------------------------------------------------------------------- loops and guards

def cyclic_sccs(f):
    """Cyclic strongly connected components of the live CFG: [(blocks, heads)]."""
    live = set(f.live_blocks())
    seen = set()
    out = []
    for b in sorted(live):
        if b in seen or not f.can_reach_strict(b, b):
            continue
        scc = ({x for x in f.reach_from(b) if f.can_reach(x, b)} | {b}) & live
        seen |= scc
        heads = {x for x in scc if any(p not in scc for p in f.pred(x) if p in live)}
        out.append((scc, heads))
    return out


def loop_of(f, bb, value_syms=()):
    """The loop whose iteration the call at bb belongs to: bb lies on the cycle, or bb is reached from the cycle (a head dominates
    it) and works on a value produced inside the cycle (the item of the iteration).  -> (blocks, heads) | None"""
    dom = f.dominators().get(bb, ())
    inside_blocks = set()
    inside_locals = set()
    for sym in value_syms:
        if sym is None:
            continue
        for s in sym_walk(sym):
            if s[0] == "call":
                inside_blocks.add(s[3])
            elif s[0] == "local":
                inside_locals.add(s[1])
    best = None
    for scc, heads in cyclic_sccs(f):
        if bb in scc:
            return scc, heads
        if not (heads & set(dom)):
            continue
        produced = bool(inside_blocks & scc) or any(d[0] in scc for l in inside_locals for d in f.defs().get(l, []))
        if produced and (best is None or len(scc) < len(best[0])):
            best = (scc, heads)
    return best


def _hash_of_vkey(P, f, o):
    """Is the value a hash of `<x>.vkey`?  -> the symbolic witness <x> (in f), or None.  Crate helpers such as
    `fn vkey_hash(w: &VKeyWitness) -> Hash<28> { Hasher::<224>::hash(&w.vkey) }` are looked into."""
    HASH = r"Hasher::hash$|Hasher::<\d+>::hash$|::hash$"
    for n in sym_walk(o):
        if n[0] != "call":
            continue
        if re.search(HASH, strip_generics(n[1])):
            vk = [s for s in sym_walk(n) if s[0] == "field" and s[2] == "vkey"]
            if vk:
                return vk[0][1]
        g = P.fns.get(n[1]) if P is not None else None
        if g is not None and g.crate == f.crate and g.kind != "Closure" and g.argc >= 1 and "Hash<28>" in g.local_ty(0) and n[2]:
            r = g.sym_local(0)
            inner = [s for s in sym_walk(r) if s[0] == "call" and re.search(HASH, strip_generics(s[1]))]
            vk = [s for s in sym_walk(r) if s[0] == "field" and s[2] == "vkey" and strip(s[1])[0] == "param" and strip(s[1])[1] == 1]
            if inner and vk:
                return n[2][0]
    return None


def search_guard(f, bb, wit_sym, P=None):
    """Is the call at bb on the equal side of a comparison `hash(<witness>.vkey) == <Hash<28> parameter>`?
    -> (guarded?, same-witness? | None when not comparable, text)"""
    dom = f.dominators().get(bb, ())
    for sb in dom:
        t = f.blocks[sb]["term"]
        if t["k"] != "switch":
            continue
        c = f.sym_operand(t["d"])
        neg = False
        while c[0] == "un" and c[1] == "Not":
            neg = not neg
            c = c[2]
        ops = None
        if c[0] == "call" and re.search(r"PartialEq::(eq|ne)$", strip_generics(c[1])) and len(c[2]) == 2:
            ops = c[2]
            if strip_generics(c[1]).endswith("::ne"):
                neg = not neg
        elif c[0] == "bin" and c[1] in ("Eq", "Ne"):
            ops = (c[2], c[3])
            if c[1] == "Ne":
                neg = not neg
        if ops is None:
            continue
        key_side = None
        hashed = None
        for o in ops:
            so = strip(o)
            if so[0] == "param" and "Hash<28>" in f.local_ty(so[1]):
                key_side = so
            else:
                w = _hash_of_vkey(P, f, o)
                if w is not None:
                    hashed = w
        if key_side is None or hashed is None:
            continue
        # the call must sit on the equal side
        zero = [b for v, b in t["ts"] if int(v) == 0]
        ne_t = zero[0] if zero else t["o"]
        eq_t = ([b for v, b in t["ts"] if int(v) != 0] + ([t["o"]] if zero else [None]))[0]
        if neg:
            eq_t, ne_t = ne_t, eq_t
        if eq_t is None or not (eq_t == bb or (eq_t in dom and f.pred(eq_t) == [sb])):
            continue
        same = None
        if wit_sym is not None:
            same = sym_str(strip(hashed), 2000) == sym_str(strip(wit_sym), 2000)
        return True, same, sym_str(c, 200)
    return False, None, None


def flag_writes(f):
    """Statements writing `true` into the bool of a (bool, VKeyWitness) check-list entry: [(bb, si)]."""
    out = []
    for bi, si, s in f.statements():
        if s[0] != "a" or isinstance(s[1], int) or s[2]["k"] != "use":
            continue
        c = s[2]["x"].get("k")
        if c is None or c.get("ty") != "bool" or "v" not in c or int(c["v"]) != 1:
            continue
        # walk the reference chain behind the place and look at the types on the way
        seen = set()
        cur = pl_local(s[1])
        hit = False
        for _ in range(8):
            if cur in seen:
                break
            seen.add(cur)
            if CHECKLIST_TY.search(f.local_ty(cur)):
                hit = True
                break
            ds = [d for d in f.defs().get(cur, []) if d[2] == "assign"]
            nxt = None
            for d in ds:
                rv = d[3][2]
                if rv["k"] in ("ref", "rawptr"):
                    nxt = pl_local(rv["p"])
                elif rv["k"] == "use" and op_place(rv["x"]) is not None:
                    nxt = pl_local(op_place(rv["x"]))
            if nxt is None:
                break
            cur = nxt
        if hit:
            out.append((bi, si))
    return out


# ------------------------------------------------------------------------------------------------- provenance

def callers(CF, F):
    out = []
    for G in CF:
        for bi, t in G.calls():
            if (t.get("f") or "") == F.b.get("path", F.path) and G is not F:
                out.append((G, bi, t))
    return out


def closure_parent_operand(P, F, k):
    """For closure F: the operand (in the parent) captured as environment field k -> (parent Fn, symbolic value)."""
    par = P.fns.get(F.b.get("parent") or "")
    if par is None:
        return None
    for bi, l, h, agg in closure_aggs(par, P):
        if h is F and k < len(agg["fields"]):
            return par, par.sym_operand(agg["fields"][k])
    return None


def trace(P, CF, F, sym, pipe, mode, seen=None, have_field=False, depth=0):
    """mode 'data': sym must come from original_hash(<tx body>);  mode 'body': sym must be the `transaction_body` of the
    transaction parameter of the pipeline.  -> (ok, why)"""
    seen = seen or set()
    if depth > 14:
        return False, "provenance chain too deep"
    sym = strip(sym)
    k = sym[0]
    if k == "call":
        name = strip_generics(sym[1])
        if mode == "data" and name.endswith("::original_hash"):
            if "TransactionBody" not in sym[1]:
                return False, "original_hash of %s, not of the transaction body" % sym[1][:120]
            return trace(P, CF, F, sym[2][0], pipe, "body", seen, False, depth + 1)
        g = P.fns.get(sym[1])
        if g is not None and g.crate == F.crate and g is not F and g.kind != "Closure":
            # a helper of the crate: what it returns must itself satisfy the obligation
            rets = []
            for l in sorted(exits(g).rp):
                for d in g.defs().get(l, []):
                    if d[2] == "call":
                        tt = d[3]
                        rets.append(("call", tt.get("f") or tt.get("g") or "?", tuple(g.sym_operand(a) for a in tt["args"]), d[0]))
                    elif d[2] == "assign" and isinstance(d[3][1], int):
                        rv = d[3][2]
                        if rv["k"] == "use" and op_place(rv["x"]) is not None and isinstance(op_place(rv["x"]), int) and op_place(rv["x"]) in exits(g).rp:
                            continue
                        rets.append(g.sym_rvalue(rv, 30))
            if not rets:
                return False, "%s(..) returns nothing traceable" % name
            for r in rets:
                ok, why = trace(P, CF, g, r, pipe, mode, seen, have_field, depth + 1)
                if not ok:
                    return False, "%s (returned by %s)" % (why, g.name)
            return True, "through helper %s" % g.name
        return False, "%s(..)" % name
    if k == "field":
        if mode == "body" and sym[2] == "transaction_body":
            return trace(P, CF, F, sym[1], pipe, "body", seen, True, depth + 1)
        if sym[1][0] in ("deref", "param") and strip(sym[1])[0] == "param" and strip(sym[1])[1] == 1 and F.kind == "Closure" and isinstance(sym[2], int):
            up = closure_parent_operand(P, F, sym[2])
            if up is None:
                return False, "captured value of an unknown closure"
            return trace(P, CF, up[0], up[1], pipe, mode, seen, have_field, depth + 1)
        return False, "field %s of %s" % (sym[2], sym_str(sym[1], 80))
    if k == "param":
        if F is pipe:
            if mode == "body" and have_field and re.search(r"::Tx(<|$)", F.local_ty(sym[1])):
                return True, "transaction_body of the pipeline's transaction"
            return False, "parameter %s of the pipeline" % (F.local_name(sym[1]) or sym[1])
        cs = callers(CF, F)
        if not cs:
            return False, "parameter %s of %s, which has no caller in the pipeline" % (F.local_name(sym[1]) or sym[1], F.name)
        key = (F.path, sym[1], mode, have_field)
        if key in seen:
            return True, "recursive"
        seen = seen | {key}
        for G, bi, t in cs:
            if sym[1] - 1 >= len(t["args"]):
                return False, "argument missing"
            ok, why = trace(P, CF, G, G.sym_operand(t["args"][sym[1] - 1]), pipe, mode, seen, have_field, depth + 1)
            if not ok:
                return False, "%s (passed by %s at %s)" % (why, G.name, where(G, bi))
        return True, "through %d caller(s)" % len(cs)
    return False, sym_str(sym, 120)


def leaves(f, sym, depth=0):
    """(parameter index, field chain) leaves a value is computed from, looking through calls and buffers filled by
    copy_from_slice / clone_from_slice."""
    out = set()
    if depth > 10:
        return {("?", ())}

    def chain(s):
        c = []
        while True:
            if s[0] in ("ref", "deref", "cast"):
                s = s[1]
            elif s[0] == "field":
                c.append(str(s[2]))
                s = s[1]
            elif s[0] in ("index", "cindex", "subslice", "downcast"):
                s = s[1]
            elif s[0] == "call" and s[2] and TRANSPARENT.search(strip_generics(s[1])):
                s = s[2][0]
            else:
                c.reverse()
                return s, tuple(c)
    root, ch = chain(sym)
    if root[0] == "param":
        return {(root[1], ch)}
    if root[0] == "call":
        for a in root[2]:
            out |= leaves(f, a, depth + 1)
        return out
    if root[0] == "local":
        l = root[1]
        found = False
        for bi, t in f.calls():
            if re.search(r"::(copy_from_slice|clone_from_slice)$", callee(t)) and len(t["args"]) == 2:
                dr, _ = chain(f.sym_operand(t["args"][0]))
                if dr[0] == "local" and dr[1] == l:
                    out |= leaves(f, f.sym_operand(t["args"][1]), depth + 1)
                    found = True
        for d in f.defs().get(l, []):
            if d[2] == "assign" and d[3][2]["k"] in ("use", "cast") and op_place(d[3][2]["x"]) is not None:
                out |= leaves(f, f.sym_operand(d[3][2]["x"]), depth + 1)
                found = True
            elif d[2] == "call":
                for a in d[3]["args"]:
                    out |= leaves(f, f.sym_operand(a), depth + 1)
                found = True
        if not found:
            out.add(("local", (f.local_name(l) or str(l),)))
        return out
    if root[0] == "fnconst":
        return out                                         # a function passed as a value (`.map(PublicKey::from)`) is not data
    if root[0] in ("const", "constsym", "repeat", "agg"):
        if root[0] == "agg":
            for a in root[3]:
                out |= leaves(f, a, depth + 1)
        else:
            out.add(("const", ()))
        return out
    out.add((root[0], ()))
    return out


# ------------------------------------------------------------------------------------------------- per era

def analyse_era(res, P, M, era, spec):
    pipe = P.one("^%s$" % re.escape(spec["pipeline"]))
    CF = M.closure_fns(pipe)
    vrx = re.compile(VERIFY)
    # verdict sources: direct calls first, then predicate closures consumed by `all`
    sources = {}                       # (fn path, bb) -> (Fn, bb, description, witness sym)
    direct_sites = []
    for F in CF:
        for bi, t in F.calls():
            if vrx.search(t.get("f") or ""):
                sources[(F.path, bi)] = (F, bi, "verify_signature", F.sym_operand(t["args"][0]) if t["args"] else None)
                direct_sites.append((F, bi, t))
    res.count("%s: verify_signature call sites" % era, len(direct_sites))
    res.floor("verify_signature call sites:%s" % era, len(direct_sites), 1)

    done = set()
    # work items: (Fn, bb of the call carrying a verdict, description, witness sym, fact that means "a verification FAILED")
    #   the fact is a dict for bool_flow: {dest: False} for verify_signature itself and for all(positive predicate),
    #   {dest: True} for any(negated predicate), {("some", dest): False} for Option::map(positive predicate)
    work = [(F, bb, what, wit, None) for (F, bb, what, wit) in sources.values()]
    n_tests = 0
    sites_of = {}                      # fn path -> [(Fn, bb, fail fact)]
    while work:
        F, bb, what, wit, fail = work.pop()
        if (F.path, bb) in done:
            continue
        done.add((F.path, bb))
        fkey = F.path.split("phase1::")[-1]
        ex = exits(F)
        t = F.blocks[bb]["term"]
        d = t["dest"]
        nxt = t.get("t")
        if not isinstance(d, int) or nxt is None:
            res.violation("verdict-unused:%s" % fkey, "the boolean verdict of %s in %s is stored somewhere the rule cannot follow" % (what, F.path), where=where(F, bb), rule="R-CDEP")
            continue
        if fail is None:
            fail = {d: False}
        good_fact = {k: (not v) for k, v in fail.items()}
        sites_of.setdefault(F.path, []).append((F, bb, fail))
        is_pred = F.local_ty(0) == "bool"
        if is_pred:
            # a predicate (closure or function returning bool): which answer does it give when the verification failed?
            rv = x_pipe.bool_flow(F, nxt, 0, fail, stop_at_reject=False)["ret_vals"]
            polarity = "pos" if rv == {False} else "neg" if rv == {True} else None
            if polarity is None:
                res.violation("polarity:%s" % fkey, "in %s the answer of the predicate does not depend on %s in a way the rule can read (answers when it failed: %s)"
                              % (F.path, what, sorted(map(str, rv))), where=where(F, bb), rule="R-CDEP")
                continue
            n_tests += 1
            res.ok("polarity:%s" % fkey, "R-CDEP", "predicate answers %s whenever %s failed" % ("false" if polarity == "pos" else "true", what))
            if F.kind == "Closure":
                par = P.fns.get(F.b.get("parent") or "")
                placed = False
                for abi, l, h, agg in (closure_aggs(par, P) if par is not None else []):
                    if h is not F:
                        continue
                    placed = True
                    fb, chain = consumer_of(par, l)
                    last = chain[-1] if chain else None
                    before = chain[:-1]
                    early = [c for c in before if c in EARLY_CONSUMERS]
                    if fb is None:
                        res.violation("forall:%s" % fkey, "the closure that verifies signatures in %s is never consumed" % par.path, where=where(par, abi), rule="R-LAZY")
                        continue
                    dty = par.local_ty(pl_local(par.blocks[fb]["term"]["dest"]))
                    if early:
                        res.violation("forall:%s" % fkey, "in %s the closure that verifies signatures is consumed through %s, which stops at / skips elements: not every witness is verified"
                                      % (par.path, ".".join(chain)), where=where(par, fb), rule="R-FORALL")
                    elif last == "all" and polarity == "pos":
                        res.ok("forall:%s" % fkey, "R-FORALL", "verifying predicate consumed by %s" % ".".join(chain))
                        work.append((par, fb, "all(verify_signature)", None, {pl_local(par.blocks[fb]["term"]["dest"]): False}))
                    elif last == "any" and polarity == "neg":
                        res.ok("forall:%s" % fkey, "R-FORALL", "negated verifying predicate consumed by %s (any failure is found)" % ".".join(chain))
                        work.append((par, fb, "any(!verify_signature)", None, {pl_local(par.blocks[fb]["term"]["dest"]): True}))
                    elif last == "map" and dty.startswith("core::option::Option<bool>"):
                        # Option::map over one selected witness: the verdict travels inside the Option
                        dl = pl_local(par.blocks[fb]["term"]["dest"])
                        work.append((par, fb, "Option::map(verify_signature)", None, {("some", dl): (polarity == "neg"), dl: True}))
                    else:
                        res.violation("forall:%s" % fkey, "in %s the closure that verifies signatures is consumed by %s, which stops at / skips elements or ignores the verdict: "
                                      "not every witness is verified" % (par.path, ".".join(chain)), where=where(par, fb), rule="R-FORALL")
                if not placed:
                    res.violation("verdict-unused:%s" % fkey, "cannot find where the verifying closure %s is used" % F.path, where=where(F, bb), rule="R-CDEP")
            else:
                for G, bi, tt in callers(CF, F):
                    gd = pl_local(G.blocks[bi]["term"]["dest"])
                    work.append((G, bi, "%s(verify_signature)" % F.name, G.sym_operand(tt["args"][0]) if tt["args"] else None, {gd: (polarity == "neg")}))
            continue
        n_tests += 1
        # (c) polarity: with a failed verification every path must end in a rejection (boolean temporaries are followed)
        bad = x_pipe.bool_flow(F, nxt, 0, fail)
        if bad["ok"] is None and not bad["ret"]:
            res.ok("polarity:%s" % fkey, "R-CDEP", "a failed %s always ends in an error return (%s)" % (what, where(F, bb)))
        else:
            at = where(F, bad["ok"][0]) if bad["ok"] else where(F, bb)
            res.violation("polarity:%s" % fkey, "in %s a transaction can be accepted although %s returned false (accepting exit at %s): "
                          "the error return is not control dependent on the failed verification" % (F.path, what, at), where=where(F, bb), rule="R-CDEP")
        if F.kind == "Closure" and what == "verify_signature":
            # a closure that verifies and decides by itself (returns a Result / unit): it must be driven over every element
            par = P.fns.get(F.b.get("parent") or "")
            for abi, l, h, agg in (closure_aggs(par, P) if par is not None else []):
                if h is not F:
                    continue
                fb, chain = consumer_of(par, l)
                early = [c for c in chain if c in EARLY_CONSUMERS]
                if fb is None:
                    res.violation("forall:%s" % fkey, "the closure that verifies signatures in %s is never consumed" % par.path, where=where(par, abi), rule="R-LAZY")
                elif early:
                    res.violation("forall:%s" % fkey, "in %s the closure that verifies signatures is consumed by %s, which stops at / skips elements: not every witness is verified"
                                  % (par.path, ".".join(chain)), where=where(par, fb), rule="R-FORALL")
                else:
                    res.ok("forall:%s" % fkey, "R-FORALL", "verifying closure driven over every element by %s" % ".".join(chain))
        # (b) no Ok from inside the loop on the verified side, unless this is a search for one key
        lp = loop_of(F, bb, (wit,))
        if lp is not None:
            scc, heads = lp
            good = x_pipe.bool_flow(F, nxt, 0, good_fact, avoid=heads)
            if good["ok"] is not None:
                guarded, same, txt = search_guard(F, bb, wit, P)
                if guarded:
                    res.ok("forall:%s" % fkey, "R-FORALL", "Ok inside the loop is the success of a search for one key hash (%s)" % txt)
                    if same is True:
                        res.ok("own-key:%s" % fkey, "R-PROV", "the hash compared with the wanted key is the hash of the vkey of the witness that is verified")
                    elif same is False:
                        res.violation("own-key:%s" % fkey, "in %s the key hash compared with the wanted key is not the hash of the vkey of the witness whose signature is verified" % F.path,
                                      where=where(F, bb), rule="R-PROV")
                    else:
                        res.count("clauses not decided: own-key (hash test and verification not comparable)")
                else:
                    res.violation("forall:%s" % fkey, "%s returns Ok from inside the loop as soon as one witness verifies (exit at %s): the remaining vkey witnesses are "
                                  "never checked, so a transaction carrying an invalid signature after a valid one is accepted" % (F.path, where(F, good["ok"][0])),
                                  where=where(F, bb), rule="R-FORALL")
            else:
                res.ok("forall:%s" % fkey, "R-FORALL", "no Ok exit is reachable from the verified side without re-entering the loop head")
    # (c) flag writes in verifying functions: after a verification, and never on its failed side
    for fpath, lst in sites_of.items():
        F = lst[0][0]
        fkey = F.path.split("phase1::")[-1]
        for wb, wsi in flag_writes(F):
            ok = False
            for _, bb, fail in lst:
                nxt = F.blocks[bb]["term"].get("t")
                if bb in F.dominators().get(wb, ()) and bb != wb and (wb, wsi) not in x_pipe.bool_flow(F, nxt, 0, fail)["positions"]:
                    ok = True
            k = "covered-flag:%s" % fkey
            if ok:
                res.ok(k, "R-CDEP", "the witness is marked covered only after its signature verified")
            else:
                res.violation(k, "in %s a witness is marked as covered (flag := true at %s) on a path that does not pass a successful verify_signature" % (F.path, where(F, wb)),
                              where=where(F, wb), rule="R-CDEP")
    # flag writes in functions that do not verify at all
    verifying = {p for (p, _) in done}
    for F in CF:
        if F.path in verifying:
            continue
        for wb, wsi in flag_writes(F):
            res.violation("covered-flag:%s" % F.path.split("phase1::")[-1], "%s marks a witness as covered (flag := true) but never verifies its signature" % F.path,
                          where=where(F, wb), rule="R-CDEP")
    res.count("%s: verdict tests analysed" % era, n_tests)

    # (d) provenance of the signed message
    for F, bi, t in direct_sites:
        k = "message:%s" % F.path.split("phase1::")[-1]
        if len(t["args"]) < 2:
            res.violation(k, "verify_signature called without a message", where=where(F, bi), rule="R-PROV")
            continue
        ok, why = trace(P, CF, F, F.sym_operand(t["args"][1]), pipe, "data")
        if ok:
            res.ok(k, "R-PROV", "message = original_hash(transaction body) of the pipeline's transaction (%s)" % why)
        else:
            res.violation(k, "the message checked by verify_signature in %s is not the transaction id (original_hash of the body of the transaction under validation): it is %s"
                          % (F.path, why), where=where(F, bi), rule="R-PROV")
    return len(direct_sites)


def check_verify_signature(res, P):
    V = P.one(VERIFY)
    calls = [(bi, t) for bi, t in V.calls() if re.search(ED_VERIFY, callee(t))]
    res.floor("ed25519 verify in verify_signature", len(calls), 1)
    for bi, t in calls:
        if len(t["args"]) < 3:
            res.violation("verify_signature:args", "unexpected PublicKey::verify signature", where=where(V, bi), rule="R-PROV")
            continue
        key = leaves(V, V.sym_operand(t["args"][0]))
        msg = leaves(V, V.sym_operand(t["args"][1]))
        sig = leaves(V, V.sym_operand(t["args"][2]))
        wit = [i for i in range(1, V.argc + 1) if "VKeyWitness" in V.local_ty(i)]
        dat = [i for i in range(1, V.argc + 1) if i not in wit]
        w = wit[0] if wit else None
        d = dat[0] if dat else None
        for name, got, want in (("key", key, {(w, ("vkey",))}), ("signature", sig, {(w, ("signature",))}), ("message", msg, {(d, ())})):
            k = "verify_signature:%s" % name
            if got == want:
                res.ok(k, "R-PROV", "%s of the Ed25519 check comes from %s" % (name, sorted(got)))
            else:
                res.violation(k, "utils::verify_signature: the %s given to PublicKey::verify is computed from %s, expected exactly %s (the witness's own field / the message parameter)"
                              % (name, sorted(map(str, got)), sorted(map(str, want))), where=where(V, bi), rule="R-PROV")
    ex = exits(V)
    for bi, t in calls:
        d = t["dest"]
        direct = isinstance(d, int) and d in ex.rp
        if not direct:
            nxt = t.get("t")
            r = x_pipe.bool_flow(V, nxt, 0, {d: False}) if (isinstance(d, int) and nxt is not None) else {"ok": (bi, 0), "ret": True}
            if r["ok"] is not None or r["ret"]:
                res.violation("verify_signature:result", "utils::verify_signature does not return false whenever PublicKey::verify does", where=where(V, bi), rule="R-CDEP")
                continue
        res.ok("verify_signature:result", "R-CDEP", "verify_signature returns false whenever PublicKey::verify does")


def run(tier):
    res = Result(PROP, tier, level="other")
    P = Program(crates=["pallas_validate", "pallas_traverse", "pallas_addresses"])
    M = x_pipe.ErrModel(P)
    table = x_pipe.load_pipelines()
    accessors = x_wit.tabulate_accessors(P)
    res.count("MultiEraOutput accessors tabulated", len(accessors))
    res.floor("MultiEraOutput accessors tabulated", len(accessors), 2)
    n = 0
    judged = 0
    n_w = n_lists = n_var = 0
    lists_done = set()
    for era, spec in table["eras"].items():
        if not spec.get("post_byron"):
            continue
        judged += x_pipe.check_pipeline_rules(res, M, era, spec, PROP, (PROP,))
        keys = {V for r in spec["rules"] if r.get("property") == PROP for V in r["errors"]}
        x_pipe.check_no_discard(res, M, era, spec, keys, PROP)
        n += analyse_era(res, P, M, era, spec)
        # which witnesses / which inputs (pv/x_wit.py)
        pipe = P.one("^%s$" % re.escape(spec["pipeline"]))
        CF = M.closure_fns(pipe)
        n_lists += x_wit.check_witness_list(res, P, CF, era, lists_done)
        has_coll = any(v.endswith("::CollateralNotInUTxO") for v in M.mentions(pipe))
        Ws = x_wit.witness_rule_fns(P, CF, flag_writes)
        res.floor("vkey-input-witness rule:%s" % era, len(Ws), 1)
        for W in Ws:
            n_w += 1
            x_wit.check_inputs_consumed(res, P, W, era, has_coll, CF)
            n_var += x_wit.check_output_variants(res, P, W, era, spec.get("utxo_output_variants", []), accessors)
    res.floor("witness error variants judged", judged, 8)
    res.floor("verify_signature call sites", n, 6)
    res.floor("check-list construction sites", n_lists, 1)
    res.floor("UTxO output variants judged", n_var, 4)
    check_verify_signature(res, P)
    res.assumptions += ["pallas_crypto::key::ed25519::PublicKey::verify implements Ed25519 verification (C11)",
                        "OriginalHash::original_hash of KeepRaw<TransactionBody> is the transaction id (C05)"]
    return finish(res,
                  explanation="Necessary clauses of C35 decided on the MIR of the four post-Byron pipelines: witness rules are on every accepting path and propagated (R-PIPE); "
                              "loops over the witness list cannot return Ok before all witnesses were looked at unless they search for one key (R-FORALL); a false verify_signature "
                              "always leads to an error and the covered flag is only set after a successful verification (R-CDEP); the verified message is original_hash of the body "
                              "of the transaction under validation and the key/signature are the witness's own fields (R-PROV).  Ed25519 itself and the choice of the key hash looked "
                              "for are not decided.",
                  rule_text="R-PIPE + R-FORALL + R-CDEP(polarity, covered flag) + R-PROV(message, key, signature)",
                  trusted_base=["rustc MIR/HIR", "tables/pipelines.json", "pallas-crypto Ed25519"])
