"""C20 — the multiplexer delivers each protocol's chunks in order, exactly once, never to another protocol or role.

Decides the framing / routing clauses the statement rests on, in both stacks (not the quantifier over schedules):

 LAYOUT  the segment-header writer (`Header -> [u8; 8]`) and reader (`&[u8] -> Header`) of each stack are read as finite
         layouts {(byte range, field, endianness)} — from `byteorder` reads/writes or `to/from_be_bytes` copies over constant
         ranges, whatever the spelling — and must be equal to each other and to the wire format of the network specification
         (spec/mux_header.json): timestamp 0..4, protocol 4..6, payload_len 6..8, big-endian, 8 bytes in total.
 FRAME   `read_segment` reads exactly the header length, then exactly `header.payload_len` bytes, and returns
         `header.protocol` with that second buffer; `write_segment` builds the header with the protocol it was given and the
         length of the very payload it then writes, header first, each exactly once.
 DIR     direction bit, evaluated over the whole 15-bit protocol-id domain instead of by spelling: original stack —
         client.send(p) = p, client.recv(p) = server.send(p) = p | 0x8000, server.recv(p) = p (`subscribe_client/server`,
         `AgentChannel`), the id an agent enqueues with is the `protocol` it was built with and `mux` writes the id and the
         payload of one and the same queue entry; the key a queue is registered under (`Demuxer::subscribe`) and the key an
         arriving segment is looked up with (`Demuxer::demux`) are evaluated over all 65536 wire ids (private helpers inlined):
         each is injective — in particular p and p ^ 0x8000 differ — and both are the same function; P2P stack — `write_message` sends on `channel | mode`, `read_full_msgs`
         keys on `raw & 0x7fff`; the constants PROTOCOL_CLIENT/SERVER are 0 / 0x8000 and every channel id is below 0x8000,
         pairwise distinct per table; `AnyMessage::channel` and `AnyMessage::from_payload` are inverse tables.
 BOUND   every payload handed to `enqueue_chunk` / `write_segment` inside the two crates comes out of
         `chunks(N)` with the evaluated constant 0 < N <= 65535 = u16::MAX (the header's length field).
 OWNER   original stack: only `Demuxer` registers and sends into egress queues and does so once per segment, only `Muxer`
         drains the ingress queue, only `AgentChannel` feeds it / drains an egress queue (order then follows from the FIFO
         of tokio's mpsc, which is trusted).
"""
import json
import os
import re

from pv.program import Program
from pv.report import Result, finish
from pv.facts import VERIF
from pv.mir import pl_local, pl_proj, op_place, sym_str, sym_walk
from pv.panic import strip_generics
from pv import x_net as X
from pv.x_net import cname, where

CRATES = ["pallas_network", "pallas_network2"]
STACKS = {
    "pallas_network": {"header": "pallas_network::multiplexer::Header"},
    "pallas_network2": {"header": "pallas_network2::bearer::Header"},
}
BO_RW = re.compile(r"^byteorder::(BigEndian|LittleEndian) as byteorder::ByteOrder::(read|write)_(u16|u32|u64)$")
BYTES_FN = re.compile(r"::(to|from)_(be|le|ne)_bytes$")
WIDTH = {"u16": 2, "u32": 4, "u64": 8}


def is_test_code(f):
    return bool(re.search(r"::tests?::", f.path)) or "/tests/" in (f.file or "")


class Unanalysable(Exception):
    pass


def fn_loc(f):
    return "%s:%s" % (f.file, f.line)


# ---------------------------------------------------------------------------------------------------------- LAYOUT

_PROG = [None]
_CONST_RANGE = {}


def const_range(path):
    """Value of a named `const X: Range*<usize> = a..b;`.  The driver dumps only scalar constants, so the definition is
    read where the item table says it is (file, line): the initialiser must be a literal range whose bounds are integer
    literals or named scalar constants.  None if it cannot be read (callers fail closed)."""
    if path in _CONST_RANGE:
        return _CONST_RANGE[path]
    P = _PROG[0]
    out = None
    item = next((c for c in P.consts() if c["path"] == path), None) if P is not None else None
    if item is not None and item.get("file"):
        from pv.facts import REPO
        try:
            lines = open(os.path.join(REPO, item["file"])).read().split("\n")
            text = " ".join(lines[item["line"] - 1:item["line"] + 3])
            m = re.search(r"\b%s\s*:[^=]*=\s*([^;]*);" % re.escape(path.rsplit("::", 1)[1]), text)
            if m:
                init = m.group(1).strip()

                def bound(x):
                    x = x.strip().replace("_", "") if re.fullmatch(r"[0-9_]+(usize)?", x.strip()) else x.strip()
                    x = re.sub(r"usize$", "", x)
                    if re.fullmatch(r"\d+", x):
                        return int(x)
                    if re.fullmatch(r"0x[0-9a-fA-F]+", x):
                        return int(x, 16)
                    cands = [c for c in P.consts() if c["path"].endswith("::" + x.split("::")[-1]) and c.get("val") is not None
                             and c["path"].split("::")[0] == path.split("::")[0]]
                    if len(cands) == 1:
                        return int(cands[0]["val"])
                    raise ValueError(x)
                mm = re.fullmatch(r"(.*?)\.\.(=?)(.*)", init)
                if mm and not mm.group(2):
                    lo = bound(mm.group(1)) if mm.group(1).strip() else 0
                    hi = bound(mm.group(3)) if mm.group(3).strip() else None
                    out = (lo, hi)
        except (OSError, ValueError, IndexError):
            out = None
    _CONST_RANGE[path] = out
    return out


def _range_of(sym):
    """(lo, hi) of the first constant range used to slice inside a symbolic expression (hi None = open)."""
    for s in sym_walk(sym):
        if s[0] == "constsym" and str(s[2]).startswith("core::ops::range::Range") and isinstance(s[1], str):
            r = const_range(s[1])
            if r is None:
                raise Unanalysable("the value of the range constant %s cannot be read" % s[1])
            return r
        if s[0] == "agg" and str(s[1]).startswith("core::ops::range::Range"):
            name = str(s[1])
            fs = s[3]

            def c(x):
                if x[0] != "const":
                    raise Unanalysable("slice bound is not a constant: %s" % sym_str(x, 40))
                return int(x[1])
            if name.startswith("core::ops::range::RangeToInclusive") or name.startswith("core::ops::range::RangeInclusive"):
                raise Unanalysable("inclusive range")
            if name.startswith("core::ops::range::RangeTo"):
                return 0, c(fs[0])
            if name.startswith("core::ops::range::RangeFrom"):
                return c(fs[0]), None
            if name.startswith("core::ops::range::RangeFull"):
                return 0, None
            return c(fs[0]), c(fs[1])
    return None


def _field_of(sym, header):
    """Name of the Header field a value expression reads (through casts / copies)."""
    while sym[0] in ("cast", "ref", "deref"):
        sym = sym[1]
    if sym[0] == "field" and isinstance(sym[2], str):
        return sym[2]
    return None


def writer_layout(f, total):
    out = []
    sx = X.SymX(f)
    for bi, t in f.calls():
        name = cname(t)
        m = BO_RW.match(name)
        if m and m.group(2) == "write":
            dst = sx.operand(t["args"][0])
            val = sx.operand(t["args"][1])
            r = _range_of(dst)
            if r is None:
                raise Unanalysable("write without a constant byte range")
            fld = _field_of(val, None)
            if fld is None:
                raise Unanalysable("written value is not a header field: %s" % sym_str(val, 60))
            lo, hi = r
            out.append((lo, hi if hi is not None else total, fld, "be" if m.group(1) == "BigEndian" else "le", WIDTH[m.group(3)]))
        elif name.endswith("::copy_from_slice"):
            dst = sx.operand(t["args"][0])
            src = sx.operand(t["args"][1])
            r = _range_of(dst)
            conv = [s for s in sym_walk(src) if s[0] == "call" and BYTES_FN.search(strip_generics(s[1]))]
            if r is None or not conv:
                raise Unanalysable("copy_from_slice that is not `out[a..b].copy_from_slice(&field.to_xx_bytes())`")
            mm = BYTES_FN.search(strip_generics(conv[0][1]))
            fld = _field_of(conv[0][2][0], None)
            if fld is None or mm.group(1) != "to":
                raise Unanalysable("copied bytes are not a header field")
            lo, hi = r
            hi = hi if hi is not None else total
            out.append((lo, hi, fld, mm.group(2), hi - lo))
    if not out:
        raise Unanalysable("no recognisable field stores")
    return out


def helper_load(g):
    """A private helper `fn(bytes: &[u8]) -> uN` that decodes its whole argument: (endianness, width) or None.
    Accepted bodies: byteorder read_uN(bytes); uN::from_xx_bytes(bytes.try_into()..); uN::from_xx_bytes([bytes[0], .., bytes[w-1]])."""
    if g.argc != 1:
        return None
    ret = X.SymX(g)._slot(0, 40)
    while ret[0] in ("cast",):
        ret = ret[1]
    if ret[0] != "call":
        return None
    nm = strip_generics(ret[1])
    m = BO_RW.match(nm)

    def whole_param(sy):
        while sy[0] in ("ref", "deref", "cast"):
            sy = sy[1]
        if sy[0] == "call" and re.search(r"::(try_into|unwrap|expect|try_from|into|from|as_ref|deref)$", strip_generics(sy[1])) and sy[2]:
            return whole_param(sy[2][0])
        return sy[0] == "param" and sy[1] == 1

    if m and m.group(2) == "read" and whole_param(ret[2][0]):
        return ("be" if m.group(1) == "BigEndian" else "le", WIDTH[m.group(3)])
    mm = BYTES_FN.search(nm)
    if mm and mm.group(1) == "from" and ret[2]:
        a = ret[2][0]
        if whole_param(a):
            return (mm.group(2), None)
        if a[0] == "agg" and a[1] == "array":
            idx = []
            for el in a[3]:
                while el[0] in ("cast",):
                    el = el[1]
                if el[0] == "index" and whole_param(el[1]) and len(el) > 2 and el[2][0] == "const":
                    idx.append(int(el[2][1]))
                else:
                    return None
            if idx == list(range(len(idx))):
                return (mm.group(2), len(idx))
    return None


def reader_layout(P, f, header, total):
    a = P.adt(header)
    names = [fd["name"] for fd in a["variants"][0]["fields"]]
    out = []
    aggs = [(bi, si, s[2]) for bi, si, s in f.statements() if s[0] == "a" and s[2]["k"] == "agg" and s[2].get("adt") == header]
    if len(aggs) != 1:
        raise Unanalysable("%d constructions of the header" % len(aggs))
    sx = X.SymX(f)
    for i, fo in enumerate(aggs[0][2]["fields"]):
        sym = sx.operand(fo)
        load = None
        for s in sym_walk(sym):
            if s[0] == "call":
                nm = strip_generics(s[1])
                m = BO_RW.match(nm)
                if m and m.group(2) == "read":
                    load = ("be" if m.group(1) == "BigEndian" else "le", WIDTH[m.group(3)], s)
                    break
                mm = BYTES_FN.search(nm)
                if mm and mm.group(1) == "from":
                    load = (mm.group(2), None, s)
                    break
                g = P.fns.get(s[1])
                if g is not None and g.crate == f.crate and g.kind != "Closure":
                    hl = helper_load(g)
                    if hl is not None:
                        load = (hl[0], hl[1], s)
                        break
        if load is None:
            raise Unanalysable("field `%s` is not loaded from the bytes by a recognisable idiom: %s" % (names[i], sym_str(sym, 60)))
        r = _range_of(load[2])
        if r is None:
            raise Unanalysable("field `%s` is loaded without a constant byte range" % names[i])
        lo, hi = r
        hi = hi if hi is not None else total
        out.append((lo, hi, names[i], load[0], load[1] if load[1] is not None else hi - lo))
    return out


def header_fns(P, crate, header):
    writers, readers = [], []
    for f in P.by_crate[crate]:
        if is_test_code(f) or f.kind == "Closure":
            continue
        ptys = [f.local_ty(i) for i in range(1, f.argc + 1)]
        rty = f.local_ty(0)
        if any(re.sub(r"^&(mut )?", "", t) == header for t in ptys) and re.match(r"^(\[u8; \d+\]|alloc::vec::Vec<u8>)$", rty):
            writers.append(f)
        if rty == header and any(re.match(r"^&(mut )?\[u8(; \d+)?\]$|^\[u8; \d+\]$", t) for t in ptys):
            readers.append(f)
    return writers, readers


def check_layout(res, P, spec):
    _PROG[0] = P
    _CONST_RANGE.clear()
    spec_set = {(fd["lo"], fd["hi"], fd["name"], spec["endian"]) for fd in spec["fields"]}
    total = spec["header_len"]
    layouts = {}
    for crate, cfg in STACKS.items():
        header = cfg["header"]
        if P.adt(header) is None:
            res.violation("layout:%s:header" % crate, "segment header type %s not found" % header, rule="LAYOUT")
            continue
        ws, rs = header_fns(P, crate, header)
        res.count("header_writers", len(ws))
        res.count("header_readers", len(rs))
        if not ws or not rs:
            res.violation("layout:%s:fns" % crate, "no header %s found in %s (fail closed)" % ("writer" if not ws else "reader", crate), rule="LAYOUT")
            continue
        for kind, fns in (("writer", ws), ("reader", rs)):
            for f in fns:
                key = "layout:%s:%s" % (crate, kind)
                try:
                    lay = writer_layout(f, total) if kind == "writer" else reader_layout(P, f, header, total)
                except Unanalysable as e:
                    res.violation(key + ":unanalysable", "%s: the byte layout cannot be read off this header %s (%s); the rule knows byteorder "
                                  "read_/write_uN and to_/from_xx_bytes over constant ranges (fail closed)" % (f.path, kind, e), where=fn_loc(f), rule="LAYOUT")
                    continue
                bad = [x for x in lay if x[1] - x[0] != x[4]]
                if bad:
                    res.violation(key + ":width", "%s: field `%s` occupies bytes %d..%d but is %s as %d bytes" % (
                        f.path, bad[0][2], bad[0][0], bad[0][1], "written" if kind == "writer" else "read", bad[0][4]), where=fn_loc(f), rule="LAYOUT")
                s = {(lo, hi, fld, en) for lo, hi, fld, en, w in lay}
                layouts[(crate, kind)] = s
                res.sample({"layout": "%s %s" % (crate, kind), "fields": sorted(s)})
                if s == spec_set and len(lay) == len(spec_set):
                    res.ok(key + ":spec", "LAYOUT", "equals the specification's wire format")
                else:
                    miss = sorted(spec_set - s)
                    extra = sorted(s - spec_set)
                    res.violation(key + ":spec", "%s: header %s layout differs from the wire format: expected %s, found %s" % (
                        f.path, kind, miss or sorted(spec_set), extra or sorted(s)), where=fn_loc(f), rule="LAYOUT")
    for crate in STACKS:
        w, r = layouts.get((crate, "writer")), layouts.get((crate, "reader"))
        if w is not None and r is not None:
            if w == r:
                res.ok("layout:%s:dual" % crate, "LAYOUT", "reader ∘ writer = identity on the header fields")
            else:
                res.violation("layout:%s:dual" % crate, "%s: header writer and reader disagree: writer %s, reader %s" % (crate, sorted(w - r), sorted(r - w)), rule="LAYOUT")
    a, b = layouts.get(("pallas_network", "writer")), layouts.get(("pallas_network2", "reader"))
    if a is not None and b is not None and a != b:
        res.violation("layout:cross-stack", "the two stacks use different header layouts", rule="LAYOUT")
    # header length constants
    for c in P.consts():
        if c["path"].endswith("::HEADER_LEN") and c["path"].split("::")[0] in STACKS:
            if c.get("val") == total:
                res.ok("layout:const:%s" % c["path"], "LAYOUT", "HEADER_LEN = %d" % total)
            else:
                res.violation("layout:const:%s" % c["path"], "%s = %s, the header is %d bytes" % (c["path"], c.get("val"), total), where="%s:%s" % (c["file"], c["line"]), rule="LAYOUT")


# ---------------------------------------------------------------------------------------------------------- FRAME

def find_async(P, rx, crate):
    fs = [f for f in P.find(rx, crate) if f.kind != "Closure" and not is_test_code(f)]
    if len(fs) != 1:
        from pv.program import AnchorLost
        raise AnchorLost("expected exactly one function matching %r in %s, found %d" % (rx, crate, len(fs)))
    return fs[0], X.async_body(P, fs[0])


def call_sites(f, rx):
    rx = re.compile(rx)
    return [(bi, t) for bi, t in f.calls() if rx.search(cname(t))]


def callee_is(t, g):
    return (t.get("f") or "") == g.path


def _is_conversion(f, header):
    return f.kind != "Closure" and (f.local_ty(0) == header or any(re.sub(r"^&(mut )?", "", f.local_ty(i)) == header for i in range(1, f.argc + 1)))


def _strip_ref(ty):
    return re.sub(r"^&+(mut )?", "", ty or "")


def header_field_reads(f, header):
    """{slicing key of dst: field name} for every statement that copies a named field out of a Header-typed place."""
    og = X.Origins(f)
    out = {}
    for bi, si, s in f.statements():
        if s[0] != "a" or s[2]["k"] not in ("use", "cast"):
            continue
        p = op_place(s[2]["x"])
        if p is None or not pl_proj(p):
            continue
        cur = f.local_ty(pl_local(p))
        name = None
        for e in pl_proj(p):
            if e[0] == "field":
                if _strip_ref(cur) == header and isinstance(e[2], str):
                    name = e[2]
                cur = e[3]
            elif e[0] == "deref":
                cur = _strip_ref(cur)
        if name is not None and _strip_ref(cur) != header:
            out[og._key(s[1])] = name
    return out


def segment_io_fns(P, crate, header):
    """(decode sites, field readers, writers): calls that yield a Header from bytes read off the bearer; functions that read
    fields of a Header; functions that build a Header to send."""
    decoders, readers, writers = [], [], []
    for f in P.by_crate[crate]:
        if is_test_code(f) or _is_conversion(f, header):
            continue
        for bi, si, s in f.statements():
            if s[0] == "a" and s[2]["k"] == "agg" and s[2].get("adt") == header:
                writers.append(f)
                break
        for bi, t in f.calls():
            g = P.fns.get(t.get("f") or "")
            if g is None or not _is_conversion(g, header) or g.local_ty(0) != header:
                continue
            decoders.append((f, bi, t))
        if header_field_reads(f, header):
            readers.append(f)
    return decoders, readers, writers


def check_frame(res, P, spec):
    for crate, cfg in STACKS.items():
        header = cfg["header"]
        decoders, readers, writers = segment_io_fns(P, crate, header)
        res.count("segment_readers", len(readers))
        res.count("segment_header_decodes", len(decoders))
        res.count("segment_writers", len(writers))
        if not decoders or not readers:
            res.violation("frame:%s:no-reader" % crate, "no function of %s decodes a segment header / reads its fields (fail closed)" % crate, rule="FRAME")
        if not writers:
            res.violation("frame:%s:no-writer" % crate, "no function of %s builds a segment header (fail closed)" % crate, rule="FRAME")
        for f, hb, ht in decoders:
            check_header_decode(res, P, f, hb, ht, header, spec)
        for f in readers:
            check_read_segment(res, P, f, header, spec)
        for f in writers:
            check_write_segment(res, P, f, header, spec)


ALLOC = re.compile(r"^alloc::vec::from_elem$|^alloc::vec::Vec::with_capacity$|^alloc::vec::Vec::resize$")


def _buffer_sizes(P, f, o, depth=0):
    """Constant sizes of the buffers an operand may be (a view of): vec![0; N], [0; N]; captured variables of a closure are
    followed into the function that builds the closure.  None entries = non-constant size."""
    og = X.Origins(f)
    sizes = []
    for x in og.of_operand(o):
        if x[0] == "call" and ALLOC.match(x[1]):
            sy = X.SymX(f).operand(f.blocks[x[2]]["term"]["args"][-1])
            sizes.append(int(sy[1]) if sy[0] == "const" else None)
        elif x[0] == "repeat":
            m = re.match(r"^(\d+)", x[1])
            sizes.append(int(m.group(1)) if m else None)
        elif x[0] == "upvar" and depth < 2 and f.kind == "Closure" and not X.is_coroutine_state_ty(f.local_ty(1) if f.argc else ""):
            cs = X.closure_site(P, f)
            if cs is not None and x[1] < len(cs[2]):
                sizes += _buffer_sizes(P, cs[0], cs[2][x[1]], depth + 1)
    return sizes


def check_header_decode(res, P, f, hb, ht, header, spec):
    kb = "frame:%s:read" % f.path
    sizes = _buffer_sizes(P, f, ht["args"][0])
    if len(sizes) == 1 and sizes[0] == spec["header_len"]:
        res.ok(kb + ":header-size", "FRAME", "header decoded from a %d-byte buffer" % sizes[0])
    else:
        res.violation(kb + ":header-size", "%s: the segment header is not decoded from a buffer of exactly %d bytes (found sizes %s)" % (
            f.path, spec["header_len"], sizes), where=where(f, ht.get("s")), rule="FRAME")


def helper_alloc(P, g):
    """If the (async) workspace function g allocates a buffer sized by exactly one of its parameters: that parameter's index."""
    body = X.async_body(P, g)
    if body is None:
        return None
    og = X.Origins(body)
    ups = X.upvar_params(P, body) if body is not g else {}
    for bi, t in body.calls():
        if not ALLOC.match(cname(t)):
            continue
        leaves = og.of_operand(t["args"][-1])
        if any(x[0] in ("bin", "un", "call") for x in leaves):
            continue
        ps = {ups.get(x[1], (None,))[0] for x in leaves if x[0] == "upvar"} | {x[1] for x in leaves if x[0] == "param"}
        ps.discard(None)
        if len(ps) == 1:
            return next(iter(ps))
    return None


def check_read_segment(res, P, f, header, spec):
    kb = "frame:%s:read" % f.path
    og = X.Origins(f)
    reads = header_field_reads(f, header)

    def header_fields(o):
        """names of the header fields a value is computed from (copies, casts, From/Into conversions)"""
        seen, leaves = X.slice_keys(f, o)
        p = op_place(o)
        flds = {reads[k] for k in seen if k in reads}
        return flds, leaves

    # payload buffers: allocated here, or by a helper that is handed the size
    pallocs = []     # (bb, call, size operand, origin-call prefix)
    for bi, t in f.calls():
        if ALLOC.match(cname(t)):
            pallocs.append((bi, t, t["args"][-1], None))
            continue
        g = P.fns.get(t.get("f") or "")
        if g is not None and g.crate == f.crate and g.kind != "Closure":
            idx = helper_alloc(P, g)
            if idx is not None and idx - 1 < len(t["args"]):
                pallocs.append((bi, t, t["args"][idx - 1], g.path))
    good = None
    bad = None
    for bi, t, szop, helper in pallocs:
        flds, leaves = header_fields(szop)
        arith = [o for o in leaves if o[0] in ("bin", "un")]
        if not flds and not helper and X.SymX(f).operand(szop)[0] == "const":
            continue      # some other constant-size buffer (e.g. the header bytes themselves)
        if flds == {"payload_len"} and not arith:
            good = (bi, t, helper)
        else:
            bad = (bi, t, flds, arith)
    if good is not None:
        res.ok(kb + ":payload-size", "FRAME", "payload buffer sized by header.payload_len")
    elif bad is not None:
        bi, t, flds, arith = bad
        res.violation(kb + ":payload-size", "%s: a payload buffer is sized by %s%s, not by the header's `payload_len`: the reader gets out of step "
                      "with the segment boundaries" % (f.path, sorted(flds) or "something else", " with arithmetic" if arith else ""),
                      where=where(f, t.get("s")), rule="FRAME")
    elif "payload_len" in reads.values():
        res.violation(kb + ":payload-size", "%s: no payload buffer sized by the header's `payload_len`" % f.path, where=fn_loc(f), rule="FRAME")
    # returned (protocol, payload)
    okret = False
    for bi, si, s in f.statements():
        if s[0] == "a" and s[2]["k"] == "agg" and s[2].get("ak") == "tuple" and len(s[2]["fields"]) == 2:
            flds, _lv = header_fields(s[2]["fields"][0])
            if not flds:
                continue
            porig = og.of_operand(s[2]["fields"][1])
            okbuf = False
            if good is not None:
                gb, gt, helper = good
                okbuf = ("call", cname(gt), gb) in porig or (helper is not None and any(x[0] == "call" and x[1].startswith(strip_generics(helper)) for x in porig))
            okret = True
            if flds == {"protocol"} and okbuf:
                res.ok(kb + ":returns", "FRAME", "returns (header.protocol, payload buffer)")
            else:
                res.violation(kb + ":returns", "%s: returns the header field %s with the payload instead of `protocol` (or a buffer that is not the "
                              "one read for this segment): chunks are routed to the wrong protocol" % (f.path, sorted(flds)),
                              where=where(f, s[-1] if isinstance(s[-1], list) else None), rule="FRAME")
    if not okret and "protocol" in reads.values():
        res.violation(kb + ":returns", "%s: cannot find the (protocol, payload) pair it returns" % f.path, where=fn_loc(f), rule="FRAME")


def visited_locals(f, o):
    """Locals a value is copied through (single-definition temporaries only)."""
    out = set()
    p = op_place(o)
    n = 0
    while p is not None and n < 10:
        n += 1
        l = pl_local(p)
        out.add(l)
        if pl_proj(p):
            break
        ds = f.defs().get(l, [])
        if len(ds) != 1 or ds[0][2] != "assign" or ds[0][3][2]["k"] not in ("use", "cast"):
            break
        p = op_place(ds[0][3][2]["x"])
    return out


def check_write_segment(res, P, f, header, spec):
    kb = "frame:%s:write" % f.path
    og = X.Origins(f)
    L = X.LogicalCFG(f)
    a = P.adt(header)
    names = [fd["name"] for fd in a["variants"][0]["fields"]]
    ups = X.upvar_params(P, f)
    aggs = [(bi, si, s) for bi, si, s in f.statements() if s[0] == "a" and s[2]["k"] == "agg" and s[2].get("adt") == header]
    if len(aggs) != 1:
        res.violation(kb + ":header", "%s builds %d headers" % (f.path, len(aggs)), where=fn_loc(f), rule="FRAME")
        return
    bi, si, s = aggs[0]
    fields = dict(zip(names, s[2]["fields"]))

    def leaf_params(o, og_=None):
        out = set()
        for x in (og_ or og).of_operand(o):
            if x[0] == "upvar":
                out.add(ups.get(x[1], (None, "upvar%d" % x[1]))[1])
            elif x[0] == "param":
                out.add(x[2])
        return out

    # payload_len = len(payload) (through an integer cast only)
    plen = og.of_operand(fields["payload_len"])
    lens = [o for o in plen if o[0] == "call" and re.search(r"^core::slice::len$|^alloc::vec::Vec::len$", o[1])]
    arith = [o for o in plen if o[0] in ("bin", "un")]
    payload_src = None
    if len(lens) == 1 and not arith and len([o for o in plen if o[0] == "call"]) == 1:
        lt = f.blocks[lens[0][2]]["term"]
        payload_src = leaf_params(lt["args"][0])
    if not payload_src:
        res.violation(kb + ":length", "%s: the header's `payload_len` is not the length of a payload (%s)" % (
            f.path, sorted(str(o[:2]) for o in plen)), where=where(f, s[-1] if isinstance(s[-1], list) else None), rule="FRAME")
        return
    proto_src = leaf_params(fields["protocol"])
    proto_arith = [o for o in og.of_operand(fields["protocol"]) if o[0] in ("bin", "un", "call", "const")]
    if len(proto_src) == 1 and not proto_arith and not (proto_src & payload_src):
        res.ok(kb + ":protocol", "FRAME", "header.protocol = parameter `%s`" % next(iter(proto_src)))
    else:
        res.violation(kb + ":protocol", "%s: the header's `protocol` is not the protocol id the function was given (%s)" % (
            f.path, sorted(proto_src) or sorted(str(o[:2]) for o in proto_arith)), where=where(f, s[-1] if isinstance(s[-1], list) else None), rule="FRAME")
    # writes: header bytes first, then that very payload, once each
    writes = [(wb, wt) for wb, wt in f.calls() if re.search(r"::write_all$|::write$|::write_all_buf$", cname(wt)) and "closure" not in cname(wt)]
    hw, pw = [], []
    for wb, wt in writes:
        src = og.of_operand(wt["args"][-1])
        if any(o[0] == "agg" and o[1] == header for o in src):
            hw.append(wb)
        elif leaf_params(wt["args"][-1]) & payload_src:
            pw.append(wb)
    combined = None
    if not pw or not hw:
        # header and payload assembled into one buffer that is written once
        og2 = X.Origins(f, append_flows=True)
        for wb, wt in writes:
            src2 = og2.of_operand(wt["args"][-1])
            if any(o[0] == "agg" and o[1] == header for o in src2) and (leaf_params(wt["args"][-1], og2) & payload_src):
                root = X.root_key(f, deref_arg(f, wt["args"][-1]))
                apps_h, apps_p = [], []
                for ab, at in f.calls():
                    if not X.APPEND_CALLS.search(cname(at)) or len(at["args"]) < 2 or og2._recv_root(at["args"][0], og2.defs()) != root:
                        continue
                    asrc = og.of_operand(at["args"][1])
                    if any(o[0] == "agg" and o[1] == header for o in asrc):
                        apps_h.append(ab)
                    elif leaf_params(at["args"][1]) & payload_src:
                        apps_p.append(ab)
                combined = (wb, apps_h, apps_p)
    if combined is not None and len(writes) == 1 and len(combined[1]) == 1 and len(combined[2]) == 1 and L.dominates(combined[1][0], combined[2][0]) \
            and L.dominates(combined[2][0], combined[0]) and not any(L.in_loop(x) for x in (combined[0], combined[1][0], combined[2][0])):
        res.ok(kb + ":order", "FRAME", "header then payload assembled into one buffer, written once")
    elif len(hw) == 1 and len(pw) == 1 and L.dominates(hw[0], pw[0]) and not L.in_loop(hw[0]) and not L.in_loop(pw[0]):
        res.ok(kb + ":order", "FRAME", "header written once, then the payload whose length it carries, once")
    else:
        res.violation(kb + ":order", "%s: a segment must be written as header then payload, each exactly once, and the payload must be the one "
                      "whose length is in the header (header writes: %d, payload writes: %d)" % (f.path, len(hw), len(pw)), where=fn_loc(f), rule="FRAME")
    res.ok(kb + ":length", "FRAME", "header.payload_len = len(parameter `%s`)" % next(iter(payload_src)))


# ---------------------------------------------------------------------------------------------------------- DIR

def _leafmap_eval(sym, assign):
    def var(s):
        for k, v in assign:
            if k(s):
                return v
        raise X.NotEvaluable("unbound leaf %s" % sym_str(s, 40))
    return X.eval_int(sym, var)


def agent_protocol_expr(P, f):
    """Symbolic `protocol` field of the AgentChannel returned by f, in terms of f's parameters."""
    sym = f.sym_local(0)
    if sym[0] == "call":
        g = P.fns.get(sym[1])
        if g is not None and g.crate == f.crate:
            inner = g.sym_local(0)
            if inner[0] == "agg":
                a = P.adt(inner[1])
                idx = [i for i, fd in enumerate(a["variants"][0]["fields"]) if fd["name"] == "protocol"]
                if idx:
                    fs = inner[3][idx[0]]
                    while fs[0] in ("cast",):
                        fs = fs[1]
                    if fs[0] == "param":
                        return sym[2][fs[1] - 1]
                    return None
    if sym[0] == "agg":
        a = P.adt(sym[1])
        if a is not None:
            idx = [i for i, fd in enumerate(a["variants"][0]["fields"]) if fd["name"] == "protocol"]
            if idx:
                return sym[3][idx[0]]
    return None


_SYM_CACHE = {}


def _sx(f):
    k = id(f)
    if k not in _SYM_CACHE:
        _SYM_CACHE[k] = (X.SymX(f), {})
    return _SYM_CACHE[k]


def _arg_sym(f, bb, i):
    sx, memo = _sx(f)
    if (bb, i) not in memo:
        memo[(bb, i)] = sx.operand(f.blocks[bb]["term"]["args"][i])
    return memo[(bb, i)]


def _ret_sym(f):
    sx, memo = _sx(f)
    if "ret" not in memo:
        memo["ret"] = sx._slot(0, 40)
    return memo["ret"]


def _call_env(P, f, bb, env):
    """parameter values of the workspace callee at block bb, as far as its arguments evaluate under env"""
    t = f.blocks[bb]["term"]
    out = {}
    for i in range(len(t["args"])):
        try:
            out[("param", i + 1)] = _eval_key(P, f, _arg_sym(f, bb, i), env)
        except X.NotEvaluable:
            pass
    return out


def subscribed_ids(P, f, env, depth=0):
    """ids handed to Demuxer::subscribe by f (directly or through private helpers) when its parameters are env"""
    out = []
    for bi, t in f.calls():
        g = P.fns.get(t.get("f") or "")
        if g is None or g.crate != f.crate or g.kind == "Closure":
            continue
        if g.path.endswith("::Demuxer::subscribe"):
            out.append(_eval_key(P, f, _arg_sym(f, bi, 1), env))
        elif depth < 3 and g is not f and _reaches_subscribe(P, g):
            out += subscribed_ids(P, g, _call_env(P, f, bi, env), depth + 1)
    return out


_REACH = {}


def _reaches_subscribe(P, g, depth=0):
    if g.path in _REACH:
        return _REACH[g.path]
    _REACH[g.path] = False
    r = False
    for bi, t in g.calls():
        h = P.fns.get(t.get("f") or "")
        if h is None or h.crate != g.crate or h.kind == "Closure":
            continue
        if h.path.endswith("::Demuxer::subscribe") or (depth < 3 and _reaches_subscribe(P, h, depth + 1)):
            r = True
            break
    _REACH[g.path] = r
    return r


def stamped_id(P, f, env, agent_adt, depth=0):
    """`protocol` field of the AgentChannel f returns (through constructor helpers) when its parameters are env"""
    ret = _ret_sym(f)
    if ret[0] == "agg" and ret[1] == agent_adt:
        a = P.adt(agent_adt)
        idx = [i for i, fd in enumerate(a["variants"][0]["fields"]) if fd["name"] == "protocol"]
        if not idx:
            raise X.NotEvaluable("AgentChannel has no `protocol` field")
        return _eval_key(P, f, ret[3][idx[0]], env)
    if ret[0] == "call" and depth < 4:
        g = P.fns.get(ret[1])
        if g is not None and g.crate == f.crate and g.kind != "Closure":
            genv = {}
            for i, a in enumerate(ret[2]):
                try:
                    genv[("param", i + 1)] = _eval_key(P, f, a, env)
                except X.NotEvaluable:
                    pass
            return stamped_id(P, g, genv, agent_adt, depth + 1)
    raise X.NotEvaluable("the returned AgentChannel is not built from evaluable ids")


def check_dir_network(res, P, spec):
    crate = "pallas_network"
    bit = spec["mode_bit"]
    agent_adt = "pallas_network::multiplexer::AgentChannel"
    _SYM_CACHE.clear()
    _REACH.clear()
    fns = {}
    for f in P.by_crate[crate]:
        if is_test_code(f) or f.kind == "Closure":
            continue
        u16s = [i for i in range(1, f.argc + 1) if f.local_ty(i) == "u16"]
        if f.local_ty(0) == agent_adt and len(u16s) == 1 and _reaches_subscribe(P, f):
            fns[f.path] = (f, u16s[0])
    res.count("dir_subscribe_fns", len(fns))
    tables = {}
    for name, (f, pi) in fns.items():
        try:
            send, recv = [], []
            for p in range(bit):
                env = {("param", pi): p}
                ids = subscribed_ids(P, f, env)
                if len(ids) != 1:
                    raise X.NotEvaluable("%d subscriptions" % len(ids))
                recv.append(ids[0])
                send.append(stamped_id(P, f, env, agent_adt))
            tables[name] = (send, recv, f, None)
        except X.NotEvaluable as e:
            res.violation("dir:%s:eval" % f.path, "%s: the ids it subscribes / stamps outbound chunks with cannot be evaluated (%s); fail closed" % (f.path, e),
                          where=fn_loc(f), rule="DIR")
    roles = {}
    for name, (send, recv, f, t) in tables.items():
        if all(send[p] == p for p in range(bit)) and all(recv[p] == (p | bit) for p in range(bit)):
            roles.setdefault("initiator", []).append(f)
            res.ok("dir:%s:ids" % f.path, "DIR", "send id = p, receive id = p | 0x%x for every p < 0x%x" % (bit, bit))
        elif all(send[p] == (p | bit) for p in range(bit)) and all(recv[p] == p for p in range(bit)):
            roles.setdefault("responder", []).append(f)
            res.ok("dir:%s:ids" % f.path, "DIR", "send id = p | 0x%x, receive id = p for every p < 0x%x" % (bit, bit))
        else:
            bad = next(p for p in range(bit) if not ((send[p] == p and recv[p] == (p | bit)) or (send[p] == (p | bit) and recv[p] == p)))
            res.violation("dir:%s:ids" % f.path, "%s: for protocol id %d the channel sends with id 0x%04x and receives on id 0x%04x; one side must use "
                          "the id with the mode bit clear (initiator→responder) and the other the id with bit 0x%x set, otherwise chunks reach "
                          "the wrong role or nobody" % (f.path, bad, send[bad], recv[bad], bit), where=fn_loc(f), rule="DIR")
    if set(roles) != {"initiator", "responder"}:
        res.violation("dir:network:roles", "expected one initiator-side and one responder-side subscription function, found %s" % (
            {k: [f.path for f in v] for k, v in roles.items()}), rule="DIR")
    else:
        res.ok("dir:network:roles", "DIR", "client.send = server.recv and client.recv = server.send for every protocol id")
    # the id an agent enqueues with is its `protocol` field; mux writes id and payload of the same entry
    for f in P.by_crate[crate]:
        if is_test_code(f):
            continue
        for bi, t in f.calls():
            full = t.get("ffull") or t.get("gfull") or ""
            if cname(t) == "tokio::sync::mpsc::bounded::Sender::send" and "(u16, alloc::vec::Vec<u8>)" in full:
                sym = X.SymX(f).operand(t["args"][1])
                ok = False
                if sym[0] == "agg" and sym[1] == "tuple" and sym[3]:
                    first = sym[3][0]
                    while first[0] in ("cast", "ref", "deref"):
                        first = first[1]
                    ok = first[0] == "field" and first[2] == "protocol"
                if ok:
                    res.ok("dir:%s:enqueue-id" % f.path, "DIR", "chunks are enqueued with the channel's own `protocol`")
                else:
                    res.violation("dir:%s:enqueue-id" % f.path, "%s: the id a chunk is enqueued with is not the channel's `protocol` field" % f.path,
                                  where=where(f, t.get("s")), rule="DIR")
    ws = [g for g in P.by_crate[crate] if not is_test_code(g)]
    for f in ws:
        for bi, t in f.calls():
            g = P.fns.get(t.get("f") or "")
            if g is None or g.kind == "Closure" or not g.path.endswith("::write_segment") or g.crate != crate:
                continue
            k0, f0 = X.named_field_path(f, t["args"][1])
            k1, f1 = X.named_field_path(f, deref_arg(f, t["args"][2]))
            if k0 is not None and k0 == k1 and f0[-1:] == [0] and f1[-1:] == [1] and f0[:-1] == f1[:-1]:
                res.ok("dir:%s:mux-entry" % f.path, "DIR", "id and payload of one and the same queue entry are written as one segment")
            else:
                res.violation("dir:%s:mux-entry" % f.path, "%s: the protocol id and the payload written as one segment do not come from the same queue "
                              "entry (%s%s vs %s%s)" % (f.path, k0, f0, k1, f1), where=where(f, t.get("s")), rule="DIR")


def tuple_field_operand(f, o, i):
    p = op_place(o)
    l = pl_local(p)
    for bi, si, kind, payload in f.defs().get(l, []):
        if kind == "assign" and payload[2]["k"] == "agg":
            return payload[2]["fields"][i]
    return o


def deref_arg(f, o):
    """`&*x.deref()`-style argument: the operand the slice was taken from."""
    p = op_place(o)
    n = 0
    while p is not None and n < 8:
        n += 1
        l = pl_local(p)
        ds = f.defs().get(l, [])
        if len(ds) != 1:
            break
        bi, si, kind, payload = ds[0]
        if kind == "call" and re.search(r"::deref$|::as_slice$|::as_ref$|::borrow$", cname(payload)):
            o = payload["args"][0]
            p = op_place(o)
            continue
        if kind == "assign" and payload[2]["k"] in ("ref", "rawptr") and all(e[0] == "deref" for e in pl_proj(payload[2]["p"])):
            p = payload[2]["p"]
            o = {"c": p}
            if not pl_proj(p):
                continue
            p = pl_local(p)
            o = {"c": p}
            continue
        break
    return o


def check_dir_network2(res, P, spec):
    crate = "pallas_network2"
    bit = spec["mode_bit"]
    # writer: channel | mode
    for f in P.by_crate[crate]:
        if is_test_code(f):
            continue
        for bi, t in f.calls():
            g = P.fns.get(t.get("f") or "")
            if g is None or g.kind == "Closure" or not g.path.endswith("::write_segment") or g.crate != crate:
                continue
            sym = X.SymX(f).operand(t["args"][1])
            chan = lambda s: any(x[0] == "call" and strip_generics(x[1]).endswith("::into_chunks") for x in sym_walk(s))
            try:
                okv = True
                bad = None
                for mode in (spec["initiator_mode"], spec["responder_mode"]):
                    for c in range(0, bit):
                        v = _leafmap_eval(sym, [(chan, c), (lambda s: True, mode)])
                        if v != (c | mode):
                            okv = False
                            bad = (c, mode, v)
                            break
                    if not okv:
                        break
            except X.NotEvaluable as e:
                res.violation("dir:%s:send-id" % f.path, "%s: the id segments are written with is not evaluable (%s)" % (f.path, e), where=where(f, t.get("s")), rule="DIR")
                continue
            if okv:
                res.ok("dir:%s:send-id" % f.path, "DIR", "segments are written with channel | mode for every channel < 0x%x and both modes" % bit)
            else:
                res.violation("dir:%s:send-id" % f.path, "%s: for channel %d and mode 0x%x segments are written with id 0x%04x instead of channel | mode" % (
                    f.path, bad[0], bad[1], bad[2]), where=where(f, t.get("s")), rule="DIR")
    # reader: key = raw & !mode_bit
    for f in P.by_crate[crate]:
        if is_test_code(f) or "::emulation::" in f.path:
            continue
        for bi, t in f.calls():
            if not ((t.get("g") or t.get("f") or "").endswith("Message::from_payload") and t.get("trait")):
                continue
            sym = X.SymX(f).operand(t["args"][0])
            if f.kind == "Closure" and not X.is_coroutine_state_ty(f.local_ty(1) if f.argc else ""):
                # the decode loop written as a closure (`iter::from_fn(|| M::from_payload(channel, &mut payload))`): the key is a
                # captured variable, judged where the closure is built
                lifted = X.lift_operand(P, f, t["args"][0])
                if lifted is not None:
                    sym = X.SymX(lifted[0]).operand(lifted[2])
            try:
                bad = next((r for r in range(0x10000) if X.eval_int(sym, r) != (r & (bit - 1))), None)
            except X.NotEvaluable as e:
                res.violation("dir:%s:recv-key" % f.path, "%s: the channel key is not evaluable (%s)" % (f.path, e), where=where(f, t.get("s")), rule="DIR")
                continue
            if bad is None:
                res.ok("dir:%s:recv-key" % f.path, "DIR", "received segments are keyed by raw id & 0x%x" % (bit - 1))
            else:
                res.violation("dir:%s:recv-key" % f.path, "%s: a segment with raw id 0x%04x is keyed as 0x%04x, expected 0x%04x (the mode bit and only "
                              "the mode bit must be masked off)" % (f.path, bad, X.eval_int(sym, bad), bad & (bit - 1)), where=where(f, t.get("s")), rule="DIR")


def check_consts(res, P, spec):
    bit = spec["mode_bit"]
    groups = {}
    for c in P.consts():
        p = c["path"]
        crate = p.split("::")[0]
        if crate not in STACKS or c.get("ty") != "u16":
            continue
        last = p.rsplit("::", 1)[1]
        if last == "PROTOCOL_SERVER":
            (res.ok if c["val"] == spec["responder_mode"] else res.violation)(
                *(("const:" + p, "DIR", "= 0x8000") if c["val"] == spec["responder_mode"] else
                  ("const:" + p, "%s = %s, the responder mode bit is 0x%x" % (p, c["val"], bit), "%s:%s" % (c["file"], c["line"]), "DIR")))
        elif last == "PROTOCOL_CLIENT":
            (res.ok if c["val"] == spec["initiator_mode"] else res.violation)(
                *(("const:" + p, "DIR", "= 0") if c["val"] == spec["initiator_mode"] else
                  ("const:" + p, "%s = %s, the initiator mode is 0" % (p, c["val"]), "%s:%s" % (c["file"], c["line"]), "DIR")))
        elif last == "CHANNEL_ID" or re.match(r"PROTOCOL_N2[NC]_", last):
            table = "N2N" if "_N2N_" in last else ("N2C" if "_N2C_" in last else "P2P")
            groups.setdefault((crate, table), []).append(c)
    res.count("channel_id_constants", sum(len(v) for v in groups.values()))
    res.floor("channel-id-constants", sum(len(v) for v in groups.values()), 8)
    for (crate, table), cs in sorted(groups.items()):
        for c in cs:
            if not (0 <= c["val"] < bit):
                res.violation("const:" + c["path"], "%s = %s collides with the mode bit 0x%x" % (c["path"], c["val"], bit), where="%s:%s" % (c["file"], c["line"]), rule="DIR")
        vals = {}
        for c in cs:
            vals.setdefault(c["val"], []).append(c["path"])
        dup = {v: ps for v, ps in vals.items() if len(ps) > 1}
        if dup:
            v, ps = sorted(dup.items())[0]
            res.violation("const:%s:%s:distinct" % (crate, table), "two mini-protocols of the %s table share channel id %s: %s" % (table, v, ps), rule="DIR")
        else:
            res.ok("const:%s:%s:distinct" % (crate, table), "DIR", "%d ids, distinct, below 0x%x" % (len(cs), bit))


def check_anymessage(res, P):
    from pv.tabulate import tabulate, cond_variants
    chans = [f for f in P.impl_index.get(("pallas_network2::Message", "channel"), []) if not is_test_code(f) and "::emulation::" not in f.path]
    froms = [f for f in P.impl_index.get(("pallas_network2::Message", "from_payload"), []) if not is_test_code(f) and "::emulation::" not in f.path]
    res.count("message_impls", len(chans))
    for fc in chans:
        adt = fc.b.get("impl_adt")
        ff = [f for f in froms if f.b.get("impl_adt") == adt]
        if not ff:
            res.violation("dual:%s:no-from_payload" % adt, "no from_payload for %s" % adt, rule="DIR")
            continue
        ff = ff[0]
        v2c = {}
        for p in tabulate(fc, P, 512):
            if p.end != "return" or p.ret is None or p.ret[0] != "const":
                continue
            for c in p.conds:
                cv = cond_variants(P, c)
                if cv and len(cv[1]) == 1:
                    v2c[next(iter(cv[1]))] = int(p.ret[1])
        c2v = {}
        for p in tabulate(ff, P, 4096):
            if p.end != "return" or p.ret is None:
                continue
            ctor = [s[1] for s in sym_walk(p.ret) if s[0] == "fnconst" and s[1].startswith(adt + "::")]
            ctor += [s[2] for s in sym_walk(p.ret) if s[0] == "agg" and s[1] == adt]
            for s in sym_walk(p.ret):
                # `.map(|m| AnyMessage::V(m))`: the constructor sits in the closure body
                if s[0] == "agg" and s[1] == "closure" and P.fns.get(s[2]) is not None:
                    g = P.fns[s[2]]
                    ctor += [st[2]["variant"] for _b, _i, st in g.statements()
                             if st[0] == "a" and st[2]["k"] == "agg" and st[2].get("adt") == adt]
            if not ctor:
                continue
            for d, rel in p.conds:
                if rel[0] == "eq" and d[0] in ("param", "local") and (d[0] != "param" or "u16" in ff.local_ty(d[1])):
                    c2v.setdefault(rel[1], set()).add(ctor[0].rsplit("::", 1)[-1])
        res.sample({"channel_table": v2c, "from_payload_table": {k: sorted(v) for k, v in c2v.items()}})
        if len(v2c) < 2:
            res.violation("dual:%s:channel-table" % adt, "cannot tabulate %s" % fc.path, where=fn_loc(fc), rule="DIR")
            continue
        for v, c in sorted(v2c.items()):
            got = c2v.get(c, set())
            if got == {v}:
                res.ok("dual:%s:%s" % (adt, v), "DIR", "channel %d <-> %s" % (c, v))
            else:
                res.violation("dual:%s:%s" % (adt, v), "%s is sent on channel %d, but bytes received on channel %d are decoded as %s: chunks leak to "
                              "another protocol" % (v, c, c, sorted(got) or "nothing"), where=fn_loc(ff), rule="DIR")


# ---------------------------------------------------------------------------------------------------------- EGRESS-KEY

def _eval_key(P, f, sym, env, depth=0):
    """Evaluate a 16-bit key expression; pure workspace helpers are inlined (their single return expression)."""
    k = sym[0]
    m = 0xffff
    if k == "const":
        return int(sym[1]) & m
    if k in ("ref", "deref", "cast"):
        return _eval_key(P, f, sym[1], env, depth)
    if k in ("param", "upvar"):
        if (k, sym[1]) not in env:
            raise X.NotEvaluable("free variable %s" % (sym[1:],))
        return env[(k, sym[1])]
    if k == "un" and sym[1] == "Not":
        return (~_eval_key(P, f, sym[2], env, depth)) & m
    if k == "bin":
        a = _eval_key(P, f, sym[2], env, depth)
        b = _eval_key(P, f, sym[3], env, depth)
        op = sym[1]
        if op == "BitAnd":
            return a & b
        if op == "BitOr":
            return a | b
        if op == "BitXor":
            return a ^ b
        if op in ("Add", "AddWithOverflow", "AddUnchecked"):
            return (a + b) & m
        if op in ("Sub", "SubWithOverflow", "SubUnchecked"):
            return (a - b) & m
        if op == "Shl":
            return (a << b) & m if b < 16 else 0
        if op == "Shr":
            return a >> b if b < 16 else 0
        if op == "Rem" and b:
            return a % b
        raise X.NotEvaluable("operator %s" % op)
    if k == "field" and sym[1][0] == "bin" and str(sym[1][1]).endswith("WithOverflow") and sym[2] in (0, "0"):
        return _eval_key(P, f, sym[1], env, depth)
    if k == "call":
        g = P.fns.get(sym[1])
        if g is None or depth > 3 or g.kind == "Closure":
            raise X.NotEvaluable("call to %s" % strip_generics(sym[1]))
        args = [_eval_key(P, f, a, env, depth) for a in sym[2]]
        genv = {("param", i + 1): v for i, v in enumerate(args)}
        ret = _ret_sym(g)
        return _eval_key(P, g, ret, genv, depth + 1)
    raise X.NotEvaluable("expression %s" % k)


def _key_leaves(sym):
    out = set()
    for s_ in sym_walk(sym):
        if s_[0] in ("param", "upvar"):
            out.add((s_[0], s_[1]))
    return out


def check_egress_keys(res, P, spec):
    """The key a queue is registered under and the key an arriving segment is looked up with are the full 16-bit wire id
    (any injective function of it, the same on both sides): the mode bit must keep client and server queues apart."""
    crate = "pallas_network"
    bit = spec["mode_bit"]
    sites = {"register": [], "lookup": []}
    for f in P.by_crate[crate]:
        if is_test_code(f):
            continue
        for bi, t in f.calls():
            full = t.get("ffull") or t.get("gfull") or ""
            name = cname(t)
            if not re.search(r"Sender<alloc::vec::Vec<u8>>", full) or len(t["args"]) < 2:
                continue
            m = re.match(r"^(std::collections::hash::map::HashMap|alloc::collections::btree::map::BTreeMap)::(\w+)$", name)
            if not m:
                continue
            if m.group(2) in ("insert", "entry", "try_insert"):
                sites["register"].append((f, bi, t))
            elif m.group(2) in ("get", "get_mut", "remove", "contains_key", "get_key_value", "remove_entry"):
                sites["lookup"].append((f, bi, t))
    res.count("egress_key_sites", len(sites["register"]) + len(sites["lookup"]))
    tables = {}
    for kind in ("register", "lookup"):
        if not sites[kind]:
            res.violation("egress-key:%s:none" % kind, "no %s site of the egress queue map found in %s (fail closed)" % (kind, crate), rule="DIR")
            continue
        for f, bi, t in sites[kind]:
            key = "egress-key:%s:%s" % (kind, f.path)
            sym = X.SymX(f).operand(t["args"][1])
            leaves = _key_leaves(sym)
            if len(leaves) != 1:
                res.violation(key, "%s: the egress queue key `%s` is not a function of one 16-bit protocol id (fail closed)" % (f.path, sym_str(sym, 60)),
                              where=where(f, t.get("s")), rule="DIR")
                continue
            leaf = next(iter(leaves))
            try:
                tab = [_eval_key(P, f, sym, {leaf: v}) for v in range(0x10000)]
            except X.NotEvaluable as e:
                res.violation(key, "%s: the egress queue key `%s` cannot be evaluated (%s); fail closed" % (f.path, sym_str(sym, 60), e),
                              where=where(f, t.get("s")), rule="DIR")
                continue
            tables.setdefault(kind, []).append((f, t, tab))
            if len(set(tab)) == 0x10000:
                res.ok(key, "DIR", "key is an injective function of the 16-bit wire id")
            else:
                p = next((v for v in range(bit) if tab[v] == tab[v ^ bit]), None)
                if p is not None:
                    why = "ids 0x%04x and 0x%04x (the same mini-protocol in the two directions) get the same key 0x%04x: the client-side and the " \
                          "server-side agent of one protocol share a queue, the later subscription replaces the earlier and chunks reach the wrong role" % (
                              p, p ^ bit, tab[p])
                else:
                    seen = {}
                    a = b = 0
                    for v, kv in enumerate(tab):
                        if kv in seen:
                            a, b = seen[kv], v
                            break
                        seen[kv] = v
                    why = "ids 0x%04x and 0x%04x get the same key: two protocols share a queue" % (a, b)
                res.violation(key, "%s: the key a queue is %s is `%s`; %s" % (
                    f.path, "registered under" if kind == "register" else "looked up with", sym_str(sym, 60), why), where=where(f, t.get("s")), rule="DIR")
    for fr, tr, tabr in tables.get("register", []):
        for fl, tl, tabl in tables.get("lookup", []):
            key = "egress-key:same:%s:%s" % (fr.path, fl.path)
            if tabr == tabl:
                res.ok(key, "DIR", "a segment with wire id x is looked up under the key a subscription for x registered")
            else:
                v = next(v for v in range(0x10000) if tabr[v] != tabl[v])
                res.violation(key, "a queue subscribed for wire id 0x%04x is registered under key 0x%04x (%s) but a segment with that id is looked up "
                              "under 0x%04x (%s): it is never delivered" % (v, tabr[v], fr.path, tabl[v], fl.path), where=where(fl, tl.get("s")), rule="DIR")


# ---------------------------------------------------------------------------------------------------------- BOUND

CHUNKS = re.compile(r"^core::slice::chunks$|^core::slice::chunks_exact$|^core::slice::rchunks$")


def chunk_bound(f, og, o, spec, P=None, depth=0):
    """Origin analysis of a payload operand: ('ok', N) if it comes out of chunks(N) with 0 < N <= max, else (kind, detail)."""
    orig = og.of_operand(o)
    cs = [x for x in orig if x[0] == "call" and CHUNKS.match(x[1])]
    others = [x for x in orig if x[0] == "call" and not CHUNKS.match(x[1])]
    if cs:
        out = []
        for c in cs:
            t = f.blocks[c[2]]["term"]
            n = f.sym_operand(t["args"][1])
            if c[1] != "core::slice::chunks":
                return "unsupported", c[1]
            if n[0] != "const":
                return "non-constant", sym_str(n, 40)
            out.append(int(n[1]))
        if others:
            return "mixed", others[0][1]
        bad = [n for n in out if not (0 < n <= spec["max_payload"])]
        if bad:
            return "too-large", bad[0]
        return "ok", max(out)
    return "unbounded", (others[0][1] if others else "a parameter")


def check_bound(res, P, spec):
    # original stack: callers of enqueue_chunk; P2P stack: callers of write_segment + into_chunks implementations
    n = 0
    for crate, sink, argi in (("pallas_network", r"::AgentChannel::enqueue_chunk$", 1), ("pallas_network2", r"::BearerWriteHalf::write_segment$", 3)):
        for f in P.by_crate[crate]:
            if is_test_code(f):
                continue
            for bi, t in f.calls():
                g = P.fns.get(t.get("f") or "")
                if g is None or g.kind == "Closure" or not re.search(sink, g.path):
                    continue
                n += 1
                og = X.Origins(f, extra_transparent=r"^alloc::vec::Vec as core::convert::From::from$")
                kind, detail = chunk_bound(f, og, t["args"][argi], spec)
                key = "bound:%s" % f.path
                if kind == "ok":
                    res.ok(key, "BOUND", "payload comes out of chunks(%d)" % detail)
                    continue
                if kind == "unbounded":
                    # through a workspace producer whose result is itself chunked (Message::into_chunks)
                    orig = og.of_operand(t["args"][argi])
                    prods = [x for x in orig if x[0] == "call" and x[1].endswith("::into_chunks")]
                    if prods and len([x for x in orig if x[0] == "call"]) == len(prods):
                        res.ok(key, "BOUND", "payload is an element of Message::into_chunks()")
                        continue
                what = {"too-large": "is cut into chunks of %s bytes, more than the %d a header can describe: `payload.len() as u16` wraps and the "
                                     "receiver loses the segment boundaries" % (detail, spec["max_payload"]),
                        "unbounded": "does not come out of `chunks(N)` (it originates from %s): its length may exceed the 16-bit length field" % detail,
                        "non-constant": "is chunked by a non-constant size (%s)" % detail,
                        "mixed": "only partly comes out of chunks (also from %s)" % detail,
                        "unsupported": "uses %s" % detail}[kind]
                res.violation(key, "%s: the payload written in a segment %s" % (f.path, what), where=where(f, t.get("s")), rule="BOUND")
    res.count("segment_payload_sources", n)
    res.floor("segment-payload-sources", n, 2)
    impls = [f for f in P.find(r"::into_chunks$", "pallas_network2") if f.kind != "Closure" and not is_test_code(f)]
    res.count("into_chunks_bodies", len(impls))
    res.floor("into-chunks-bodies", len(impls), 1)
    for f in impls:
        og = X.Origins(f, extra_transparent=r"^alloc::vec::Vec as core::convert::From::from$")
        okb = False
        detail = None
        for bi, si, s in f.statements():
            if s[0] == "a" and s[1] == 0 and s[2]["k"] == "agg" and s[2].get("ak") == "tuple":
                kind, detail = chunk_bound(f, og, s[2]["fields"][-1], spec)
                okb = kind == "ok"
                break
        if okb:
            res.ok("bound:%s" % f.path, "BOUND", "chunks(%d)" % detail)
        else:
            res.violation("bound:%s" % f.path, "%s: the chunks it returns are not produced by `chunks(N)` with 0 < N <= %d (%s)" % (
                f.path, spec["max_payload"], detail), where=fn_loc(f), rule="BOUND")
    for c in P.consts():
        if c["path"].endswith("::MAX_SEGMENT_PAYLOAD_LENGTH") and c["path"].split("::")[0] in STACKS:
            if 0 < c["val"] <= spec["max_payload"]:
                res.ok("bound:const:" + c["path"], "BOUND", "= %d" % c["val"])
            else:
                res.violation("bound:const:" + c["path"], "%s = %d does not fit the 16-bit length field (max %d)" % (c["path"], c["val"], spec["max_payload"]),
                              where="%s:%s" % (c["file"], c["line"]), rule="BOUND")


# ---------------------------------------------------------------------------------------------------------- OWNER

def check_owner(res, P):
    crate = "pallas_network"
    mod = "pallas_network::multiplexer::"
    rules_ = [
        ("egress-send", r"^tokio::sync::mpsc::bounded::Sender::send$", r"Sender::<alloc::vec::Vec<u8>>", "Demuxer", True),
        ("egress-register", r"^std::collections::hash::map::HashMap::insert$", r"Sender<alloc::vec::Vec<u8>>", "Demuxer", False),
        ("ingress-drain", r"^tokio::sync::mpsc::bounded::Receiver::(recv|try_recv|recv_many|blocking_recv|poll_recv)$", r"Receiver::<\(u16, alloc::vec::Vec<u8>\)>", "Muxer", True),
        ("ingress-feed", r"^tokio::sync::mpsc::bounded::Sender::(send|try_send|blocking_send|send_timeout)$", r"Sender::<\(u16, alloc::vec::Vec<u8>\)>", "AgentChannel", False),
        ("egress-drain", r"^tokio::sync::mpsc::bounded::Receiver::(recv|try_recv|recv_many|blocking_recv|poll_recv)$", r"Receiver::<alloc::vec::Vec<u8>>", "AgentChannel", False),
    ]
    for key, rx, targ, owner, once in rules_:
        sites = []
        for f in P.by_crate[crate]:
            if is_test_code(f):
                continue
            for bi, t in f.calls():
                full = t.get("ffull") or t.get("gfull") or ""
                if re.search(rx, cname(t)) and re.search(targ, full):
                    sites.append((f, bi, t))
        res.count("owner_" + key.replace("-", "_"), len(sites))
        if not sites:
            res.violation("owner:%s:none" % key, "no %s site found in %s (fail closed)" % (key, crate), rule="OWNER")
            continue
        for f, bi, t in sites:
            if f.path.startswith(mod + owner + "::"):
                res.ok("owner:%s:%s" % (key, f.path), "OWNER", "inside %s" % owner)
            else:
                res.violation("owner:%s:%s" % (key, f.path), "%s performs `%s` on a multiplexer queue; only %s may (a second consumer/producer steals "
                              "or duplicates chunks)" % (f.path, cname(t).split("::")[-1], owner), where=where(f, t.get("s")), rule="OWNER")
        if once:
            for f, bi, t in sites:
                L = X.LogicalCFG(f)
                same = [x for x in sites if x[0] is f]
                if len(same) > 1 or L.in_loop(bi):
                    res.violation("owner:%s:once:%s" % (key, f.path), "%s forwards/drains more than once per tick (%d sites%s): a chunk is delivered "
                                  "twice or a queue entry skipped" % (f.path, len(same), ", in a loop" if L.in_loop(bi) else ""), where=where(f, t.get("s")), rule="OWNER")
                else:
                    res.ok("owner:%s:once:%s" % (key, f.path), "OWNER", "one site, not in a loop")


def run(tier="quick"):
    res = Result("C20", tier, level="other")
    P = Program(crates=CRATES)
    spec = json.load(open(os.path.join(VERIF, "spec", "mux_header.json")))
    check_layout(res, P, spec)
    check_frame(res, P, spec)
    check_dir_network(res, P, spec)
    check_egress_keys(res, P, spec)
    check_dir_network2(res, P, spec)
    check_consts(res, P, spec)
    check_anymessage(res, P)
    check_bound(res, P, spec)
    check_owner(res, P)
    return finish(res, "Decides framing/routing clauses (header layout duality against the specification, frame read/write provenance, "
                  "direction bit evaluated over the id domain, bounded segment payloads, queue ownership); the quantifier over "
                  "interleavings and task schedules is not decided.", __doc__.split("\n\n", 1)[1],
                  trusted_base=["spec/mux_header.json (wire format transcribed from the network specification)", "tokio mpsc channels are FIFO",
                                "byteorder / to_be_bytes semantics", "rustc MIR (opt-level 0) as dumped by driver/"])
