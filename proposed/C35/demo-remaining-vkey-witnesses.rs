// Demonstration tests for the C35 finding "check_remaining_vk_wits returns Ok after the first extra witness verifies".
//
// One #[test] per era; each goes into the test module of the named file (it uses that module's imports and helpers) and is run
// with   cargo test --offline -p pallas-validate extra_vkey_witnesses
//
// Every test starts from the accepted transaction of the era's first "successful" test and only appends two vkey witnesses
// that no input needs: the first is a genuine Ed25519 signature of the transaction id by a fresh key, the second carries the
// same key with a corrupted signature.  The ledger requires every vkey witness to verify, so phase-1 must answer with the
// era's wrong-signature error.  Without fix-remaining-vkey-witnesses.diff all four tests fail: validation returns Ok(())
// because the loop over the witnesses not matched to an input stops at the first one that verifies.
// (minfee_a is set to 0 only so that the two extra witnesses do not trip the unrelated linear-fee rule.)

// ---------------------------------------------------------------------------------------------------------------------
// pallas-validate/tests/shelley_ma.rs, inside `mod shelley_ma_tests`
    #[test]
    fn extra_vkey_witnesses_must_all_verify_shelley() {
        use pallas_traverse::OriginalHash;
        let cbor_bytes: Vec<u8> = cbor_to_bytes(include_str!("../../test_data/shelley1.tx"));
        let mut mtx: Tx = minted_tx_from_cbor(&cbor_bytes);
        let tx_id = mtx.transaction_body.original_hash();
        let sk: pallas_crypto::key::ed25519::SecretKey = [7u8; 32].into();
        let vkey: Vec<u8> = sk.public_key().as_ref().to_vec();
        let good: Vec<u8> = sk.sign(tx_id).as_ref().to_vec();
        let mut forged = good.clone();
        forged[0] ^= 0xff;
        let mut tx_wits: WitnessSet = mtx.transaction_witness_set.unwrap().clone();
        let mut wits: Vec<VKeyWitness> = tx_wits.vkeywitness.clone().unwrap_or_default();
        wits.push(VKeyWitness { vkey: Bytes::from(vkey.clone()), signature: Bytes::from(good) });
        wits.push(VKeyWitness { vkey: Bytes::from(vkey), signature: Bytes::from(forged) });
        tx_wits.vkeywitness = Some(wits);
        let mut wits_buf: Vec<u8> = Vec::new();
        let _ = encode(tx_wits, &mut wits_buf);
        mtx.transaction_witness_set =
            Decode::decode(&mut Decoder::new(wits_buf.as_slice()), &mut ()).unwrap();
        let metx: MultiEraTx = MultiEraTx::from_alonzo_compatible(&mtx, Era::Shelley);
        let utxos: UTxOs = mk_utxo_for_alonzo_compatible_tx(
            &mtx.transaction_body,
            &[(
                String::from(
                    "0129bb156d52d014bb444a14138cbee36044c6faed37d0c2d49d2358315c465cbf8c5536970e8a29bb7adcda0d663b20007d481813694c64ef",
                ),
                Value::Coin(2332267427205),
                None,
            )],
        );
        let env: Environment = hardcoded_environment_values!(minfee_a = 0);
        let mut cert_state: CertState = CertState::default();
        match validate_txs(&[metx], &env, &utxos, &mut cert_state) {
            Err(ShelleyMA(ShelleyMAError::WrongSignature)) => (),
            other => panic!("a vkey witness with an invalid signature must be rejected, got {other:?}"),
        }
    }

// ---------------------------------------------------------------------------------------------------------------------
// pallas-validate/tests/alonzo.rs, inside `mod alonzo_tests`
    #[test]
    fn extra_vkey_witnesses_must_all_verify_alonzo() {
        use pallas_traverse::OriginalHash;
        let cbor_bytes: Vec<u8> = cbor_to_bytes(include_str!("../../test_data/alonzo1.tx"));
        let mut mtx: Tx = minted_tx_from_cbor(&cbor_bytes);
        let tx_id = mtx.transaction_body.original_hash();
        let sk: pallas_crypto::key::ed25519::SecretKey = [7u8; 32].into();
        let vkey: Vec<u8> = sk.public_key().as_ref().to_vec();
        let good: Vec<u8> = sk.sign(tx_id).as_ref().to_vec();
        let mut forged = good.clone();
        forged[0] ^= 0xff;
        let mut tx_wits = mtx.transaction_witness_set.unwrap().clone();
        let mut wits = tx_wits.vkeywitness.clone().unwrap_or_default();
        wits.push(pallas_primitives::alonzo::VKeyWitness {
            vkey: pallas_codec::utils::Bytes::from(vkey.clone()),
            signature: pallas_codec::utils::Bytes::from(good),
        });
        wits.push(pallas_primitives::alonzo::VKeyWitness {
            vkey: pallas_codec::utils::Bytes::from(vkey),
            signature: pallas_codec::utils::Bytes::from(forged),
        });
        tx_wits.vkeywitness = Some(wits);
        let mut wits_buf: Vec<u8> = Vec::new();
        let _ = encode(tx_wits, &mut wits_buf);
        mtx.transaction_witness_set =
            Decode::decode(&mut Decoder::new(wits_buf.as_slice()), &mut ()).unwrap();
        let metx: MultiEraTx = MultiEraTx::from_alonzo_compatible(&mtx, Era::Alonzo);
        let utxos: UTxOs = mk_utxo_for_alonzo_compatible_tx(
            &mtx.transaction_body,
            &[(
                String::from(
                    "018c9ae79bca586ac36dcfdbbf4d2826c685a6969411c338c14973cc7f7bdb37706cd03711fe64747f8cfcfd574c7445cc0378781e77a8cc00",
                ),
                Value::Coin(1549646822),
                None,
            )],
        );
        let mut params = mk_params_epoch_334();
        params.minfee_a = 0;
        let env: Environment = Environment {
            prot_params: MultiEraProtocolParameters::Alonzo(params),
            prot_magic: 764824073,
            block_slot: 44237276,
            network_id: 1,
            acnt: Some(AccountState {
                treasury: 261_254_564_000_000,
                reserves: 0,
            }),
        };
        let mut cert_state: CertState = CertState::default();
        match validate_txs(&[metx], &env, &utxos, &mut cert_state) {
            Err(Alonzo(AlonzoError::VKWrongSignature)) => (),
            other => panic!("a vkey witness with an invalid signature must be rejected, got {other:?}"),
        }
    }

// ---------------------------------------------------------------------------------------------------------------------
// pallas-validate/tests/babbage.rs, inside `mod babbage_tests`
    #[test]
    fn extra_vkey_witnesses_must_all_verify_babbage() {
        use pallas_traverse::OriginalHash;
        let cbor_bytes: Vec<u8> = cbor_to_bytes(include_str!("../../test_data/babbage3.tx"));
        let mut mtx: Tx = babbage_minted_tx_from_cbor(&cbor_bytes);
        let tx_id = mtx.transaction_body.original_hash();
        let sk: pallas_crypto::key::ed25519::SecretKey = [7u8; 32].into();
        let vkey: Vec<u8> = sk.public_key().as_ref().to_vec();
        let good: Vec<u8> = sk.sign(tx_id).as_ref().to_vec();
        let mut forged = good.clone();
        forged[0] ^= 0xff;
        let mut tx_wits: WitnessSet = mtx.transaction_witness_set.unwrap().clone();
        let mut wits = tx_wits.vkeywitness.clone().unwrap_or_default();
        wits.push(pallas_primitives::babbage::VKeyWitness { vkey: Bytes::from(vkey.clone()), signature: Bytes::from(good) });
        wits.push(pallas_primitives::babbage::VKeyWitness { vkey: Bytes::from(vkey), signature: Bytes::from(forged) });
        tx_wits.vkeywitness = Some(wits);
        let mut wits_buf: Vec<u8> = Vec::new();
        let _ = encode(tx_wits, &mut wits_buf);
        mtx.transaction_witness_set =
            Decode::decode(&mut Decoder::new(wits_buf.as_slice()), &mut ()).unwrap();
        let metx: MultiEraTx = MultiEraTx::from_babbage(&mtx);
        let tx_outs_info: &[BabbageTxOutInfo] = &[(
            String::from(
                "011be1f490912af2fc39f8e3637a2bade2ecbebefe63e8bfef10989cd6f593309a155b0ebb45ff830747e61f98e5b77feaf7529ce9df351382",
            ),
            Value::Coin(103324335),
            None,
            None,
        )];
        let utxos: UTxOs = mk_utxo_for_babbage_tx(&mtx.transaction_body, tx_outs_info);
        let mut params = mk_mainnet_params_epoch_365();
        params.minfee_a = 0;
        let env: Environment = Environment {
            prot_params: MultiEraProtocolParameters::Babbage(params),
            prot_magic: 764824073,
            block_slot: 72316896,
            network_id: 1,
            acnt: Some(AccountState {
                treasury: 261_254_564_000_000,
                reserves: 0,
            }),
        };
        let mut cert_state: CertState = CertState::default();
        match validate_txs(&[metx], &env, &utxos, &mut cert_state) {
            Err(PostAlonzo(PostAlonzoError::VKWrongSignature)) => (),
            other => panic!("a vkey witness with an invalid signature must be rejected, got {other:?}"),
        }
    }

// ---------------------------------------------------------------------------------------------------------------------
// pallas-validate/tests/conway.rs, inside `mod conway_tests`
    #[test]
    fn extra_vkey_witnesses_must_all_verify_conway() {
        use pallas_traverse::OriginalHash;
        let cbor_bytes: Vec<u8> = cbor_to_bytes(include_str!("../../test_data/conway3.tx"));
        let mut mtx: Tx = conway_minted_tx_from_cbor(&cbor_bytes);
        let tx_id = mtx.transaction_body.original_hash();
        let sk: pallas_crypto::key::ed25519::SecretKey = [7u8; 32].into();
        let vkey: Vec<u8> = sk.public_key().as_ref().to_vec();
        let good: Vec<u8> = sk.sign(tx_id).as_ref().to_vec();
        let mut forged = good.clone();
        forged[0] ^= 0xff;
        let mut tx_wits = (*mtx.transaction_witness_set).clone();
        let mut wits: Vec<pallas_primitives::conway::VKeyWitness> = tx_wits
            .vkeywitness
            .clone()
            .map(|w| w.to_vec())
            .unwrap_or_default();
        wits.push(pallas_primitives::conway::VKeyWitness { vkey: Bytes::from(vkey.clone()), signature: Bytes::from(good) });
        wits.push(pallas_primitives::conway::VKeyWitness { vkey: Bytes::from(vkey), signature: Bytes::from(forged) });
        tx_wits.vkeywitness = Some(pallas_codec::utils::NonEmptySet::from_vec(wits).unwrap());
        let mut wits_buf: Vec<u8> = Vec::new();
        let _ = encode(tx_wits, &mut wits_buf);
        mtx.transaction_witness_set =
            Decode::decode(&mut Decoder::new(wits_buf.as_slice()), &mut ()).unwrap();
        let metx: MultiEraTx = MultiEraTx::from_conway(&mtx);
        let tx_outs_info: &[ConwayTxOutInfo] = &[(
            String::from(
                "015c5c318d01f729e205c95eb1b02d623dd10e78ea58f72d0c13f892b2e8904edc699e2f0ce7b72be7cec991df651a222e2ae9244eb5975cba",
            ),
            Value::Coin(20000000),
            None,
            None,
        )];
        let utxos: UTxOs = mk_utxo_for_conway_tx(&mtx.transaction_body, tx_outs_info);
        let mut params = mk_mainnet_params_epoch_365();
        params.minfee_a = 0;
        let env: Environment = Environment {
            prot_params: MultiEraProtocolParameters::Conway(params),
            prot_magic: 764824073,
            block_slot: 137806612,
            network_id: 1,
            acnt: Some(AccountState {
                treasury: 261_254_564_000_000,
                reserves: 0,
            }),
        };
        let mut cert_state: CertState = CertState::default();
        match validate_txs(&[metx], &env, &utxos, &mut cert_state) {
            Err(PostAlonzo(PostAlonzoError::VKWrongSignature)) => (),
            other => panic!("a vkey witness with an invalid signature must be rejected, got {other:?}"),
        }
    }
