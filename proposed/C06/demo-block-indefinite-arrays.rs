// Goes to pallas-primitives/tests/block_indefinite_arrays.rs (integration test).
// Real main-net blocks whose transaction-body / witness-set arrays use the indefinite-length form (the ledger writes
// sequences of more than 23 elements that way).  Decoding them and encoding the result must give back the input bytes.
use pallas_codec::minicbor;
use pallas_primitives::{alonzo, babbage};

fn roundtrip_alonzo(hex_block: &str) {
    let bytes = hex::decode(hex_block.trim()).unwrap();
    let block: (u16, alonzo::Block) = minicbor::decode(&bytes).unwrap();
    let again = minicbor::to_vec(block).unwrap();
    assert!(bytes == again, "re-encoded bytes differ from the original block");
}

fn roundtrip_babbage(hex_block: &str) {
    let bytes = hex::decode(hex_block.trim()).unwrap();
    let block: (u16, babbage::Block) = minicbor::decode(&bytes).unwrap();
    let again = minicbor::to_vec(block).unwrap();
    assert!(bytes == again, "re-encoded bytes differ from the original block");
}

#[test]
fn alonzo_block_with_indefinite_body_array_is_isomorphic() {
    roundtrip_alonzo(include_str!("../../test_data/alonzo9.block"));
}

#[test]
fn alonzo_block_with_indefinite_body_array_is_isomorphic_2() {
    roundtrip_alonzo(include_str!("../../test_data/alonzo21.block"));
}

#[test]
fn babbage_block_with_indefinite_body_array_is_isomorphic() {
    roundtrip_babbage(include_str!("../../test_data/babbage9.block"));
}
