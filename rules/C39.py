"""C39 — sequence validation updates the certificate state atomically (decided whole, by ownership).

In validate_txs the caller's `&mut CertState` is (1) read exactly once, by the clone that initialises the working copy,
(2) never lent to any callee other than the write-back, (3) written exactly once, with the working copy, at a point that is
outside every loop, on no path with an error exit, dominated by the head of the loop / the iterator consumer that applies
validate_tx and with no application reachable after it, and (4) every validate_tx application (direct call or inside a closure
of validate_txs) receives `&mut` of the working copy; for iterator-driven loops the chain over the sequence parameter carries no
reordering/skipping adaptor.  The clauses are stated over loop heads, error exits and application points — not over one
spelling of the loop — so that behaviour-preserving rewrites stay silent.
Rust's aliasing rules make (2) sufficient for "no callee touches the caller's state"."""
import re
from pv.program import Program
from pv.report import Result, finish
from pv.mir import sym_str, sym_walk, pl_local, pl_proj, op_place
from pv import flow
from pv.guards import place_chain


def whole_replace_helper(g, pi):
    """If workspace function g does nothing to `*param pi` but overwrite it as a whole with another parameter (by value, or the
    deref of a by-ref parameter through the library write forms), on every path to its return, return that parameter's index."""
    writes = []
    for bi, si, s in g.statements():
        if s[0] == "a" and not isinstance(s[1], int) and pl_local(s[1]) == pi:
            if s[2]["k"] == "use" and [e[0] for e in pl_proj(s[1])] == ["deref"]:
                writes.append((bi, g.sym_operand(s[2]["x"])))
            else:
                return None
        if s[0] == "a" and s[2]["k"] in ("ref", "rawptr") and s[2].get("mut") and pl_local(s[2]["p"]) == pi:
            return None
    for bi, t in g.calls():
        for a in t["args"]:
            ch = flow.origin_chain(g.sym_operand(a))
            if ch is not None and ch[0] == ("param", pi):
                return None           # lent further: not a plain replacement
    if len(writes) != 1:
        return None
    bi, src = writes[0]
    ch = flow.origin_chain(src)
    if ch is None or ch[0][0] != "param" or ch[1] or ch[0][1] == pi:
        return None
    if not all(flow.dominates(g, bi, r) for r in g.return_blocks()):
        return None
    return ch[0][1]


def run(tier):
    res = Result("C39", tier, level="proof")
    P = Program(crates=["pallas_validate"])
    f = P.one(r"^pallas_validate::phase1::validate_txs$")
    # locate the caller's state parameter by type
    cs = [i for i in range(1, f.argc + 1) if re.match(r"^&mut pallas_validate::utils::CertState$", f.local_ty(i))]
    if len(cs) != 1:
        res.violation("anchor:cert_state-param", "validate_txs has no unique `&mut CertState` parameter", rule="anchor")
        return finish(res, "anchor lost", "ownership argument")
    cparam = cs[0]
    where = "%s:%s" % (f.file, f.line)

    # (1)+(2): every use of the parameter
    clone_calls = []
    lent = []
    for bi, t in f.calls():
        for i, a in enumerate(t["args"]):
            ch = flow.origin_chain(f.sym_operand(a))
            if ch is not None and ch[0] == ("param", cparam):
                name = flow.callee_name(t)
                if re.search(r"core::clone::Clone::clone$| as core::clone::Clone::clone$|CertState as core::clone::Clone::clone$", name) or name.endswith("::clone"):
                    clone_calls.append((bi, t))
                else:
                    lent.append((bi, t, name))
    if len(clone_calls) == 1:
        res.ok("read-once", "R-FRAME", "the caller's state is read exactly once, by clone()")
    else:
        res.violation("read-once=>%d" % len(clone_calls), "the caller's CertState is cloned %d times (expected exactly one snapshot)" % len(clone_calls), where=where, rule="R-FRAME")
    # working copy local
    wc = None
    if clone_calls:
        d = clone_calls[0][1]["dest"]
        wc = pl_local(d)
    # (4a) application points: where validate_tx is applied to the sequence — a direct call in validate_txs, or the call that
    # consumes a closure of validate_txs whose body calls validate_tx (try_for_each & co.)
    vt = flow.calls_matching(f, r"^pallas_validate::phase1::validate_tx$")
    app_points = []          # (block in f, description)
    arg_ok = []
    for bi, t in vt:
        ok = False
        for a_ in t["args"]:
            ch = flow.origin_chain(f.sym_operand(a_))
            ty = f.local_ty(pl_local(op_place(a_))) if op_place(a_) is not None and isinstance(op_place(a_), int) else ""
            if ty.startswith("&mut pallas_validate::utils::CertState"):
                ok = ch is not None and ch[0] == ("local", wc) and not ch[1]
        arg_ok.append(ok)
        app_points.append((bi, "call"))
    consumers = []           # call terminators in f that take such a closure
    for g in P.closure_children(f):
        gv = flow.calls_matching(g, r"^pallas_validate::phase1::validate_tx$")
        if not gv:
            continue
        aggs = [(bi, s) for bi, si, s in f.statements()
                if s[0] == "a" and s[2]["k"] == "agg" and s[2].get("ak") == "closure" and s[2].get("def") == g.b.get("path", g.path).split("#")[0]]
        if not aggs:
            aggs = [(bi, s) for bi, si, s in f.statements()
                    if s[0] == "a" and s[2]["k"] == "agg" and s[2].get("ak") == "closure" and g.path.startswith(s[2].get("def", "\0"))]
        for gbi, gt in gv:
            ok = False
            for a_ in gt["args"]:
                ch = flow.origin_chain(g.sym_operand(a_))
                pl = op_place(a_)
                ty = g.local_ty(pl_local(pl)) if pl is not None and isinstance(pl, int) else ""
                if ty.startswith("&mut pallas_validate::utils::CertState") and ch is not None and ch[0] == ("param", 1) and len(ch[1]) == 1 and aggs:
                    k = int(ch[1][0])
                    flds = aggs[0][1][2]["fields"]
                    if k < len(flds):
                        up = flow.origin_chain(f.sym_operand(flds[k]))
                        ok = up is not None and up[0] == ("local", wc) and not up[1]
            arg_ok.append(ok)
        for abi, astmt in aggs:
            cl = pl_local(astmt[1])
            for bi, t in f.calls():
                if any(op_place(a_) is not None and pl_local(op_place(a_)) == cl for a_ in t["args"]):
                    app_points.append((bi, "closure:" + flow.callee_name(t).split("::")[-1]))
                    consumers.append(t)
    if not arg_ok:
        res.violation("anchor:validate_tx", "validate_txs no longer applies validate_tx (neither directly nor in one of its closures)", rule="anchor")
    for ok in arg_ok:
        if ok:
            res.ok("validate_tx-gets-copy", "R-PROV", "validate_tx receives &mut of the working copy")
        else:
            res.violation("validate_tx-arg", "validate_tx does not receive `&mut` of the working copy as its certificate state", where=where, rule="R-PROV")

    # (3) writes through the parameter: `*cert_state = x`, or the equivalent library forms
    # clone_from(cert_state, &x) / mem::swap(cert_state, &mut x) / mem::replace(cert_state, x)
    WRITE_FORMS = re.compile(r"::clone_from$|^core::mem::swap$|^core::mem::replace$|^std::mem::swap$|^std::mem::replace$")
    form_lent = [(bi, t, n) for bi, t, n in lent if WRITE_FORMS.search(n)]
    lent = [x for x in lent if not WRITE_FORMS.search(x[2])]
    # a workspace helper whose whole effect is `*state = value` (extracted write-back, e.g. `CertState::commit`): equivalent to
    # the assignment; the helper's body is inspected, so a helper that merges/extends instead of replacing stays "lent"
    still = []
    for bi, t, n in lent:
        g = P.get(t.get("f") or "")
        src_i = None
        if g is not None:
            pis = [i for i, a in enumerate(t["args"]) if (flow.origin_chain(f.sym_operand(a)) or (None,))[0] == ("param", cparam)]
            if len(pis) == 1:
                src_i = whole_replace_helper(g, pis[0] + 1)
        if src_i is not None and src_i - 1 < len(t["args"]):
            t2 = dict(t, args=[t["args"][pis[0]], t["args"][src_i - 1]])
            form_lent.append((bi, t2, n))
        else:
            still.append((bi, t, n))
    lent = still
    if lent:
        res.violation("lent:" + "|".join(sorted({n.split("::")[-1] for _, _, n in lent})),
                      "the caller's `&mut CertState` is passed to %s: a callee can modify it before the sequence is known to be valid" % sorted({n for _, _, n in lent}),
                      where=where, rule="R-FRAME")
    else:
        res.ok("never-lent", "R-FRAME", "the caller's state is not an argument of any call other than the snapshot clone and the write-back")
    writes = []              # (block, source symbolic value or None)
    for bi, si, s in f.statements():
        if s[0] == "a" and not isinstance(s[1], int) and pl_local(s[1]) == cparam:
            full = s[2]["k"] == "use" and [e[0] for e in pl_proj(s[1])] == ["deref"]
            writes.append((bi, f.sym_operand(s[2]["x"]) if full else None))
        if s[0] == "a" and s[2]["k"] in ("ref", "rawptr") and s[2].get("mut") and pl_local(s[2]["p"]) == cparam and pl_proj(s[2]["p"]):
            # a mutable re-borrow of *cert_state: fine when it only feeds one of the write forms above
            dst = pl_local(s[1])
            feeds = [t for b2, t, n in form_lent if any(op_place(a_) is not None and pl_local(op_place(a_)) == dst for a_ in t["args"][:1])]
            if not feeds:
                writes.append((bi, None))
    for bi, t, n in form_lent:
        writes.append((bi, f.sym_operand(t["args"][1]) if len(t["args"]) > 1 else None))
    if len(writes) == 1 and writes[0][1] is not None:
        bi, src = writes[0]
        srcch = flow.origin_chain(src)
        if wc is not None and srcch is not None and srcch[0] == ("local", wc) and not srcch[1]:
            res.ok("write-once-from-copy", "R-PROV", "the single write through the parameter installs the working copy")
        else:
            res.violation("write-source", "the caller's state is overwritten with %s, not with the working copy" % sym_str(src), where=where, rule="R-PROV")
        # position: outside any loop, and on no path with an error exit (a `?` residual or a constructed Err)
        errs = {b for b, t in f.calls() if flow.callee_name(t).endswith("from_residual")}
        errs |= {b for b, si, s2 in f.statements() if s2[0] == "a" and s2[2]["k"] == "agg" and s2[2].get("ak") == "adt"
                 and s2[2].get("adt") == "core::result::Result" and s2[2].get("variant") == "Err"}
        in_loop = f.can_reach_strict(bi, bi)
        after_err = any(f.can_reach(r, bi) for r in errs)
        before_err = any(f.can_reach(bi, r) for r in errs)
        if in_loop:
            res.violation("write-in-loop", "the caller's state is written inside the per-transaction loop: a later failure leaves a partial update", where=where, rule="R-ORDER")
        elif after_err or before_err:
            res.violation("write-on-error-path", "the write to the caller's state shares a path with an error return", where=where, rule="R-ORDER")
        else:
            res.ok("write-after-loop", "R-ORDER", "the write is outside the loop and on no path with an error exit (%d error exits inspected)" % len(errs))
        # the write comes after every application of validate_tx: it is reachable only through the head of the loop that
        # applies validate_tx (or through the call consuming the closure), and no application is reachable from it
        bad = None
        for ab, how in app_points:
            if f.can_reach(bi, ab):
                bad = "validate_tx can still be applied after the write-back"
                break
            if f.can_reach_strict(ab, ab):
                loop = {x for x in f.live_blocks() if x == ab or (f.can_reach(ab, x) and f.can_reach(x, ab))}
                heads = [x for x in loop if any(p_ not in loop for p_ in f.pred(x))]
                if bi in loop or not heads or not all(flow.dominates(f, h, bi) for h in heads):
                    bad = "the write-back can be reached without passing the head of the loop that applies validate_tx"
                    break
            elif not flow.dominates(f, ab, bi):
                bad = "the write-back can be reached without passing the application of validate_tx"
                break
        if app_points and bad is None:
            res.ok("write-dominated-by-loop-head", "R-ORDER", "the write is dominated by the head of the loop / the call that applies validate_tx (%s)" % ", ".join(sorted({h for _, h in app_points})))
        elif app_points:
            res.violation("write-not-after-loop", bad, where=where, rule="R-ORDER")
    else:
        res.violation("write-once=>%d" % len(writes), "the caller's CertState is written/mutably re-borrowed at %d places (expected exactly one final write-back of a whole value)" % len(writes), where=where, rule="R-FRAME")

    # (4b) iteration order.  Decided for iterator-driven forms (a `for` loop or an iterator consumer taking the closure): the
    # iterator chain must be rooted at the `metxs` parameter; a reordering/skipping adaptor in it is a violation.  Other loop
    # forms (index arithmetic) are value-dependent: the clause is reported as not decided, never as a violation.
    REORDER = {"rev", "skip", "step_by", "take", "filter", "filter_map", "skip_while", "take_while", "map_while", "chunks", "rchunks",
               "windows", "chunks_exact", "rchunks_exact", "rsplit", "split_first", "split_last", "last", "nth", "cycle", "chain", "flat_map", "flatten",
               "scan", "fuse", "dedup", "sort", "sorted", "rev_iter"}
    PRESERVE = {"iter", "into_iter", "enumerate", "zip", "copied", "cloned", "by_ref", "map", "inspect", "peekable", "as_ref", "as_slice", "deref", "borrow", "to_vec", "clone", "into", "from"}
    chains = [f.sym_operand(t["args"][0]) for b_, t in f.calls() if flow.callee_name(t).endswith("::into_iter") and t["args"]]
    chains += [f.sym_operand(t["args"][0]) for t in consumers if t["args"]]
    verdict = None
    for c in chains:
        names = [sub[1].split("::")[-1].split("<")[0] for sub in sym_walk(c) if sub[0] == "call"]
        roots = [sub for sub in sym_walk(c) if sub[0] == "param"]
        if not roots:
            continue                     # an iterator over something else (not the transaction sequence)
        hit = sorted(set(names) & REORDER)
        if hit:
            verdict = ("bad", "the transactions are iterated through %s: not every transaction is applied in order" % "/".join(hit))
            break
        if set(names) <= PRESERVE and verdict is None:
            verdict = ("ok", "the sequence parameter is iterated through %s (no reordering/skipping adaptor)" % (".".join(reversed(names)) or "into_iter"))
    for t in consumers:
        cn = flow.callee_name(t).split("::")[-1]
        if cn not in ("try_for_each", "try_fold") and verdict and verdict[0] == "ok":
            verdict = None               # the consumer may ignore errors or stop early in ways not modelled
    if verdict and verdict[0] == "ok":
        res.ok("in-order", "R-PROV", verdict[1])
    elif verdict:
        res.violation("iteration-order", verdict[1], where=where, rule="R-PROV")
    else:
        res.count("clauses not decided (loop form is value-dependent): iteration order")
        res.notes.append("iteration-order clause not decided: validate_txs does not drive the loop with an iterator over the sequence parameter")
    res.sample({"function": f.path, "state_param": "_%d" % cparam, "working_copy": "_%s" % wc, "writes": len(writes), "validate_tx_calls": len(vt)})
    res.assumptions += ["safe Rust: a callee cannot reach the caller's CertState without being handed the reference (no unsafe in validate_txs)"]
    if f.b.get("unsafe"):
        res.violation("unsafe", "validate_txs is unsafe: the ownership argument does not apply", rule="R-FRAME")
    return finish(res,
                  explanation="Ownership argument over the MIR of validate_txs: the only read of the caller's state is the snapshot clone, it is never lent, "
                              "and the single write-back is placed after the loop on the all-success path; hence failure leaves it untouched and success installs the sequentially updated copy.",
                  rule_text="R-FRAME(read once, never lent, written once) + R-PROV(write source, validate_tx argument) + R-ORDER(write after loop, not on error paths)",
                  trusted_base=["rustc MIR", "Rust aliasing rules"], checker_cmd="./check C39 --tier %s" % tier)
