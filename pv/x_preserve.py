"""Encoding-preservation classes of Rust types and type-tree walks over ADT field types (used by rules/C06.py).

A field type is read as a tree (pv.x_codec.parse_type: lifetimes and references stripped).  Every node gets one class:

  raw          a wrapper that keeps the original bytes of what it decoded and replays them on encode
               (pallas_codec::utils::KeepRaw, AnyCbor — their capture/replay is what C03 clauses (a),(b),(e) decide)
  preserving   a collection enum that records whether the definite or the indefinite form (and, for maps, which entry order)
               was read and writes the same form back (MaybeIndefArray, KeyValuePairs, NonEmptyKeyValuePairs — C03 clause (c))
  lossy        a collection whose decoder accepts more encodings than its encoder emits, so the form read is forgotten:
               for std types this is *derived from the oracle* spec/minicbor_duality.json (a `sequence_of` / `map_of` type
               whose `decode` head set is a strict superset of its `encode` head set: Vec, BTreeMap, ...); for pallas_codec
               types it is listed in tables/keepraw_fields.json with the reason (Set, NonEmptySet: the 258 tag is optional
               on input and always written, the array form is not recorded)
  transparent  a wrapper that adds no collection of its own (oracle: `encode` = [`param:0`, ...]; listed codec wrappers
               Nullable, CborWrap, TagWrap, ZeroOrOneArray), tuples and fixed arrays
  phantom      carries no data
  adt          a type defined in the analysed crate (its fields are looked into by the closure walk)
  leaf         anything else without type arguments (scalars, hashes, byte strings)
  unclassified a generic type of another crate that is in none of the lists: fail closed
"""
import re

from .x_codec import type_str, spec


def short(ts):
    """pallas_primitives::conway::model::Block -> conway::Block ; alloc::vec::Vec -> Vec"""
    if isinstance(ts, tuple):
        ts = type_str(ts)

    def one(m):
        p = m.group(0).split("::")
        if p[0] == "pallas_primitives" and len(p) >= 3:
            q = [x for x in p[1:] if x != "model"]
            return "::".join(q[-2:]) if len(q) >= 2 else q[-1]
        return p[-1]
    return re.sub(r"[A-Za-z_][A-Za-z0-9_]*(?:::[A-Za-z_][A-Za-z0-9_]*)+", one, ts)


class Classes:
    def __init__(self, table, crate_prefix, adts):
        c = table.get("classes", {})
        self.raw = set(c.get("raw", {}))
        self.pres = set(c.get("preserving", {}))
        self.lossy_listed = set(c.get("lossy", {}))
        self.transparent_listed = set(c.get("transparent", {}))
        self.phantom = set(c.get("phantom", {}))
        self.leaf_listed = set(c.get("leaf", {}))
        self.crate_prefix = crate_prefix
        self.adts = adts
        self.oracle_lossy = set()
        self.oracle_transparent = set()
        for name, e in spec()["rust_types"].items():
            if not isinstance(e, dict) or "encode" not in e:
                continue
            if ("sequence_of" in e or "map_of" in e) and set(e["decode"]) > set(e["encode"]):
                self.oracle_lossy.add(name)
            if any(x.startswith("param:") for x in e["encode"]):
                self.oracle_transparent.add(name)

    def type_args(self, t):
        """the arguments of an ADT node that are types (const arguments such as the 28 of Hash<28> are dropped)"""
        out = []
        for a in t[2]:
            if a[0] in ("param", "other") and (not a[1] or a[1].lstrip("-").isdigit() or a[1] in ("true", "false")):
                continue
            out.append(a)
        return out

    def cls(self, t):
        k = t[0]
        if k in ("prim", "param", "other"):
            return "leaf"
        if k in ("tuple", "array"):
            return "transparent"
        if k == "slice":
            return "lossy"
        p = t[1]
        if p in self.raw:
            return "raw"
        if p in self.pres:
            return "preserving"
        if p in self.phantom:
            return "phantom"
        if p in self.lossy_listed or p in self.oracle_lossy:
            return "lossy"
        if p in self.transparent_listed or p in self.oracle_transparent:
            return "transparent"
        if p in self.leaf_listed:
            return "leaf"
        if p.startswith(self.crate_prefix) and p in self.adts:
            return "adt"
        if not self.type_args(t):
            return "leaf"
        return "unclassified"

    def children(self, t):
        k = t[0]
        if k == "tuple":
            return list(t[1])
        if k in ("array", "slice"):
            return [t[1]]
        if k == "adt":
            return self.type_args(t)
        return []

    def occurrences(self, t, anc=()):
        """yield (node, ancestors) for every node of the tree; ancestors = ((class, path-or-kind), ...) from the root"""
        yield t, anc
        me = (self.cls(t), t[1] if t[0] == "adt" else t[0])
        for ch in self.children(t):
            yield from self.occurrences(ch, anc + (me,))


def fields_of(adt):
    """[(fieldkey, variant name, field name, type string)]; fieldkey = `field` for structs, `Variant.field` for enums"""
    out = []
    is_enum = adt.get("kind") == "Enum"
    for v in adt["variants"]:
        for f in v["fields"]:
            fk = "%s.%s" % (v["name"], f["name"]) if is_enum else f["name"]
            out.append((fk, v["name"], f["name"], f["ty"]))
    return out
