"""C11 — Ed25519 (structural clauses; no signature is ever computed).

 (a) R-CTORS  who may construct `SecretKeyExtended`.  Every construction site in pallas-crypto is classified by the provenance
              of the key bytes: a copy of an existing key (Clone), constant bytes in a non-public helper (`zero`), an `unsafe fn`
              (the documented unchecked constructor), or caller/derived bytes.  For the last class, every returning path on which the
              constructed value reaches the caller is *evaluated* over all 256x256 values of scalar octets 0 and 31: the path may be
              feasible only where the RFC 8032 pruning predicate (spec/ed25519_clamp.json) holds.  Guards may be spelled as a call to a
              predicate over the candidate (any name — its own table is evaluated the same way), as inline mask tests, early
              return or if/else.  The tuple field is private, so no other crate can construct the type.
 (b) R-TABLE  a validating predicate exists and its table over the byte domain EQUALS the pruning predicate (bits 0,1,2 of octet 0
              clear; bit 7 of octet 31 clear, bit 6 set) — not weaker, not stronger.
 (c) clamp    every public, safe function that returns a key built from non-caller bytes (key generation from an RNG) applies
              octet writes after the last fill such that, for every initial octet value, the final octets satisfy the predicate
              (the three masked writes, in any spelling/combination).
 (d) R-PROV   `PublicKey::verify` returns the library verdict itself (evaluated for verdict false/true) over (message, self, signature);
              `sign` passes the caller's message and the key's own bytes to the library and returns its output; `public_key` returns
              the public half the library derives from the key's own bytes."""
import json
import os
import re
from pv import flow
from pv.program import Program
from pv.report import Result, finish
from pv.tabulate import tabulate
from pv.mir import sym_str, sym_walk, pl_local
from pv.facts import VERIF
from pv.x_misc import Ev, Unknown, sg, strip, where, field_vis, call_is_mut_receiver, contains_call

MOD = "pallas_crypto::key::ed25519::"
SKE = MOD + "SecretKeyExtended"


class Bytes:
    """Evaluation of terms over (octet0, octet31) of a key rooted at `is_root`."""

    def __init__(self, P, spec):
        self.P = P
        self.first = spec["scalar_first_octet"]
        self.last = spec["scalar_last_octet"]
        self.spec = spec
        self._pred = {}

    def want(self, b0, b31):
        s = self.spec
        return (b0 & s["first_octet_clear_mask"]) == 0 and (b31 & s["last_octet_clear_mask"]) == 0 and \
            (b31 & s["last_octet_set_mask"]) == s["last_octet_set_mask"]

    @staticmethod
    def key_bytes(base, is_root):
        b = strip(base)
        if is_root(b):
            return True
        if b[0] == "field" and str(b[2]) == "0" and is_root(strip(b[1])):
            return True
        return False

    def byte_index(self, s, is_root):
        if s[0] == "index" and self.key_bytes(s[1], is_root):
            ix = s[2]
            if ix[0] == "const":
                return int(ix[1])
            return "?"
        if s[0] == "cindex" and self.key_bytes(s[1], is_root) and not s[3]:
            return int(s[2])
        return None

    def deps(self, sym, is_root):
        """Set of octet indices the term depends on; None when it has another kind of leaf."""
        out = set()

        def rec(s):
            i = self.byte_index(s, is_root)
            if i is not None:
                if i == "?":
                    return False
                out.add(i)
                return True
            k = s[0]
            if k == "const":
                return True
            if k in ("bin",):
                return rec(s[2]) and rec(s[3])
            if k == "un":
                return rec(s[2])
            if k in ("cast", "ref", "deref"):
                return rec(s[1])
            if k == "field" and s[1][0] == "bin":
                return rec(s[1])
            if k == "call":
                g = self.P.fns.get(s[1])
                if g is not None and len(s[2]) == 1 and self.key_bytes(s[2][0], is_root) and self.pred(g) is not None:
                    out.update((self.first, self.last))
                    return True
                return False
            return False
        return out if rec(sym) else None

    def ev(self, sym, b0, b31, is_root):
        def leaf(s):
            i = self.byte_index(s, is_root)
            if i is not None:
                if i == self.first:
                    return b0
                if i == self.last:
                    return b31
                raise Unknown(s)
            if s[0] == "call":
                g = self.P.fns.get(s[1])
                if g is not None and len(s[2]) == 1 and self.key_bytes(s[2][0], is_root):
                    t = self.pred(g)
                    if t is not None:
                        return t[(b0, b31)]
            raise Unknown(s)
        return Ev(leaf, bits=8)(sym)

    def path_rows(self, p, is_root, use_ret=False):
        """f(b0,b31) -> (feasible, ret value or None).  Conditions with foreign leaves are treated as unconstrained
        (feasible both ways); returns also the list of such conditions."""
        conds = []
        foreign = []
        for c in p.conds:
            d = self.deps(c[0], is_root)
            if d is None or not d <= {self.first, self.last}:
                foreign.append(c)
                continue
            conds.append((c, d, {}))

        def truth(c, d, memo, b0, b31):
            k = (b0 if self.first in d else None, b31 if self.last in d else None)
            if k not in memo:
                v = self.ev(c[0], b0, b31, is_root)
                if c[1][0] == "eq":
                    memo[k] = (v == int(c[1][1]))
                else:
                    memo[k] = v not in [int(x) for x in c[1][1]]
            return memo[k]

        def f(b0, b31):
            return all(truth(c, d, m, b0, b31) for c, d, m in conds)
        return f, foreign

    def pred(self, g):
        """Truth table {(b0,b31): 0/1} of a bool-returning function of one key/bytes argument; None if it is not such a function."""
        if g.path in self._pred:
            return self._pred[g.path]
        self._pred[g.path] = None
        sig = g.b.get("sig") or ""
        if not re.search(r"->\s*bool$", sig) or g.argc != 1:
            return None
        is_root = lambda s: s[0] == "param" and s[1] == 1
        try:
            paths = [p for p in tabulate(g, self.P, 256) if p.end == "return"]
        except Exception:
            return None
        if not paths:
            return None
        rows = []
        for p in paths:
            f, foreign = self.path_rows(p, is_root)
            if foreign:
                return None
            rd = self.deps(p.ret, is_root) if p.ret is not None else None
            if rd is None or not rd <= {self.first, self.last}:
                return None
            rows.append((f, p.ret, rd, {}))
        table = {}
        try:
            for b0 in range(256):
                for b31 in range(256):
                    val = None
                    for f, ret, rd, memo in rows:
                        if f(b0, b31):
                            k = (b0 if self.first in rd else None, b31 if self.last in rd else None)
                            if k not in memo:
                                memo[k] = 1 if self.ev(ret, b0, b31, is_root) else 0
                            val = memo[k]
                            break
                    if val is None:
                        return None
                    table[(b0, b31)] = val
        except Unknown:
            return None
        self._pred[g.path] = table
        return table


def describe_diff(B, table):
    """Human description of how a predicate table differs from the spec predicate."""
    acc_bad = next(((a, b) for (a, b), v in table.items() if v and not B.want(a, b)), None)
    rej_good = next(((a, b) for (a, b), v in table.items() if not v and B.want(a, b)), None)
    parts = []
    if acc_bad:
        parts.append("accepts octet0=0x%02x octet31=0x%02x, which is not pruned" % acc_bad)
    if rej_good:
        parts.append("rejects octet0=0x%02x octet31=0x%02x, which is correctly pruned" % rej_good)
    return "; ".join(parts)


def classify_bytes(f, sym):
    s = strip(sym)
    if s[0] == "repeat" or s[0] == "const" or (s[0] == "agg" and s[1] == "array" and all(x[0] == "const" for x in s[3])):
        return "constant", None
    ch = flow.origin_chain(sym)
    if ch is not None and ch[0][0] == "param":
        ty = f.local_ty(ch[0][1])
        if re.search(r"key::ed25519::SecretKeyExtended$", ty.replace("&", "").replace("mut ", "").strip()) or ty.endswith("SecretKeyExtended"):
            return "existing-key", None
        return "caller-bytes", ch[0][1]
    return "derived-bytes", None


def run(tier):
    res = Result("C11", tier, level="other")
    P = Program(crates=["pallas_crypto"])
    spec = json.load(open(os.path.join(VERIF, "spec", "ed25519_clamp.json")))
    B = Bytes(P, spec)
    ske = P.adt(SKE)
    if ske is None:
        res.violation("anchor:SecretKeyExtended", "type %s not found" % SKE, rule="anchor")
        return finish(res, "anchor lost", "fail closed")
    # -- field privacy
    vis = field_vis(P, SKE, "0")
    if vis is not None and str(vis).startswith("Restricted"):
        res.ok("field-private", "R-CTORS", "tuple field visibility %s: only this module can construct the type" % vis)
    else:
        res.violation("field-private", "SecretKeyExtended's tuple field is %s: any code can build a key from arbitrary bytes without the pruning check" % vis, rule="R-CTORS")

    # -- (b) validators: predicates over the key whose table equals the spec
    validators, near = {}, {}
    for g in P.fns.values():
        if not g.path.startswith(MOD) or g.kind == "Closure":
            continue
        t = B.pred(g)
        if t is None:
            continue
        if all(bool(v) == B.want(a, b) for (a, b), v in t.items()):
            validators[g.path] = t
        elif any(t.values()) and not all(t.values()):
            near[g.path] = t
    res.count("byte-predicates over the key (tabulated over 256x256)", len(validators) + len(near))
    for gp, t in near.items():
        g = P.fns[gp]
        if re.search(r"SecretKeyExtended", g.b.get("sig") or "") or re.search(r"\[u8; 64\]", g.b.get("sig") or ""):
            res.violation("validator:%s=>%s" % (g.name, "weaker" if any(v and not B.want(a, b) for (a, b), v in t.items()) else "stronger"),
                          "%s is a structure check over the extended key but is not the RFC 8032 pruning predicate: %s" % (gp, describe_diff(B, t)), where=where(g), rule="R-TABLE")
    if validators:
        res.ok("validator:exists", "R-TABLE", "%s == (octet0 & 7 == 0) && (octet31 & 0x80 == 0) && (octet31 & 0x40 == 0x40) on all 65536 octet pairs" % ", ".join(sorted(v.split(MOD)[-1] for v in validators)))

    # -- (a) construction sites
    n_sites = 0
    raw_fns = set()
    checked_sites = 0
    for f in P.fns.values():
        if f.crate != "pallas_crypto" or "::tests::" in f.path:
            continue
        aggs = flow.aggregates(f, "^" + re.escape(SKE) + "$")
        if not aggs:
            continue
        for bi, si, rv in aggs:
            n_sites += 1
            fsym = f.sym_operand(rv["fields"][0])
            cls, pidx = classify_bytes(f, fsym)
            key = "ctor:%s:%s" % (f.path.split("pallas_crypto::key::")[-1], cls)
            if f.b.get("unsafe"):
                res.ok(key, "R-CTORS", "unsafe fn: the documented unchecked constructor")
                continue
            if cls == "existing-key":
                res.ok(key, "R-CTORS", "bytes copied from an existing SecretKeyExtended")
                continue
            if cls == "constant":
                if str(f.b.get("vis")) == "Public":
                    res.violation(key + ":public", "%s is public and returns a SecretKeyExtended made of constant bytes without pruning" % f.path, where=where(f), rule="R-CTORS")
                else:
                    raw_fns.add(f.path)
                    res.ok(key, "R-CTORS", "constant bytes in a non-public helper; its public callers are checked for the clamp writes")
                continue
            # caller / derived bytes: evaluate every returning path that hands the value out
            checked_sites += 1
            is_root = (lambda s, pidx=pidx: (s[0] == "param" and s[1] == pidx) or (s[0] == "agg" and str(s[1]) == SKE)) if pidx is not None else \
                      (lambda s: s[0] == "agg" and str(s[1]) == SKE)
            bad = None
            n_out = 0
            for p in tabulate(f, P, 1024):
                if p.end != "return" or p.ret is None:
                    continue
                if not any(s[0] == "agg" and str(s[1]) == SKE for s in sym_walk(p.ret)):
                    # the value may also leave through a local the tabulator lost track of
                    if not (p.ret[0] == "local" and re.search(r"SecretKeyExtended", f.local_ty(p.ret[1]))):
                        continue
                n_out += 1
                feas, foreign = B.path_rows(p, is_root)
                w = next(((a, b) for a in range(256) for b in range(256) if not B.want(a, b) and feas(a, b)), None)
                if w is not None:
                    bad = w
                    break
            if bad is not None:
                res.violation(key + "=>unvalidated", "%s hands out a SecretKeyExtended built from %s on a path that is taken for octet0=0x%02x octet31=0x%02x, which is not a "
                              "pruned scalar (no dominating structure check)" % (f.path, cls.replace("-", " "), bad[0], bad[1]), where="%s:%s" % (f.file, rv and f.blocks[bi]["st"][si][3][0]), rule="R-CTORS")
            elif n_out == 0:
                res.violation(key + "=>untracked", "cannot follow the SecretKeyExtended constructed in %s to a return value" % f.path, where=where(f), rule="R-CTORS")
            else:
                res.ok(key, "R-CTORS", "every path handing out the value is feasible only for pruned octets (%d path(s), evaluated over the byte domain)" % n_out)
    res.floor("SecretKeyExtended construction sites", n_sites, 2)
    res.floor("checked from-bytes construction sites", checked_sites, 1)

    # -- (c) key generation: propagate rawness through non-public helpers, check public ones
    n_gen = 0
    work = list(raw_fns)
    seen = set(work)
    while work:
        rp = work.pop()
        for g, bi, t in P.callers_of("^" + re.escape(rp) + "$"):
            if g.path in seen or g.crate != "pallas_crypto" or "::tests::" in g.path:
                continue
            seen.add(g.path)
            if not re.search(r"->\s*(pallas_crypto::key::ed25519::SecretKeyExtended|Self)$", g.b.get("sig") or ""):
                continue
            if g.b.get("unsafe"):
                continue
            if str(g.b.get("vis")) != "Public":
                work.append(g.path)
                continue
            n_gen += 1
            check_generation(res, P, B, g, rp)
    res.floor("public key-generation functions", n_gen, 1)

    # -- (e) conversions store the caller's bytes unmodified
    check_stored_bytes(res, P)

    # -- (d) verify / sign / public_key
    check_verify(res, P)
    check_sign(res, P)
    res.trusted += ["spec/ed25519_clamp.json (RFC 8032 5.1.5)", "cryptoxide::ed25519 (the arithmetic and its agreement with RFC 8032)"]
    res.assumptions += ["agreement of signatures / verification verdicts with an RFC 8032 reference is cryptoxide's; only the wiring is decided here"]
    return finish(res,
                  explanation="Decides the structural clauses of C11: SecretKeyExtended is constructible from caller bytes only on paths that are feasible "
                              "exactly for pruned scalar octets (evaluated over all 65536 values of octets 0 and 31, against the RFC 8032 pruning predicate), "
                              "the only unchecked constructor is an unsafe fn, the field is private, the validating predicate's table equals the RFC predicate, "
                              "key generation ends with octet writes that establish the predicate for every initial value, verify returns the library verdict "
                              "unnegated and sign/public_key pass the caller's message and the key's own bytes. NOT decided: that cryptoxide's signatures, "
                              "public keys and verdicts agree with RFC 8032.",
                  rule_text="R-CTORS(SecretKeyExtended) + R-TABLE(structure predicate == RFC 8032 pruning) + clamp writes + R-FRAME(conversions store caller bytes unmodified) + R-PROV(verify, sign, public_key)",
                  trusted_base=["rustc MIR", "spec/ed25519_clamp.json", "cryptoxide"])


def check_generation(res, P, B, g, raw_path):
    key = "keygen:%s" % g.path.split("pallas_crypto::key::")[-1]
    ok_paths = 0
    for p in tabulate(g, P, 512):
        if p.end != "return":
            continue
        # the key local: destination of the raw constructor call
        kl = None
        for callee, args, bb in p.calls:
            if callee == raw_path:
                d = g.blocks[bb]["term"]["dest"]
                kl = pl_local(d)
        if kl is None:
            continue

        def base_is_key(b):
            b = strip(b)
            return (b[0] == "local" and b[1] == kl) or (b[0] == "call" and b[1] == raw_path)
        store = {}
        bad = None
        for pl, val in p.writes:
            if pl[0] == "index" and strip(pl[1])[0] == "field" and base_is_key(strip(pl[1])[1]) and pl[2][0] == "const":
                idx = int(pl[2][1])
                store.setdefault(idx, []).append(val)
            elif any(base_is_key(s) for s in sym_walk(pl) if s[0] in ("local", "call")):
                bad = "a write to the key that is not a constant-index octet write (%s)" % sym_str(pl, 60)
        final = {}
        for idx in (B.first, B.last):
            vals = []
            for b in range(256):
                cur = b
                try:
                    for v in store.get(idx, []):
                        def leaf(s, cur=cur, idx=idx):
                            if s[0] == "index" and s[2][0] == "const" and int(s[2][1]) == idx and strip(s[1])[0] == "field" and base_is_key(strip(s[1])[1]):
                                return cur
                            raise Unknown(s)
                        cur = Ev(leaf, bits=8)(v) & 0xFF
                except Unknown:
                    bad = "an octet write whose value is not a function of that octet"
                    break
                vals.append(cur)
            final[idx] = vals
        if bad is None:
            w = next(((a, b) for a in range(256) for b in range(256) if not B.want(final[B.first][a], final[B.last][b])), None)
            if w is not None:
                bad = "for initial octets 0x%02x / 0x%02x the generated key has octet0=0x%02x octet31=0x%02x, which is not pruned" % (
                    w[0], w[1], final[B.first][w[0]], final[B.last][w[1]])
        # ordering: no fill of the key after the clamp writes
        if bad is None:
            wblocks = [bi for bi, si, s in g.statements() if s[0] == "a" and not isinstance(s[1], int) and pl_local(s[1]) == kl and any(e[0] == "index" for e in s[1][1])]
            for bi, t in g.calls():
                for i, a in enumerate(t["args"]):
                    ch = flow.origin_chain(g.sym_operand(a))
                    if ch is not None and ch[0] == ("local", kl) and call_is_mut_receiver(g, bi, i):
                        if any(wb == bi or g.can_reach(wb, bi) for wb in wblocks):
                            bad = "the key bytes are overwritten by %s after the clamp writes" % sg(t.get("f") or t.get("g") or "?")
        if bad:
            res.violation(key + "=>" + re.sub(r"0x[0-9a-f]{2}", "0xNN", re.sub(r"[^A-Za-z0-9_ ]", "", bad))[:60], "%s: %s" % (g.path, bad), where=where(g), rule="clamp")
            return
        ok_paths += 1
    if ok_paths:
        res.ok(key, "clamp", "for every initial octet value the final octets 0 and 31 satisfy the pruning predicate; no fill after the writes")
    else:
        res.violation(key + "=>untracked", "cannot follow the generated key in %s" % g.path, where=where(g), rule="clamp")


def check_verify(res, P):
    f = P.one(r"^pallas_crypto::key::ed25519::PublicKey::verify$")
    paths = [p for p in tabulate(f, P, 256) if p.end == "return"]
    lib = None
    for p in paths:
        for callee, args, bb in p.calls:
            if sg(callee) == "cryptoxide::ed25519::verify":
                lib = (callee, args)
    if lib is None:
        res.violation("verify:library-call", "PublicKey::verify does not call cryptoxide::ed25519::verify", where=where(f), rule="R-PROV")
        return
    a = lib[1]
    okargs = flow.origin_chain(a[0]) == (("param", 2), []) and flow.origin_chain(a[1]) == (("param", 1), ["0"]) and flow.origin_chain(a[2]) == (("param", 3), ["0"])
    if okargs:
        res.ok("verify:arguments", "R-PROV", "ed25519::verify(message, self.0, signature.0)")
    else:
        res.violation("verify:arguments", "PublicKey::verify passes (%s) to the library instead of (message, own key bytes, signature bytes)" % ", ".join(sym_str(x, 40) for x in a),
                      where=where(f), rule="R-PROV")
    bad = None
    for verdict in (0, 1):
        def leaf(s, verdict=verdict):
            if s[0] == "call" and sg(s[1]) == "cryptoxide::ed25519::verify":
                return verdict
            raise Unknown(s)
        ev = Ev(leaf, prog=P)
        from pv.x_misc import feasible
        outs = set()
        for p in paths:
            fz = feasible(p, ev)
            if fz is False:
                continue
            try:
                outs.add(int(bool(ev(p.ret))))
            except Unknown:
                outs.add("?")
        if outs != {verdict}:
            bad = "returns %s when the library verdict is %s" % (sorted(outs, key=str), bool(verdict))
    if bad:
        res.violation("verify:polarity", "PublicKey::verify " + bad, where=where(f), rule="R-PROV")
    else:
        res.ok("verify:polarity", "R-PROV", "the returned bool equals the library verdict (evaluated for false and true)")


def check_sign(res, P):
    specs = [("SecretKey::sign", r"^cryptoxide::ed25519::signature$", "keypair"),
             ("SecretKeyExtended::sign", r"^cryptoxide::ed25519::signature_extended$", "direct")]
    for name, rx, how in specs:
        f = P.one(r"^pallas_crypto::key::ed25519::%s$" % name)
        key = "sign:%s" % name
        okp, why = False, "no call of the library signing function"
        for p in tabulate(f, P, 256):
            if p.end != "return":
                continue
            cs = [(c, a, b) for c, a, b in p.calls if re.search(rx, sg(c))]
            if len(cs) != 1:
                okp, why = False, "%d calls of the library signing function on a path" % len(cs)
                break
            c, a, b = cs[0]
            msg_ok = flow.origin_chain(a[0]) == (("param", 2), [])
            k = strip(a[1])
            if how == "direct":
                key_ok = flow.origin_chain(a[1]) == (("param", 1), ["0"])
            else:
                key_ok = k[0] == "field" and str(k[2]) == "0" and strip(k[1])[0] == "call" and sg(strip(k[1])[1]) == "cryptoxide::ed25519::keypair" and \
                    flow.origin_chain(strip(k[1])[2][0]) == (("param", 1), ["0"])
            out_ok = any(s[0] == "call" and s[1] == c and s[3] == b for s in sym_walk(p.ret))
            if not msg_ok:
                okp, why = False, "the signed message is %s, not the caller's message" % sym_str(a[0], 60)
                break
            if not key_ok:
                okp, why = False, "the signing key is %s, not derived from the key's own bytes" % sym_str(a[1], 60)
                break
            if not out_ok:
                okp, why = False, "the returned Signature is not the library's output"
                break
            okp, why = True, "library(message, own key) -> Signature"
        if okp:
            res.ok(key, "R-PROV", why)
        else:
            res.violation(key, "%s: %s" % (f.path, why), where=where(f), rule="R-PROV")
    for name, rx in (("SecretKey::public_key", r"^cryptoxide::ed25519::keypair$"), ("SecretKeyExtended::public_key", r"^cryptoxide::ed25519::extended_to_public$")):
        f = P.one(r"^pallas_crypto::key::ed25519::%s$" % name)
        key = "public_key:%s" % name
        okp = False
        for p in tabulate(f, P, 256):
            if p.end != "return":
                continue
            okp = False
            for s in sym_walk(p.ret):
                if s[0] == "call" and re.search(rx, sg(s[1])) and s[2] and flow.origin_chain(s[2][0]) == (("param", 1), ["0"]):
                    okp = True
            if not okp:
                break
        if okp:
            res.ok(key, "R-PROV", "public key derived by the library from the key's own bytes")
        else:
            res.violation(key, "%s does not return the public key the library derives from the key's own bytes" % f.path, where=where(f), rule="R-PROV")


KEY_TYPES = [MOD + "Signature", MOD + "PublicKey", MOD + "SecretKey", SKE]
BYTES_PARAM = re.compile(r"^(&(?:'\w+ )?)?(\[u8(; [^\]]+)?\]|str)$")
FILLERS = re.compile(r"^core::slice::(copy_from_slice|clone_from_slice)$|^hex::decode_to_slice$")


def check_stored_bytes(res, P):
    n_fn = 0
    for f in P.fns.values():
        if not f.path.startswith(MOD) and not f.path.startswith("<" + MOD):
            continue
        if "::tests::" in f.path or f.kind == "Closure":
            continue
        bparams = [i for i in range(1, f.argc + 1) if BYTES_PARAM.match(f.local_ty(i))]
        if not bparams:
            continue
        key_locals = [i for i, l in enumerate(f.locals) if i > f.argc and l["ty"] in KEY_TYPES]
        aggs = [(bi, si, rv) for T in KEY_TYPES for bi, si, rv in flow.aggregates(f, "^" + re.escape(T) + "$")]
        if not aggs and not key_locals:
            continue
        n_fn += 1
        key = "stored-bytes:%s" % f.path.split("pallas_crypto::key::")[-1]
        bad = None
        # (1) arrays moved into the value
        for bi, si, rv in aggs:
            src = f.sym_operand(rv["fields"][0])
            root = src
            while root[0] in ("ref", "deref", "cast") or (root[0] == "call" and re.search(r"::clone$", sg(root[1])) and len(root[2]) == 1):
                root = root[1] if root[0] != "call" else root[2][0]
            if root[0] == "param":
                continue                      # stable parameter (never reassigned, written through or mutably borrowed)
            if root[0] == "local" and 1 <= root[1] <= f.argc:
                bad = "the parameter `%s` is modified before it is stored" % (f.local_name(root[1]) or "_%d" % root[1])
                break
            if root[0] == "local":
                # a working buffer: it must itself be filled only from the caller's data
                key_locals.append(root[1])
                continue
            if root[0] in ("repeat", "const"):
                continue                      # constant initial value (zero()), filled afterwards: checked below
            if not any(x[0] == "param" and x[1] in bparams for x in sym_walk(src)):
                continue                      # not caller bytes (library result)
            bad = "the stored bytes are %s, not the caller's bytes as given" % sym_str(src, 70)
            break
        # (2) values filled in place
        if bad is None:
            for L in sorted(set(key_locals)):
                for bi2, si2, st in f.statements():
                    if st[0] == "a" and not isinstance(st[1], int):
                        ch = flow.origin_chain(f.sym_place(st[1]))
                        if ch is not None and ch[0] == ("local", L) and any(e[0] in ("index", "cindex", "subslice") for e in st[1][1]):
                            bad = "an element of the stored bytes is overwritten with %s" % sym_str(f.sym_rvalue(st[2], 12), 60)
                            break
                if bad:
                    break
                for bi2, t in f.calls():
                    for i, a in enumerate(t["args"]):
                        ch = flow.origin_chain(f.sym_operand(a))
                        if ch is None or ch[0] != ("local", L) or not call_is_mut_receiver(f, bi2, i):
                            continue
                        name = sg(t.get("f") or t.get("g") or "")
                        others = [f.sym_operand(x) for j, x in enumerate(t["args"]) if j != i]
                        if FILLERS.search(name) and any(y[0] == "param" and y[1] in bparams for o in others for y in sym_walk(o)) and \
                                all(flow.origin_chain(o) is not None for o in others):
                            continue
                        bad = "the stored bytes are also written by %s(%s)" % (name, ", ".join(sym_str(o, 30) for o in others))
                        break
                    if bad:
                        break
                if bad:
                    break
        if bad:
            res.violation(key, "%s takes caller bytes but does not store them as given: %s" % (f.path, bad), where=where(f), rule="R-FRAME")
        else:
            res.ok(key, "R-FRAME", "the caller's bytes are stored unmodified")
    res.floor("conversions from caller bytes", n_fn, 4)
