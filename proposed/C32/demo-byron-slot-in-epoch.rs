// Demonstration for finding C32/byron-slot-in-epoch.
// Place as pallas-traverse/tests/c32_byron_slot_in_epoch.rs (integration test, public API only) and run
//   cargo test --offline -p pallas-traverse --test c32_byron_slot_in_epoch
// Fails on the unfixed tree (mainnet slot 21600 gives (1, 21600)), passes with fix-byron-slot-in-epoch.diff.
use pallas_traverse::wellknown::GenesisValues;

fn networks() -> Vec<(&'static str, GenesisValues)> {
    vec![
        ("mainnet", GenesisValues::mainnet()),
        ("testnet", GenesisValues::testnet()),
        ("preview", GenesisValues::preview()),
        ("preprod", GenesisValues::preprod()),
    ]
}

#[test]
fn byron_slot_in_epoch_is_smaller_than_the_epoch_size_in_slots_and_round_trips() {
    for (name, g) in networks() {
        // a Byron epoch lasts byron_epoch_length seconds, i.e. byron_epoch_length / byron_slot_length slots (21600)
        let epoch_slots = (g.byron_epoch_length / g.byron_slot_length) as u64;
        let probes = [
            0,
            epoch_slots - 1,
            epoch_slots,
            epoch_slots + 1,
            2 * epoch_slots - 1,
            3 * epoch_slots + 17,
        ];
        for slot in probes.into_iter().filter(|s| *s < g.shelley_known_slot) {
            let (epoch, slot_in_epoch) = g.absolute_slot_to_relative(slot);
            assert!(
                slot_in_epoch < epoch_slots,
                "{name}: slot {slot} -> (epoch {epoch}, slot-in-epoch {slot_in_epoch}), not smaller than the epoch size {epoch_slots}"
            );
            assert_eq!((epoch, slot_in_epoch), (slot / epoch_slots, slot % epoch_slots), "{name}: slot {slot}");
            assert_eq!(g.relative_slot_to_absolute(epoch, slot_in_epoch), slot, "{name}: round trip of slot {slot}");
        }
    }
}

#[test]
fn mainnet_first_slot_of_byron_epoch_one() {
    let g = GenesisValues::mainnet();
    assert_eq!(g.absolute_slot_to_relative(21600), (1, 0));
    assert_eq!(g.relative_slot_to_absolute(1, 0), 21600);
}

#[test]
fn shelley_conversions_are_unchanged() {
    let g = GenesisValues::mainnet();
    assert_eq!(g.absolute_slot_to_relative(4492800), (208, 0));
    assert_eq!(g.absolute_slot_to_relative(51580240), (316, 431440));
    assert_eq!(g.relative_slot_to_absolute(316, 431440), 51580240);
}
