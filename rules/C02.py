"""C02 — flat decoding is total on arbitrary bytes.

Decides: no panic-capable construct without a checked guard on any path of any public flat `Decoder`
method or `flat::decode::Decode` impl (R-PANIC over the closure of the module's entry points, configs
default + num-bigint)."""
import re
from pv.program import Program
from pv import panic
from pv.report import Result, finish

ENTRY_RX = r"^(pallas_codec::flat::decode::|<.* as pallas_codec::flat::decode::Decode<.*>>::decode)"

RULE = ("R-PANIC: every MIR Assert{BoundsCheck,Overflow,DivisionByZero,RemainderByZero,OverflowNeg} and every call "
        "to a panicking API in closure(flat decoder entry points) must be discharged by a dominating guard the engine "
        "verifies on the CFG (kill-checked comparison facts, bounded masks/remainders) or by a reviewed table entry "
        "whose checked guard spec (dominating successful helper call, reviewed writer/caller set) still holds")


def run(tier):
    res = Result("C02", tier, level="other")
    table = panic.load_table("panic_C02.json")
    configs = ["default", "bigint"]
    for config in configs:
        P = Program(crates=["pallas_codec"], config=config)
        entries = [f for f in P.fns.values() if re.search(ENTRY_RX, f.path)]
        closure, sites, skipped = panic.census(P, entries)
        res.count("entries[%s]" % config, len(entries))
        res.count("closure_functions[%s]" % config, len(closure))
        res.count("panic_sites[%s]" % config, len(sites))
        for k, v in skipped.items():
            res.count("skipped_%s[%s]" % (k, config), v)
        res.floor("flat-decoder entry points [%s]" % config, len(entries), 24)
        res.floor("flat-decoder panic sites [%s]" % config, len(sites), 8)   # 35 today; removing panic sites is an improvement, not a lost anchor
        for need in ("Decoder::<'b>::bool", "Decoder::<'b>::word", "Decoder::<'b>::bits8", "Decoder::<'b>::byte_array",
                     "Decoder::<'b>::ensure_bytes", "Decoder::<'b>::ensure_bits"):
            if not any(p.endswith(need) for p in closure):
                res.violation("anchor:" + need, "anchored function %s not found in the flat decoder closure" % need, rule="anchor")
        # no unsafe in the closure (the census does not judge raw-pointer checks)
        for p, (fn, _) in closure.items():
            if fn.b.get("unsafe"):
                res.violation("unsafe:" + p, "unsafe fn in the flat decoder closure; the panic census does not cover UB", rule="R-PANIC/unsafe")
        panic.check_sites(res, P, closure, sites, table, "C02")
        for s in sites[:6]:
            res.sample({"config": config, "site": s.key(), "where": s.where(), "operands": s.detail})
    res.assumptions += [
        "dev-profile panic semantics (overflow checks on), as in the pinned test suite",
        "public Decoder fields are not tampered with by the caller between calls (used_bits in 0..=7, pos <= len)",
        "std slice/Vec/String APIs not on the panicking list are total",
    ]
    return finish(res,
                  explanation="Decides the necessary-and-nearly-sufficient structural clause of C02: every panic-capable construct "
                              "reachable from the flat decoder's entry points is guard-discharged on all paths. Does not execute any decoder.",
                  rule_text=RULE,
                  trusted_base=["rustc MIR (nightly, opt-level 0, overflow checks on)", "tables/panic_C02.json (reviewed reasons)",
                                "panicking-API list in pv/panic.py"])
