// Goes to pallas-primitives/tests/costmodels_unknown_entries.rs (integration test).
// A cost-model map may carry languages pallas does not know by name (key >= 3); `decode` keeps them in `unknown`.
// They must survive encoding: (a) value round trip, (b) decode -> encode reproduces the input bytes.
use pallas_codec::minicbor;
use pallas_primitives::conway::CostModels;

#[test]
fn unknown_cost_models_round_trip() {
    let value = CostModels {
        plutus_v1: Some(vec![1, 2]),
        plutus_v2: None,
        plutus_v3: None,
        unknown: [(3u64, vec![7i64, 8, 9])].into_iter().collect(),
    };
    let bytes = minicbor::to_vec(&value).unwrap();
    let back: CostModels = minicbor::decode(&bytes).unwrap();
    assert_eq!(back, value);
}

#[test]
fn unknown_cost_models_are_isomorphic() {
    // { 0: [1, 2], 3: [7, 8, 9] }
    let bytes = hex::decode("a2008201020383070809").unwrap();
    let value: CostModels = minicbor::decode(&bytes).unwrap();
    assert_eq!(value.unknown.get(&3), Some(&vec![7i64, 8, 9]));
    assert_eq!(minicbor::to_vec(&value).unwrap(), bytes);
}

#[test]
fn known_cost_models_keep_their_encoding() {
    // { 0: [1], 2: [3] }
    let bytes = hex::decode("a2008101028103").unwrap();
    let value: CostModels = minicbor::decode(&bytes).unwrap();
    assert_eq!(minicbor::to_vec(&value).unwrap(), bytes);
}
