"""MIR helpers: CFG, dominators, symbolic value expressions (provenance)."""
from functools import lru_cache

# ---------------------------------------------------------------- places / operands

def pl_local(p):
    return p if isinstance(p, int) else p[0]


def pl_proj(p):
    return [] if isinstance(p, int) else p[1]


def op_place(o):
    if "c" in o:
        return o["c"]
    if "m" in o:
        return o["m"]
    return None


def op_const(o):
    return o.get("k")


def const_val(o):
    k = o.get("k")
    if k is not None and "v" in k:
        v = k["v"]
        return int(v) if isinstance(v, str) else v
    return None


def proj_str(proj):
    out = []
    for e in proj:
        k = e[0]
        if k == "deref":
            out.append("*")
        elif k == "field":
            out.append("." + (e[2] if e[2] is not None else str(e[1])))
        elif k == "index":
            out.append("[_%d]" % e[1])
        elif k == "cindex":
            out.append("[%s%d]" % ("-" if e[3] else "", e[1]))
        elif k == "subslice":
            out.append("[%d..%s%d]" % (e[1], "-" if e[3] else "", e[2]))
        elif k == "downcast":
            out.append(" as %s" % (e[2] if e[2] else e[1]))
        else:
            out.append("<%s>" % k)
    return "".join(out)


def place_str(p):
    return "_%d%s" % (pl_local(p), proj_str(pl_proj(p)))


_INT_RANGE = {"u8": (0, 2**8 - 1), "u16": (0, 2**16 - 1), "u32": (0, 2**32 - 1), "u64": (0, 2**64 - 1),
              "u128": (0, 2**128 - 1), "usize": (0, 2**64 - 1), "i8": (-2**7, 2**7 - 1), "i16": (-2**15, 2**15 - 1),
              "i32": (-2**31, 2**31 - 1), "i64": (-2**63, 2**63 - 1), "i128": (-2**127, 2**127 - 1),
              "isize": (-2**63, 2**63 - 1)}

# Expansion budget of symbolic values, counted in local-definition hops.  It is deliberately far above what any expression in
# the analysed crates needs: with a small budget two expansions of the *same* value that start from different temporaries
# (e.g. after a `let` binding was introduced) are cut at different points and stop being structurally equal, which made
# dominating guards unrecognisable after behaviour-preserving edits.
SYM_DEPTH = 40

# ---------------------------------------------------------------- function wrapper

class Fn:
    """One MIR body with lazily computed CFG facts."""

    def __init__(self, body, crate):
        self.b = body
        self.crate = crate
        self.path = body["path"]
        self.name = body.get("name")
        self.kind = body["kind"]
        self.file = body.get("file")
        self.line = body.get("line")
        self.mir = body["mir"]
        self._hir = None
        self.blocks = self.mir["blocks"]
        self.locals = self.mir["locals"]
        self.argc = self.mir["argc"]
        self._succ = None
        self._pred = None
        self._dom = None
        self._pdom = None
        self._defs = None

    def __repr__(self):
        return "<Fn %s>" % self.path

    @property
    def hir(self):
        if self._hir is None:
            from . import facts
            self._hir = facts.load_hir(self.crate, getattr(self, "config", "default")).get(self.path)
        return self._hir

    # -- CFG
    def term(self, bb):
        return self.blocks[bb]["term"]

    def succ(self, bb):
        if self._succ is None:
            self._succ = [self._succ_of(b["term"]) for b in self.blocks]
        return self._succ[bb]

    @staticmethod
    def _succ_of(t):
        k = t["k"]
        if k in ("goto", "drop", "assert", "yield"):
            return [t["t"]]
        if k == "call":
            return [t["t"]] if t.get("t") is not None else []
        if k == "switch":
            out = [x[1] for x in t["ts"]]
            out.append(t["o"])
            # dedup keep order
            seen = []
            for x in out:
                if x not in seen:
                    seen.append(x)
            return seen
        return []

    def pred(self, bb):
        if self._pred is None:
            self._pred = [[] for _ in self.blocks]
            for i in range(len(self.blocks)):
                for s in self.succ(i):
                    self._pred[s].append(i)
        return self._pred[bb]

    def reachable(self):
        seen = {0}
        st = [0]
        while st:
            x = st.pop()
            for s in self.succ(x):
                if s not in seen:
                    seen.add(s)
                    st.append(s)
        return seen

    def dominators(self):
        """dom[b] = set of blocks dominating b (including b)."""
        if self._dom is not None:
            return self._dom
        reach = self.reachable()
        order = self._rpo()
        allb = set(reach)
        dom = {b: set(allb) for b in reach}
        dom[0] = {0}
        changed = True
        while changed:
            changed = False
            for b in order:
                if b == 0:
                    continue
                ps = [p for p in self.pred(b) if p in reach]
                if not ps:
                    continue
                new = set.intersection(*[dom[p] for p in ps]) | {b}
                if new != dom[b]:
                    dom[b] = new
                    changed = True
        self._dom = dom
        return dom

    def _rpo(self):
        seen = set()
        out = []

        def dfs(b):
            stack = [(b, iter(self.succ(b)))]
            seen.add(b)
            while stack:
                node, it = stack[-1]
                adv = False
                for s in it:
                    if s not in seen:
                        seen.add(s)
                        stack.append((s, iter(self.succ(s))))
                        adv = True
                        break
                if not adv:
                    out.append(node)
                    stack.pop()
        dfs(0)
        out.reverse()
        return out

    def return_blocks(self):
        return [i for i, b in enumerate(self.blocks) if b["term"]["k"] == "return" and i in self.reachable()]

    def can_reach(self, src, dst, avoid=()):
        """Is dst reachable from src (following >=0 edges) without passing through blocks in `avoid`?"""
        if src in avoid:
            return False
        seen = {src}
        st = [src]
        while st:
            x = st.pop()
            if x == dst:
                return True
            for s in self.succ(x):
                if s not in seen and s not in avoid:
                    seen.add(s)
                    st.append(s)
        return False

    def reach_from(self, src, avoid=()):
        seen = set()
        st = [src]
        while st:
            x = st.pop()
            for s in self.succ(x):
                if s not in seen and s not in avoid:
                    seen.add(s)
                    st.append(s)
        return seen

    # -- definitions
    def defs(self):
        """local -> list of (bb, idx, kind, payload); idx=-1 means the block's call terminator."""
        if self._defs is not None:
            return self._defs
        d = {}
        live = set(self.live_blocks())
        for bi, b in enumerate(self.blocks):
            if bi not in live:
                continue
            for si, s in enumerate(b["st"]):
                if s[0] == "a":
                    p = s[1]
                    d.setdefault(pl_local(p), []).append((bi, si, "assign" if isinstance(p, int) else "partial", s))
                elif s[0] == "setdiscr":
                    d.setdefault(pl_local(s[1]), []).append((bi, si, "partial", s))
            t = b["term"]
            if t["k"] == "call":
                p = t["dest"]
                d.setdefault(pl_local(p), []).append((bi, -1, "call" if isinstance(p, int) else "partial", t))
        self._defs = d
        return d

    def mut_borrowed(self):
        """Locals whose own storage is mutably borrowed (`&mut l` / `&mut l.f`, not through a deref): their
        value may change after their definition, so they are never substituted by their defining expression."""
        if getattr(self, "_mutb", None) is None:
            mb = set()
            for bi, si, s in self.statements():
                if s[0] == "a":
                    rv = s[2]
                    if rv["k"] in ("ref", "rawptr") and rv.get("mut"):
                        p = rv["p"]
                        proj = pl_proj(p)
                        if not any(e[0] == "deref" for e in proj) and self.local_name(pl_local(p)):
                            mb.add(pl_local(p))
            self._mutb = mb
        return self._mutb

    def is_stable_param(self, l):
        """A parameter whose own value is never reassigned (writes *through* it, e.g. `*p = v` or `(*p).f = v`,
        do not change the parameter itself)."""
        for bi, si, kind, payload in self.defs().get(l, []):
            if kind in ("assign", "call"):
                return False
            place = payload[1] if kind == "partial" and isinstance(payload, list) else (payload.get("dest") if isinstance(payload, dict) else None)
            proj = pl_proj(place) if place is not None else []
            if not proj or proj[0][0] != "deref":
                return False
        return l not in self.mut_borrowed()

    def unique_def(self, local):
        if local in self.mut_borrowed():
            return None
        ds = self.defs().get(local, [])
        full = [x for x in ds if x[2] in ("assign", "call")]
        if len(ds) == 1 and len(full) == 1:
            return full[0]
        return None

    def local_ty(self, l):
        return self.locals[l]["ty"]

    def local_name(self, l):
        return self.locals[l].get("name")

    # -- symbolic expression of an operand / place
    def sym_operand(self, o, depth=SYM_DEPTH):
        c = o.get("k")
        if c is not None:
            if "v" in c:
                return ("const", c["v"], c["ty"])
            if "fn" in c:
                return ("fnconst", c["fn"])
            return ("constsym", c.get("sym"), c["ty"])
        p = op_place(o)
        if p is None:
            return ("unknown",)
        return self.sym_place(p, depth)

    def sym_place(self, p, depth=SYM_DEPTH):
        l = pl_local(p)
        base = self.sym_local(l, depth)
        for e in pl_proj(p):
            k = e[0]
            if k == "deref":
                if base[0] == "ref":
                    base = base[1]
                else:
                    base = ("deref", base)
            elif k == "field":
                if base[0] == "agg" and base[3] is not None and e[1] < len(base[3]):
                    base = base[3][e[1]]
                else:
                    base = ("field", base, e[2] if e[2] is not None else e[1])
            elif k == "downcast":
                base = ("downcast", base, e[2] if e[2] is not None else e[1])
            elif k == "index":
                base = ("index", base, self.sym_local(e[1], depth - 1))
            elif k == "cindex":
                base = ("cindex", base, e[1], e[3])
            elif k == "subslice":
                base = ("subslice", base, e[1], e[2], e[3])
            else:
                base = (k, base)
        return base

    def sym_local(self, l, depth=SYM_DEPTH):
        if 1 <= l <= self.argc and self.is_stable_param(l):
            return ("param", l, self.local_name(l))
        if depth <= 0:
            return ("local", l)
        ud = self.unique_def(l)
        if ud is None:
            return ("local", l, self.local_name(l))
        bi, si, kind, payload = ud
        if kind == "call":
            t = payload
            callee = t.get("f") or t.get("g") or "<indirect>"
            return ("call", callee, tuple(self.sym_operand(a, depth - 1) for a in t["args"]), bi)
        rv = payload[2]
        return self.sym_rvalue(rv, depth - 1, (bi, si))

    def sym_rvalue(self, rv, depth, where=None):
        k = rv["k"]
        if k == "use":
            return self.sym_operand(rv["x"], depth)
        if k == "ref" or k == "rawptr":
            return ("ref", self.sym_place(rv["p"], depth))
        if k == "cast":
            inner = self.sym_operand(rv["x"], depth)
            if inner[0] == "const" and rv["ck"] == "IntToInt" and rv["to"] in _INT_RANGE:
                try:
                    v = int(inner[1])
                    lo, hi = _INT_RANGE[rv["to"]]
                    if lo <= v <= hi:
                        return ("const", v, rv["to"])
                except (TypeError, ValueError):
                    pass
            return ("cast", inner, rv["from"], rv["to"], rv["ck"])
        if k == "bin":
            return ("bin", rv["op"], self.sym_operand(rv["l"], depth), self.sym_operand(rv["r"], depth))
        if k == "un":
            return ("un", rv["op"], self.sym_operand(rv["x"], depth))
        if k == "discr":
            return ("discr", self.sym_place(rv["p"], depth))
        if k == "agg":
            ak = rv["ak"]
            fields = tuple(self.sym_operand(f, depth) for f in rv["fields"])
            if ak == "adt":
                return ("agg", rv["adt"], rv["variant"], fields)
            return ("agg", ak, rv.get("def"), fields)
        if k == "repeat":
            return ("repeat", self.sym_operand(rv["x"], depth), rv["n"])
        return ("other", rv.get("s", k))

    # -- memory reads behind a value (for kill checks)
    def leaf_reads(self, o, depth=SYM_DEPTH):
        """List of (place_sym, (bb, si)) for every memory place read while computing operand `o`
        (places with projections, parameters, multi-def locals).  si=None for block entry."""
        out = []
        self._leaf_operand(o, depth, None, out)
        return out

    def _leaf_operand(self, o, depth, pos, out):
        if o.get("k") is not None:
            return
        p = op_place(o)
        if p is not None:
            self._leaf_place(p, depth, pos, out)

    def _leaf_place(self, p, depth, pos, out):
        l = pl_local(p)
        proj = pl_proj(p)
        for e in proj:
            if e[0] == "index":
                self._leaf_local(e[1], depth - 1, pos, out)
        is_param = (1 <= l <= self.argc and self.is_stable_param(l))
        ud = None if is_param else self.unique_def(l)
        if proj:
            out.append((self.sym_place(p, depth), pos))
        elif ud is None and not is_param:
            # multi-def local (a mutable user variable): its value depends on the program point
            out.append((self.sym_place(p, depth), pos))
        if ud is not None and depth > 0:
            self._leaf_def(ud, depth - 1, out)

    def _leaf_local(self, l, depth, pos, out):
        self._leaf_place(l, depth, pos, out)

    def _leaf_def(self, ud, depth, out):
        bi, si, kind, payload = ud
        pos = (bi, si)
        if kind == "call":
            pos = (bi, len(self.blocks[bi]["st"]))
            for a in payload["args"]:
                self._leaf_operand(a, depth, pos, out)
            return
        rv = payload[2]
        k = rv["k"]
        if k in ("use", "cast", "un", "repeat"):
            self._leaf_operand(rv["x"], depth, pos, out)
        elif k in ("ref", "rawptr", "discr"):
            self._leaf_place(rv["p"], depth, pos, out)
        elif k == "bin":
            self._leaf_operand(rv["l"], depth, pos, out)
            self._leaf_operand(rv["r"], depth, pos, out)
        elif k == "agg":
            for f in rv["fields"]:
                self._leaf_operand(f, depth, pos, out)

    def writes(self):
        """All memory writes: list of ((bb, si), place_sym, how). how in assign|call-dest|mutref-arg|drop."""
        if getattr(self, "_writes", None) is not None:
            return self._writes
        out = []
        for bi, b in enumerate(self.blocks):
            for si, s in enumerate(b["st"]):
                if s[0] in ("a", "setdiscr"):
                    p = s[1]
                    if not isinstance(p, int) or self.unique_def(p) is None:
                        out.append(((bi, si), self.sym_place(p), "assign"))
            t = b["term"]
            if t["k"] == "call":
                n = len(b["st"])
                p = t["dest"]
                if not isinstance(p, int) or self.unique_def(p) is None:
                    out.append(((bi, n), self.sym_place(p), "call-dest"))
                refined = self._callee_mod_writes(bi, n, t)
                if refined is not None:
                    out.extend(refined)
                    continue
                for a in t["args"]:
                    ap = op_place(a)
                    if ap is None:
                        continue
                    ty = self.local_ty(pl_local(ap)) if isinstance(ap, int) else None
                    if ty is None:
                        # projection: type of last field
                        last = pl_proj(ap)[-1]
                        ty = last[3] if last[0] == "field" else ""
                    if ty.startswith("&mut") or ty.startswith("*mut") or "&mut " in ty[:40]:
                        out.append(((bi, n), self.sym_operand(a), "mutref-arg"))
        self._writes = out
        return out

    def _callee_mod_writes(self, bi, n, t):
        """If the callee is a workspace function, translate its mod-set (which parts of its reference parameters it may
        write) to this call site instead of assuming every `&mut` argument is clobbered.  None => unknown callee."""
        prog = _PROGRAM[0]
        if prog is None:
            return None
        g = prog.fns.get(t.get("f") or "")
        if g is None or g is self:
            return None
        ms = mod_set(g)
        if ms is None:
            return None
        out = []
        for (pi, chain) in ms:
            if pi - 1 >= len(t["args"]):
                continue
            base = self.sym_operand(t["args"][pi - 1])
            sym = base
            for fld in chain:
                sym = ("field", sym, fld) if fld != "[]" else ("index", sym, ("const", 0, "usize"))
            out.append(((bi, n), sym, "mutref-arg"))
        return out

    def in_loop(self, bb):
        return any(self.can_reach(s, bb) for s in self.succ(bb))

    def positions_between(self, a, b):
        """Predicate factory: returns f(pos) true if statement position pos=(bb,si) may execute after
        position a and before position b on some path.  a may be None (function entry)."""
        abb, asi = a if a is not None else (0, -1)
        bbb, bsi = b
        if asi is None:
            asi = -1
        fwd = self.reach_from(abb) if a is not None else self.reachable()
        back = {x for x in self.reachable() if self.can_reach(x, bbb)}
        a_loop = abb in fwd
        b_loop = self.can_reach_strict(bbb, bbb)

        def f(pos):
            x, si = pos
            if x == abb and x == bbb and not a_loop:
                return asi < si < bsi
            if x == abb and not a_loop:
                return si > asi and (abb in back)
            if x == bbb and not b_loop:
                return si < bsi and (bbb in fwd or bbb == abb)
            return (x in fwd or x == abb) and x in back
        return f

    def can_reach_strict(self, src, dst):
        return any(self.can_reach(s, dst) for s in self.succ(src))

    # -- iteration helpers
    def live_blocks(self):
        """Blocks reachable through normal (non-unwind) edges; cleanup blocks are excluded."""
        if getattr(self, "_live", None) is None:
            r = self.reachable()
            self._live = [i for i in range(len(self.blocks)) if i in r and not self.blocks[i].get("cleanup")]
        return self._live

    def calls(self):
        for bi in self.live_blocks():
            t = self.blocks[bi]["term"]
            if t["k"] in ("call", "tailcall"):
                yield bi, t

    def asserts(self):
        for bi in self.live_blocks():
            t = self.blocks[bi]["term"]
            if t["k"] == "assert":
                yield bi, t

    def statements(self):
        for bi in self.live_blocks():
            for si, s in enumerate(self.blocks[bi]["st"]):
                yield bi, si, s


def sym_str(s, maxlen=160):
    """Compact rendering of a symbolic expression (for reports / keys)."""
    def r(s):
        k = s[0]
        if k == "const":
            return str(s[1])
        if k == "param":
            return s[2] or ("arg%d" % s[1])
        if k == "local":
            return (s[2] if len(s) > 2 and s[2] else "_%d" % s[1])
        if k == "field":
            return "%s.%s" % (r(s[1]), s[2])
        if k == "deref":
            return "*%s" % r(s[1])
        if k == "ref":
            return "&%s" % r(s[1])
        if k == "downcast":
            return "(%s as %s)" % (r(s[1]), s[2])
        if k == "index":
            return "%s[%s]" % (r(s[1]), r(s[2]))
        if k == "call":
            return "%s(%s)" % (short_path(s[1]), ", ".join(r(a) for a in s[2]))
        if k == "bin":
            return "(%s %s %s)" % (r(s[2]), s[1], r(s[3]))
        if k == "un":
            return "%s(%s)" % (s[1], r(s[2]))
        if k == "cast":
            return "(%s as %s)" % (r(s[1]), s[3])
        if k == "discr":
            return "discr(%s)" % r(s[1])
        if k == "agg":
            return "%s::%s(%s)" % (short_path(str(s[1])), s[2], ", ".join(r(a) for a in s[3]))
        if k == "constsym":
            return str(s[1])
        if k == "fnconst":
            return short_path(s[1])
        return "<%s>" % k
    out = r(s)
    return out if len(out) <= maxlen else out[:maxlen] + "…"


def short_path(p):
    """Strip generic noise: keep the last two path segments."""
    if p is None:
        return "?"
    q = p
    # drop generic args
    depth = 0
    out = []
    for ch in q:
        if ch == "<":
            depth += 1
        elif ch == ">":
            depth -= 1
        elif depth == 0:
            out.append(ch)
    q = "".join(out).replace("::::", "::")
    parts = [x for x in q.split("::") if x]
    return "::".join(parts[-2:])


def sym_walk(s):
    """Yield every sub-expression of a symbolic expression."""
    yield s
    for x in s[1:]:
        if isinstance(x, tuple):
            if x and isinstance(x[0], str):
                yield from sym_walk(x)
            else:
                for y in x:
                    if isinstance(y, tuple) and y and isinstance(y[0], str):
                        yield from sym_walk(y)


_PROGRAM = [None]
_MODSET = {}
_MODSET_ACTIVE = set()


def set_program(p):
    _PROGRAM[0] = p
    _MODSET.clear()


def mod_set(g):
    """[(param index, field chain)] of memory reachable from g's parameters that g may write (transitively through
    workspace callees); None when unknown (recursion)."""
    key = g.path
    if key in _MODSET:
        return _MODSET[key]
    if key in _MODSET_ACTIVE:
        return None
    _MODSET_ACTIVE.add(key)
    try:
        from .guards import place_chain
        out = set()
        ok = True
        for pos, wsym, how in g.writes():
            pc = place_chain(wsym)
            if pc is None:
                continue
            root, chain = pc
            if root[0] == "param":
                out.add((root[1], tuple(chain)))
        res = sorted(out)
    finally:
        _MODSET_ACTIVE.discard(key)
    _MODSET[key] = res
    return res
