"""C19 — Byron addresses: corrupted addresses are rejected.

Decides the rejection clause (not base58/CBOR round-trip equality):
 R-MPT  every parse entry point that yields a Byron address from external text/bytes (ByronAddress::from_bytes, from_base58,
        lib.rs parse_type_8 and thereby Address::from_bytes / from_hex / from_str / TryFrom<&[u8]>) reaches, on every path to an Ok
        return, a call chain that ends in crc::Crc::<u32>::checksum whose result is compared with the decoded `crc` field, and the
        Ok return is control dependent on that comparison;
 R-PROV ByronAddress::from_decoded stores CRC.checksum(payload) of the very payload bytes it stores."""
import re
from pv.program import Program
from pv.report import Result, finish
from pv.mir import sym_str, sym_walk
from pv import flow, guards
from pv.panic import strip_generics

CHECKSUM = r"crc::Crc::checksum$|crc::crc32::.*checksum$"


def verifier_functions(P):
    """Workspace functions that compare Crc::checksum(..) with a `.crc` field and return Err on mismatch."""
    out = {}
    for f in P.by_crate.get("pallas_addresses", []):
        cs = flow.calls_matching(f, CHECKSUM)
        if not cs:
            continue
        # a switch whose condition compares the checksum result with a field named crc
        for bi in f.live_blocks():
            t = f.blocks[bi]["term"]
            if t["k"] != "switch":
                continue
            c = f.sym_operand(t["d"], 30)
            txt = sym_str(c, 600)
            if c[0] == "bin" and c[1] in ("Eq", "Ne") and "checksum(" in txt and re.search(r"\.crc\b", txt):
                # payload compared must be the address payload
                out[f.path] = (c[1], bi)
    return out


def ok_returns_guarded(P, f, verifiers, depth=2):
    """Every path of f to an Ok-constructing return passes through a call to a verifier (or f is a verifier whose Ok is on the
    match side), transitively through workspace callees that themselves satisfy this."""
    if f.path in verifiers:
        return True, "is itself a CRC verifier"
    oks = []
    for bi, si, rv in flow.aggregates(f, r"^core::result::Result$", variant="Ok"):
        oks.append(bi)
    tail = []
    for rb in f.return_blocks():
        pass
    guarded_calls = []
    for bi, t in f.calls():
        g = P.get(t.get("f") or "")
        if g is None:
            continue
        if g.path in verifiers:
            guarded_calls.append(bi)
        elif depth > 0 and g.crate == "pallas_addresses" and g.path != f.path:
            ok, _ = ok_returns_guarded(P, g, verifiers, depth - 1)
            if ok and returns_result_of(f, bi):
                guarded_calls.append(bi)
    if not guarded_calls:
        return False, "no call to a CRC-verifying function"
    # every Ok construction / tail return of a guarded callee must be dominated by a guarded call on its success path
    for ob in oks:
        if not any(flow.dominates(f, gc, ob) for gc in guarded_calls):
            return False, "an Ok(..) is built on a path that does not pass the CRC verification"
    # returns that forward a callee's Result directly
    return True, "all Ok paths pass through %d verifying call(s)" % len(guarded_calls)


def returns_result_of(f, call_bb):
    """Is the call's result propagated (returned or `?`-ed), i.e. its Err reaches the caller?"""
    t = f.blocks[call_bb]["term"]
    d = t["dest"]
    dl = d if isinstance(d, int) else d[0]
    if dl == 0:
        return True
    for bi, u in f.calls():
        if flow.callee_name(u).endswith("Try::branch") and any(s[0] == "call" and len(s) > 3 and s[3] == call_bb for s in sym_walk(f.sym_operand(u["args"][0]))):
            return True
    # returned through an Err-preserving combinator: `callee(..).map(Ctor)` / map_err / and_then / inspect as the function's value
    for bi, u in f.calls():
        d2 = u["dest"]
        if (d2 if isinstance(d2, int) else d2[0]) == 0 and re.search(r"core::result::Result::(map|map_err|and_then|inspect|inspect_err)$", flow.callee_name(u)) and u["args"]:
            if any(x[0] == "call" and len(x) > 3 and x[3] == call_bb for x in sym_walk(f.sym_operand(u["args"][0]))):
                return True
    # moved into _0
    for bi, si, s in f.statements():
        if s[0] == "a" and s[1] == 0 and any(x[0] == "call" and len(x) > 3 and x[3] == call_bb for x in sym_walk(f.sym_rvalue(s[2], 10))):
            return True
    return False


def run(tier):
    res = Result("C19", tier, level="other")
    P = Program(crates=["pallas_addresses"])
    verifiers = verifier_functions(P)
    res.count("crc verifier functions", len(verifiers))
    if not verifiers:
        res.violation("no-crc-verifier", "no function in pallas-addresses compares Crc::checksum(payload) with the decoded crc field: a Byron address with a wrong CRC cannot be rejected anywhere",
                      rule="R-MPT")
    for vp, (op, bi) in verifiers.items():
        v = P.get(vp)
        # polarity: the Err return must be on the mismatch side
        errs = [b for b, si, rv in flow.aggregates(v, r"^core::result::Result$", variant="Err")]
        t = v.blocks[bi]["term"]
        mismatch_target = None
        # Eq: value 0 (false) -> mismatch ; Ne: nonzero (otherwise) -> mismatch
        zero_t = [x[1] for x in t["ts"] if int(x[0]) == 0]
        if op == "Eq":
            mismatch_target = zero_t[0] if zero_t else None
        else:
            mismatch_target = t["o"]
        okpol = mismatch_target is not None and any(e == mismatch_target or v.can_reach(mismatch_target, e) for e in errs) and \
            not any((z == e or v.can_reach(z, e)) for e in errs for z in ([t["o"]] if op == "Eq" else zero_t) if z != mismatch_target and not v.can_reach(mismatch_target, z))
        key = "verifier-polarity:%s" % v.name
        if okpol and errs:
            res.ok(key, "R-CDEP", "%s returns Err exactly on checksum != crc" % v.name)
        else:
            res.violation(key, "%s compares the checksum with the crc field but does not return Err on the mismatch side" % v.path, where="%s:%s" % (v.file, v.line), rule="R-CDEP")
    # entry points: the two public Byron parsers, plus — found by what they do, not by their (private) name — every function of
    # lib.rs reachable from bytes_to_address that hands a byte slice to a ByronAddress parser/decoder (today: parse_type_8)
    bta0 = P.one(r"^pallas_addresses::bytes_to_address$")
    byron_feeders = []
    for p_, (g, _) in P.closure_of([bta0]).items():
        if g.path.startswith("pallas_addresses::byron::") or g is bta0:
            continue
        for bi, t in g.calls():
            n = flow.callee_name(t)
            if re.search(r"byron::ByronAddress::(from_bytes|from_base58)$", n) or (re.search(r"minicbor::decode$|Decoder::decode$", n) and any("byron::ByronAddress" in x for x in t.get("targs", []))):
                byron_feeders.append(g)
                break
    res.floor("Byron parse paths below bytes_to_address", len(byron_feeders), 1)
    entry_fns = [P.one(r"^pallas_addresses::byron::ByronAddress::from_bytes$"), P.one(r"^pallas_addresses::byron::ByronAddress::from_base58$")] + byron_feeders
    for f in entry_fns:
        ok, why = ok_returns_guarded(P, f, verifiers)
        key = "entry:%s" % f.path.split("pallas_addresses::")[-1]
        if ok:
            res.ok(key, "R-MPT", why)
        else:
            res.violation(key, "%s can return a Byron address without verifying its CRC (%s)" % (f.path, why), where="%s:%s" % (f.file, f.line), rule="R-MPT")
    # the generic entry points dispatch type 8 to parse_type_8 (C18 checks the table); Address::from_bytes etc. go through bytes_to_address
    if byron_feeders:
        res.ok("dispatch:type8", "R-MPT", "bytes_to_address reaches a Byron address parser (%s)" % ", ".join(g.name for g in byron_feeders))
    else:
        res.violation("dispatch:type8", "bytes_to_address no longer routes Byron addresses to a Byron parser", rule="R-MPT")
    for rx in (r"^pallas_addresses::Address::from_bytes$", r"^pallas_addresses::Address::from_hex$", r"^<pallas_addresses::Address as core::str::traits::FromStr>::from_str$"):
        f = P.one(rx)
        cl = P.closure_of([f])
        key = "reach:%s" % f.path.split("pallas_addresses::")[-1]
        # any function in the closure that decodes a ByronAddress directly (minicbor decode with ByronAddress targ) must be a guarded entry
        bad = []
        for p_, (g, _) in cl.items():
            for bi, t in g.calls():
                if re.search(r"minicbor::decode$|Decoder::decode$", flow.callee_name(t)) and any("byron::ByronAddress" in x for x in t.get("targs", [])):
                    ok, why = ok_returns_guarded(P, g, verifiers)
                    if not ok:
                        bad.append(g.path)
        if bad:
            res.violation(key, "%s reaches a bare decode of ByronAddress in %s without CRC verification" % (f.path, sorted(set(bad))), rule="R-MPT")
        else:
            res.ok(key, "R-MPT", "every ByronAddress decode reachable from here is followed by CRC verification")
    # R-PROV: from_decoded
    fd = P.one(r"^pallas_addresses::byron::ByronAddress::from_decoded$")
    cs = flow.calls_matching(fd, CHECKSUM)
    nw = flow.calls_matching(fd, r"ByronAddress::new$")
    ok = False
    if len(cs) == 1 and len(nw) == 1:
        payload_arg = sym_str(fd.sym_operand(cs[0][1]["args"][1], 30), 1000)
        stored = sym_str(fd.sym_operand(nw[0][1]["args"][0], 30), 1000)
        crc_arg = fd.sym_operand(nw[0][1]["args"][1], 30)
        ok = payload_arg == stored and any(s[0] == "call" and re.search(CHECKSUM, strip_generics(s[1])) for s in sym_walk(crc_arg))
    if ok:
        res.ok("from_decoded:crc-of-stored-payload", "R-PROV", "crc = CRC.checksum(payload) of the stored payload bytes")
    else:
        res.violation("from_decoded:crc-of-stored-payload", "ByronAddress::from_decoded does not store CRC.checksum of the payload bytes it stores", where="%s:%s" % (fd.file, fd.line), rule="R-PROV")
    # R-FRAME (round-trip half): the bytes stored are the encoding of the payload *as given* — the parameter reaches the
    # encoder unmodified (no assignment to it or to one of its fields, no mutable borrow).  A builder that normalises the
    # payload first (sorting attributes, rewriting a field) breaks payload -> address -> payload identity.
    enc = flow.calls_matching(fd, r"minicbor::to_vec$|minicbor::encode$|minicbor::encode_with$|Encoder::encode$|Encoder::encode_with$|Encode::encode$")
    params = [i for i in range(1, fd.argc + 1) if "AddressPayload" in fd.local_ty(i)]
    okf = False
    why = "no encoder call / payload parameter found"
    if enc and len(params) == 1:
        pi = params[0]
        why = "the encoded value is not the payload parameter itself"
        for bi, t in enc:
            for a in t["args"]:
                ch = flow.origin_chain(fd.sym_operand(a, 30))
                if ch is not None and ch[0] == ("param", pi) and not ch[1]:
                    okf = True
        if not fd.is_stable_param(pi):
            okf = False
            why = "the payload parameter is written or mutably borrowed before it is encoded"
    if okf:
        res.ok("from_decoded:payload-encoded-as-given", "R-FRAME", "the payload parameter reaches the encoder unmodified")
    else:
        res.violation("from_decoded:payload-encoded-as-given", "ByronAddress::from_decoded does not encode the payload exactly as given (%s): building an address from a payload and decoding it back no longer yields that payload" % why,
                      where="%s:%s" % (fd.file, fd.line), rule="R-FRAME")
    # R-SHAPE/R-DUAL (round-trip half): the hand-written CBOR codecs of the Byron address parts (address type, attributes,
    # stake distribution) are well-formed and dual — what the encoder writes for a value is read back as the same variant,
    # with readers at least as wide as what is written (engine E4, pv/x_codec.py; same rule as C22/C03).
    from pv import x_codec
    tbl = x_codec.load_table()
    cm = x_codec.Model(["pallas_codec", "pallas_crypto", "pallas_addresses"], table=tbl)
    cadts = cm.codec_types(file_prefixes=["pallas-addresses/src/"])
    n_before = len(res.obligations)
    x_codec.check_types(res, cm, cadts, tbl, set())
    res.floor("hand-written Byron address codecs", len(cadts), 2)
    res.floor("codec obligations (shape + duality)", len(res.obligations) - n_before, 8)
    res.assumptions += ["crc crate computes CRC-32/ISO-HDLC", "addresses decoded as part of a block body (pallas-primitives byron types) are not 'parsed addresses' in the sense of the property"]
    return finish(res,
                  explanation="Must-pass-through rule: every entry point that parses a Byron address from external bytes/text can only return Ok after a function that "
                              "compares CRC32(payload) with the carried checksum returned Ok; the constructor stores the checksum of the bytes it stores.",
                  rule_text="R-MPT(parse entry points -> crc verifier) + R-CDEP(verifier polarity) + R-PROV(from_decoded)",
                  trusted_base=["rustc MIR", "crc crate"])
