"""C34 — accepted transactions conserve value exactly.

Decides four clauses (not the per-asset comparison, and not the certificate / withdrawal / treasury / donation terms, which the
property excludes):

 (a) R-PIPE  in every era's validate_<era>_tx the value-preservation rule — the function of that era's module that can build the
             era's PreservationOfValue error (Byron: FeesBelowMin) — has returned Ok on every path to an Ok-capable return
             (`?`, match, is_err/is_ok spellings; the rule may sit inside a helper that itself propagates it).
 (b) exact arithmetic ("unbounded integers")  in closure(preservation rules): no computation on 64/128-bit quantities that can
             silently leave the integers: MIR Assert{Overflow(Add|Sub|Mul)|OverflowNeg} sites (they panic in a dev build and WRAP in a
             release build, so an unbalanced transaction balances), operator-trait calls on primitive integers or on a type parameter,
             wrapping_/saturating_/overflowing_ operations, Iterator::sum/product, and value-changing `as` casts (u64->i64, i64->u64,
             128->64).  A site is discharged by a CFG-verified dominating guard (a >= b before a - b; x >= 0 before `as u64`), by
             128-bit widening whose operands are bounded by construction, by being absent (checked_* returns an Option, try_from a
             Result), or by a reviewed table entry whose checked guard still holds.
 (c) R-CDEP + R-PROV  post-Byron: every Ok-capable return of the preservation rule is control dependent on the value equality
             (values_are_equal / conway_values_are_equal / `==` on Value) being true; one side of the equality is, additively through
             add_values / add_minted_value (and helpers / loops / folds that feed them), made of the values of the spent UTxO entries
             (HashMap::get on the UTxO set keyed by the body's inputs) plus the body's `mint`; the other side of the body's outputs
             plus the body's `fee`.  Accepted arrangements: consumed [+ mint] == produced + fee, either argument order.  (A mint
             negated on the produced side is not recognised; Shelley-MA's deposit/refund products, which are zero for the
             transactions of the property, may appear on their own sides.)  Any other term on either side is reported.
             Byron: every Ok-capable return of the fee rule holds  Σ spent amounts − Σ output amounts >= min fee  as a polynomial
             inequality over the branch facts, where the minimum fee is summand + multiplier*size, or 0 only under a flag that is
             cleared for every non-redeem input.

 (d) R-TABLE  the value-equality helper the rule calls (values_are_equal / conway_values_are_equal), tabulated over the Coin /
             Multiasset variants of its two arguments: every possibly-true return is taken under `lovelace == lovelace` (an `==`,
             not an ordering) between the two arguments and consults the asset map of every multi-asset argument (is_empty, or the
             asset comparison).  The asset comparison itself (multi_assets_are_equal and below) is not decided.

Level `other`: necessary clauses; the per-asset comparison loops and the results of the checked helpers are not decided."""
import re

from pv.program import Program, AnchorLost
from pv.report import Result, finish
from pv.mir import sym_str, sym_walk, short_path
from pv import flow, guards, panic
from pv import x_value as X
from pv.panic import strip_generics

CRATES = ["pallas_validate", "pallas_traverse", "pallas_codec"]
ERR_MOD = r"^pallas_validate::utils::validation::"
ERAS = {
    # era: (entry regex, module, error ADT, variant)
    "byron": (r"^pallas_validate::phase1::byron::validate_byron_tx$", "byron", "ByronError", "FeesBelowMin"),
    "shelley_ma": (r"^pallas_validate::phase1::shelley_ma::validate_shelley_ma_tx$", "shelley_ma", "ShelleyMAError", "PreservationOfValue"),
    "alonzo": (r"^pallas_validate::phase1::alonzo::validate_alonzo_tx$", "alonzo", "AlonzoError", "PreservationOfValue"),
    "babbage": (r"^pallas_validate::phase1::babbage::validate_babbage_tx$", "babbage", "PostAlonzoError", "PreservationOfValue"),
    "conway": (r"^pallas_validate::phase1::conway::validate_conway_tx$", "conway", "PostAlonzoError", "PreservationOfValue"),
}
EQ = re.compile(r"^pallas_validate::utils::(conway_)?values_are_equal$|model::Value as core::cmp::PartialEq>::eq$|model::Value as core::cmp::PartialEq::eq$")


def where(f, bb=None):
    if bb is not None:
        return "%s:%s" % (f.file, X.ok_line(f, bb))
    return "%s:%s" % (f.file, f.line)


def short(f):
    return f.path.split("pallas_validate::")[-1]


# ------------------------------------------------------------------------------------------------ (c) post-Byron

def body_has_mint(P, f):
    for i in range(1, f.argc + 1):
        ty = f.local_ty(i) or ""
        m = re.search(r"(pallas_primitives::\w+::model::TransactionBody)", ty)
        if m:
            a = P.adt(m.group(1))
            if a:
                return any(fl["name"] == "mint" for v in a["variants"] for fl in v["fields"])
    return True


def check_equation(res, P, era, f):
    srcs = X.ok_sources(f)
    key = "%s:balance" % era
    if not srcs:
        res.violation(key + ":no-ok", "%s has no Ok-capable return" % f.path, where=where(f), rule="R-CDEP")
        return
    def is_eq(c):
        if EQ.search(strip_generics(c)) is not None or EQ.search(c) is not None:
            return True
        # a boolean helper that does nothing but forward its parameters to the equality (`fn balanced(a, b) -> bool`)
        g = P.get(c)
        if g is not None and (g.local_ty(0) == "bool") and len(g.blocks) <= 12:
            from pv.tabulate import tabulate
            try:
                paths = [p_ for p_ in tabulate(g, P, 8) if p_.end == "return"]
            except Exception:
                return False
            if len(paths) == 1 and not paths[0].conds and paths[0].ret is not None and paths[0].ret[0] == "call":
                r = paths[0].ret
                if (EQ.search(strip_generics(r[1])) or EQ.search(r[1])) and all(X.strip_refs(a)[0] == "param" for a in r[2]):
                    return True
        return False
    eq_calls = {}
    for sb, how in srcs:
        hits = X.success_facts(f, sb, is_eq)
        if not hits:
            # does the comparison exist at all but with the wrong polarity?
            neg = any(fc.l[0] == "call" and is_eq(fc.l[1]) for fc in guards.facts_at(f, sb, kill=False))
            if neg:
                res.violation(key + ":polarity", "%s returns Ok (%s) on the side where the value equality is FALSE" % (f.path, how), where=where(f, sb), rule="R-CDEP")
            else:
                res.violation(key + ":unguarded-ok", "%s has an Ok-capable return (%s) that is not control dependent on the equality of consumed and produced value" % (
                    f.path, how), where=where(f, sb), rule="R-CDEP")
            continue
        for h in hits:
            eq_calls[h[3]] = h
    if not eq_calls:
        return
    need_mint = body_has_mint(P, f)
    for bb, h in sorted(eq_calls.items()):
        g = P.get(h[1])
        if g is not None:
            # look through a forwarding helper
            from pv.tabulate import tabulate
            if not (EQ.search(strip_generics(h[1])) or EQ.search(h[1])):
                try:
                    r = [p_ for p_ in tabulate(g, P, 8) if p_.end == "return"][0].ret
                    g = P.get(r[1]) or g
                except Exception:
                    pass
            check_equality_helper(res, P, era, g)
        else:
            res.notes.append("%s: the equality predicate %s has no body in the analysed crates (derived ==): not analysed" % (era, short_path(h[1])))
        a = X.resolve_roles(f, X.ingredients(P, f, h[2][0])) - {"EMPTY"}
        b = X.resolve_roles(f, X.ingredients(P, f, h[2][1])) - {"EMPTY"}
        res.sample({"era": era, "equality": short_path(h[1]), "left": sorted(map(str, a)), "right": sorted(map(str, b))})
        best = None
        for x, y, order in ((a, b, "consumed == produced"), (b, a, "produced == consumed")):
            problems = []
            if "CONSUMED" not in x:
                problems.append("the spent UTxO values are not on the consumed side")
            if "OUTPUTS" not in y:
                problems.append("the transaction outputs are not on the produced side")
            if "FEE" not in y:
                problems.append("the body's fee is not added to the produced side")
            if need_mint and "MINT" not in x:
                problems.append("the body's mint is not added to the consumed side")
            extra_x = x - {"CONSUMED", "MINT", "DEPOSIT"}
            extra_y = y - {"OUTPUTS", "FEE", "DEPOSIT"}
            if extra_x:
                problems.append("unexpected term(s) on the consumed side: %s" % ", ".join(sorted(map(str, extra_x))))
            if extra_y:
                problems.append("unexpected term(s) on the produced side: %s" % ", ".join(sorted(map(str, extra_y))))
            if best is None or len(problems) < len(best[0]):
                best = (problems, order)
        problems, order = best
        if not problems:
            res.ok(key + ":equation", "R-PROV", "%s: spent UTxO values + mint == outputs + fee (%s; left=%s right=%s)" % (
                short(f), order, sorted(map(str, a)), sorted(map(str, b))))
        else:
            res.violation(key + ":equation", "%s compares %s with %s: %s" % (
                f.path, sorted(map(str, a)), sorted(map(str, b)), "; ".join(problems)), where=where(f, bb), rule="R-PROV")


# ------------------------------------------------------------------------------------------------ (d) the equality helper

def _coin_place(s):
    """(param index) if s is the first field (the lovelace) of a variant of a Value parameter, else None."""
    s = X.strip_refs(s)
    if s[0] == "field" and str(s[2]) == "0" and s[1][0] == "downcast":
        r = X.strip_refs(s[1][1])
        if r[0] == "param":
            return r[1]
    return None


def _cmp_call(s):
    """('Eq'|'Ne', a, b) for `a == b` / `a != b` in any of its MIR forms."""
    if s[0] == "bin" and s[1] in ("Eq", "Ne"):
        return s[1], s[2], s[3]
    if s[0] == "call" and len(s[2]) == 2:
        n = strip_generics(s[1])
        if re.search(r"(PartialEq::eq|cmp::impls::eq|::eq)$", n):
            return "Eq", s[2][0], s[2][1]
        if re.search(r"(PartialEq::ne|cmp::impls::ne|::ne)$", n):
            return "Ne", s[2][0], s[2][1]
    return None


def check_equality_helper(res, P, era, g):
    """Every possibly-true return of the value-equality helper requires the two lovelace amounts to be equal (==, not >=) and
    consults the assets of every multi-asset argument."""
    from pv.tabulate import tabulate
    key = "%s:equality-helper" % era
    try:
        paths = [p for p in tabulate(g, P, 256) if p.end == "return"]
    except Exception as e:
        res.violation(key + ":unanalysable", "%s cannot be tabulated (%s)" % (g.path, e), where=where(g), rule="R-TABLE")
        return
    bad = []
    n = 0
    for p in paths:
        r = p.ret
        if r is None or (r[0] == "const" and int(r[1]) == 0):
            continue
        n += 1
        true_syms = [r]
        coin_ok = False
        for d, c in p.conds:
            cc = _cmp_call(d)
            truth = (c == ("eq", 1)) or (c[0] == "ne" and list(c[1]) == [0])
            falsity = c == ("eq", 0)
            if cc:
                op, a, b = cc
                pa, pb = _coin_place(a), _coin_place(b)
                if pa and pb and pa != pb and ((op == "Eq" and truth) or (op == "Ne" and falsity)):
                    coin_ok = True
            if truth:
                true_syms.append(d)
        cc = _cmp_call(r)
        if cc and cc[0] == "Eq":
            pa, pb = _coin_place(cc[1]), _coin_place(cc[2])
            if pa and pb and pa != pb:
                coin_ok = True
        if not coin_ok:
            bad.append("a path returns %s without requiring the two lovelace amounts to be equal" % sym_str(r, 80))
            continue
        # assets of every multi-asset argument are consulted
        multi = set()
        for sy in [r] + [d for d, _ in p.conds]:
            for x in sym_walk(sy):
                if x[0] == "downcast" and x[2] == "Multiasset":
                    rr = X.strip_refs(x[1])
                    if rr[0] == "param":
                        multi.add(rr[1])
        for pi in multi:
            seen_assets = False
            for sy in true_syms:
                for x in sym_walk(sy):
                    if x[0] == "field" and str(x[2]) == "1" and x[1][0] == "downcast" and x[1][2] == "Multiasset" and X.strip_refs(x[1][1]) == ("param", pi, g.local_name(pi)):
                        seen_assets = True
            if not seen_assets:
                bad.append("a path returns %s without looking at the assets of `%s`" % (sym_str(r, 60), g.local_name(pi)))
    if n == 0:
        res.violation(key, "%s never returns true" % g.path, where=where(g), rule="R-TABLE")
    elif bad:
        res.violation(key, "%s: %s" % (g.path, "; ".join(sorted(set(bad)))), where=where(g), rule="R-TABLE")
    else:
        res.ok(key, "R-TABLE", "%s: %d possibly-true return paths, each under lovelace == lovelace and each consulting the assets of its multi-asset arguments" % (g.name, n))


# ------------------------------------------------------------------------------------------------ (c) Byron

def _minfee_role(P, f, l, leaf_basic):
    """'MINFEE' if every definition of local l is summand + multiplier*size; 'MINFEE0' if some definitions are the constant 0
    instead; None otherwise."""
    defs = X.local_defs(f, l)
    if not defs:
        return None
    want = {("SUMMAND",): 1, tuple(sorted(("MULTIPLIER", "SIZE"), key=repr)): 1}
    zero = full = 0
    for d in defs:
        try:
            p = X.poly(d, leaf_basic)
        except Exception:
            return None
        if not p:
            zero += 1
        elif p == want:
            full += 1
        else:
            return None
    if not full:
        return None
    return "MINFEE0" if zero else "MINFEE"


def byron_leaf(P, f):
    """Leaves of the Byron fee inequality, classified by provenance: IN = derived from the UTxO entries of the body's inputs,
    OUT = derived from the body's outputs (accumulator locals are looked through: all their definitions count), SUMMAND /
    MULTIPLIER = protocol parameters, SIZE = the integer parameter, MINFEE = a local holding summand + multiplier*size."""
    def basic(s):
        s0 = X.strip_refs(s)
        if s0[0] == "call" and P.get(s0[1]) is not None:
            inl = X.inline_pure(P, s0)
            if inl is not None:
                return X.poly(inl, basic)
        oc = flow.origin_chain(s0)
        if oc is not None and oc[0][0] == "param":
            ty = f.local_ty(oc[0][1]) or ""
            named = [x for x in oc[1] if not x.isdigit() and x != "[]"]
            if "ProtParams" in ty and named and named[-1] in ("summand", "multiplier"):
                return named[-1].upper()
            if not named and re.match(r"^&?(u64|u32|usize)$", ty):
                return "SIZE"
        return ("V", s0)

    def leaf(s):
        s0 = X.strip_refs(s)
        if s0[0] == "const":
            return basic(s)
        if s0[0] == "local" and len(s0) > 1:
            r = _minfee_role(P, f, s0[1], basic)
            if r:
                return "MINFEE"
        b = basic(s)
        if not (isinstance(b, tuple) and b and b[0] == "V"):
            return b
        m = X.markers(f, s0)
        utxo = bool(m & {"UTXO", "UTXOREF"})
        if "INPUTS" in m and utxo and "OUTPUTS" not in m:
            return "IN"
        if "OUTPUTS" in m and not utxo and "INPUTS" not in m:
            return "OUT"
        return b
    return leaf, basic


def check_byron(res, P, f):
    key = "byron:balance"
    leaf, basic = byron_leaf(P, f)
    mulsize = tuple(sorted(("MULTIPLIER", "SIZE"), key=repr))
    targets = [{("IN",): 1, ("OUT",): -1, ("MINFEE",): -1}, {("IN",): 1, ("OUT",): -1, ("SUMMAND",): -1, mulsize: -1}]
    srcs = X.ok_sources(f)
    if not srcs:
        res.violation(key + ":no-ok", "%s has no Ok-capable return" % f.path, where=where(f), rule="R-CDEP")
        return
    allok = True
    for sb, how in srcs:
        rels = set()
        for t in targets:
            rels |= X.relations_at(f, sb, t, leaf)
        if "Ge" in rels or "Eq" in rels:
            continue
        allok = False
        if "Gt" in rels:
            res.violation(key + ":strictness", "%s accepts only when inputs - outputs is strictly above the minimum fee" % f.path, where=where(f, sb), rule="R-CDEP")
        elif rels:
            res.violation(key + ":polarity", "%s returns Ok where inputs - outputs >= min fee does NOT hold (known there: %s)" % (f.path, sorted(rels)), where=where(f, sb), rule="R-CDEP")
        else:
            res.violation(key + ":ok-without-balance-test", "%s has an Ok-capable return (%s, line %s) that is not control dependent on "
                          "`sum of spent amounts - sum of output amounts >= minimum fee`: on that path a transaction whose outputs exceed its inputs is accepted" % (
                              f.path, how, where(f, sb).split(":")[-1]), where=where(f, sb), rule="R-CDEP")
    # a zero minimum fee is only legitimate under the redeem-only flag
    for l in range(len(f.locals)):
        if f.local_name(l) is not None and _minfee_role(P, f, l, basic) == "MINFEE0":
            ok, why = zero_fee_only_for_redeem(P, f, l)
            if ok:
                res.ok(key + ":zero-fee-guard", "R-CDEP", why)
            else:
                allok = False
                res.violation(key + ":zero-fee-guard", "%s sets the minimum fee to 0 on a path that is not restricted to redeem-only transactions: %s" % (f.path, why),
                              where=where(f), rule="R-CDEP")
    if allok:
        res.ok(key, "R-CDEP", "%s: every Ok-capable return holds  Σ spent amounts − Σ output amounts >= minimum fee" % short(f))


def _reads_addrtype(P, g, depth=3):
    cl = P.closure_of([g])
    for p, (h, _) in cl.items():
        for bi in h.live_blocks():
            t = h.blocks[bi]["term"]
            if t["k"] == "switch":
                d = h.sym_operand(t["d"])
                if any(x[0] == "field" and x[2] == "addrtype" for x in sym_walk(d)):
                    return True
    return False


def zero_fee_only_for_redeem(P, f, l):
    """The `0` definition of the minimum-fee local l must be taken only when a boolean flag is true, and that flag must be
    cleared whenever some input is not a redeem input (decided by a function that inspects the address type)."""
    zero_blocks = []
    for bi, si, kind, payload in f.defs().get(l, []):
        if kind == "assign":
            v = f.sym_rvalue(payload[2], 10)
            if v[0] == "const" and int(v[1]) == 0:
                zero_blocks.append(bi)
    for zb in zero_blocks:
        flags = []
        for fc in guards.facts_at(f, zb, kill=False):
            s0 = X.strip_refs(fc.l)
            if fc.op == "Eq" and fc.r[0] == "const" and int(fc.r[1]) == 1 and s0[0] == "local" and f.local_ty(s0[1]) == "bool":
                flags.append(s0[1])
        # `inputs.iter().all(|i| is_redeem(i))` used directly as the condition
        all_ok = False
        for fc in guards.facts_at(f, zb, kill=False):
            u = X.unwrap_chain(fc.l)
            if fc.op == "Eq" and fc.r[0] == "const" and int(fc.r[1]) == 1 and u[0] == "call" and strip_generics(u[1]).endswith("Iterator::all") and len(u[2]) == 2:
                c = X.unwrap_chain(u[2][1])
                cf = P.get(c[2]) if c[0] == "agg" and c[1] == "closure" else None
                if cf is not None and "INPUTS" in X.markers(f, u[2][0]):
                    if any(P.get(t.get("f") or "") is not None and _reads_addrtype(P, P.get(t["f"])) for _, t in cf.calls()) or _reads_addrtype(P, cf):
                        all_ok = True
        if all_ok:
            continue
        if not flags:
            return False, "the zero fee is not guarded by a boolean flag"
        good = False
        for fl in flags:
            cleared_ok = False
            bad = None

            def redeem_call(sym):
                """sym is (a copy of) the result of a call, on a value derived from the inputs, to a function that decides on the address type."""
                u = X.unwrap_chain(sym)
                if u[0] != "call":
                    return False
                g = P.get(u[1])
                return g is not None and _reads_addrtype(P, g) and "INPUTS" in X.markers(f, u)
            for bi, si, kind, payload in f.defs().get(fl, []):
                if kind != "assign":
                    bad = "flag assigned from a call"
                    break
                v = f.sym_rvalue(payload[2], 10)
                if v[0] == "const":
                    if int(v[1]) == 1:
                        if f.in_loop(bi):
                            bad = "the flag is set again inside the loop"
                            break
                        continue
                    # cleared: must be because some input is not a redeem input
                    for fc in guards.facts_at(f, bi, kill=False):
                        if fc.op == "Eq" and fc.r[0] == "const" and int(fc.r[1]) == 0 and redeem_call(fc.l) and f.in_loop(bi):
                            cleared_ok = True
                    continue
                # flag = flag & is_redeem(input)   (`&=`): monotone, cleared exactly when the input is not a redeem input
                if v[0] == "bin" and v[1] == "BitAnd":
                    a, b = X.strip_refs(v[2]), X.strip_refs(v[3])
                    me = lambda x: x[0] == "local" and len(x) > 1 and x[1] == fl
                    other = b if me(a) else a if me(b) else None
                    if other is not None and redeem_call(other):
                        if f.in_loop(bi):
                            cleared_ok = True
                        continue
                bad = "the flag is computed in a way that is not recognised (%s)" % sym_str(v, 60)
                break
            if bad is None and cleared_ok:
                good = True
        if not good:
            return False, "the flag guarding the zero fee is not cleared for every non-redeem input"
    return True, "minimum fee 0 only while the redeem-only flag is still set; the flag is cleared for each input whose UTxO address type is not Redeem"


# ------------------------------------------------------------------------------------------------ (b) table guard

def guard_cert_counters(prog):
    """Checked guard for the Shelley-MA deposit/refund products: the non-parameter factor of every such multiplication is a
    counter that validate_shelley_ma_tx initialises to 0 and lends mutably only to the certificate rule (the call that also receives
    the body's `certificates`), so it is 0 for the certificate-free transactions C34 quantifies over."""
    entry = prog.one(ERAS["shelley_ma"][0])
    n = 0
    for f in prog.find(r"^pallas_validate::phase1::shelley_ma::"):
        if "::tests::" in f.path:
            continue
        for s in X.exact_sites(f):
            if not s.kind.startswith("Overflow:Mul"):
                continue
            ops = [f.sym_operand(o) for o in s.term["ops"]]
            if not any("DEPOSIT" in X.markers(f, o) for o in ops):
                continue            # not a deposit product (other rules' arithmetic)
            counters = []
            for o in ops:
                m = X.markers(f, o)
                if "DEPOSIT" in m:
                    continue
                counters.append(o)
            if len(counters) != 1:
                return False, "%s: %s is not (deposit parameter) x (counter)" % (f.path, s.detail)
            outs = X.trace_origins(prog, f, counters[0])
            for g, osym in outs:
                u = X.unwrap_chain(osym)
                if g.path != entry.path or u[0] != "const" or int(u[1]) != 0:
                    return False, "%s: the counter in %s originates from %s in %s, not from a 0-initialised counter of the pipeline" % (
                        f.path, s.detail, sym_str(u, 60), g.path)
            n += 1
    if n == 0:
        return False, "no deposit product found (anchor lost)"
    # the counters are lent mutably only to the certificate rule
    for bi, t in entry.calls():
        muts = []
        for a in t["args"]:
            sym = entry.sym_operand(a)
            for x in sym_walk(sym):
                if x[0] == "local" and len(x) > 1 and entry.local_ty(x[1]) == "u64" and x[1] in entry.mut_borrowed():
                    muts.append(x[1])
        if not muts:
            continue
        tys = [entry.local_ty(pl) for pl in [X.op_place(a) for a in t["args"]] if isinstance(pl, int)]
        takes_mut = any((ty or "").startswith("&mut u64") for ty in tys)
        if takes_mut:
            has_certs = any("OTHER:certificates" in X.markers(entry, entry.sym_operand(a)) for a in t["args"])
            if not has_certs:
                return False, "%s lends a deposit counter mutably to %s, which does not receive the body's certificates" % (entry.path, short_path(X.cname(t)))
    return True, "%d deposit products: counter factors are 0-initialised in the pipeline and lent mutably only to the certificate rule" % n


# ------------------------------------------------------------------------------------------------ run

def run(tier):
    res = Result("C34", tier, level="other")
    P = Program(crates=CRATES)
    rules = {}
    for era, (entry_rx, mod, adt, variant) in ERAS.items():
        entry = P.one(entry_rx)
        # the rule = whatever function reachable from the pipeline (inside pallas-validate) can build the era's error variant
        reach = P.closure_of([entry], stop=lambda g: g.crate != "pallas_validate" or "::phase2::" in g.path)
        fs = [f for f, _ in reach.values() if f.path != entry.path and X.constructs_variant(f, ERR_MOD + adt + "$", variant)
              and "Derive:" not in (f.b.get("impl_expn") or f.b.get("expn") or "")
              and (f.kind == "Closure" or re.match(r"^core::result::Result<.*ValidationError>$", f.local_ty(0) or ""))]
        fs = [P.get(f.b.get("root") or f.b.get("parent")) or f if f.kind == "Closure" else f for f in fs]
        fs = sorted({f.path: f for f in fs}.values(), key=lambda f: f.path)
        res.count("%s: preservation rule functions" % era, len(fs))
        if not fs:
            res.violation("%s:no-preservation-rule" % era, "no function of phase1::%s can build %s::%s: the era has no value-preservation rule (or the rule lost its anchor)" % (
                mod, adt, variant), where=where(entry), rule="R-PIPE")
            continue
        rules[era] = fs
        # (a)
        ok, why = X.must_succeed(P, entry, {f.path for f in fs}, depth=3)
        key = "%s:pipeline" % era
        if ok:
            res.ok(key, "R-PIPE", "%s: %s" % ("/".join(f.name for f in fs), why))
        else:
            res.violation(key, "%s can return Ok without the value-preservation rule %s having returned Ok: %s" % (
                entry.path, "/".join(short(f) for f in fs), why), where=where(entry), rule="R-PIPE")
        # (c)
        for f in fs:
            if era == "byron":
                check_byron(res, P, f)
            else:
                check_equation(res, P, era, f)
    res.floor("eras with a preservation rule", len(rules), 5)

    # (b) exact arithmetic over the closure of the rules
    entries = [f for fs in rules.values() for f in fs]
    stop = lambda g: g.crate == "pallas_codec"
    closure, sites = X.exact_census(P, entries, stop=stop)
    res.count("closure functions", len(closure))
    res.count("quantity arithmetic / cast sites", len(sites))
    res.floor("closure functions", len(closure), 20)
    for p, (fn, _) in closure.items():
        if fn.b.get("unsafe"):
            res.violation("unsafe:" + p, "unsafe fn in the analysed closure", rule="R-EXACT/unsafe")
    table = panic.load_table("exact_C34.json")
    by_key = {}
    for e in table.get("entries", []):
        by_key.setdefault((e["fn"], e["kind"], e.get("sig", "*")), []).append(e)
    n_auto = n_table = 0
    guard_cache = {}
    for s in sorted(sites, key=lambda s: (s.fn.path, s.kind, s.sig, s.ordinal)):
        r = X.discharge_exact(s)
        if r:
            n_auto += 1
            res.ok(s.key(), "R-EXACT/auto", r)
            continue
        ent = None
        for e in by_key.get((s.fn.path, s.kind, s.sig), []) + by_key.get((s.fn.path, s.kind, "*"), []):
            if s.ordinal < e.get("max", 1):
                ent = e
                break
        if ent is not None:
            g = ent.get("guard")
            if g:
                gk = repr(g)
                if gk not in guard_cache:
                    guard_cache[gk] = panic.verify_guard(P, s, g)
                okg, msg = guard_cache[gk]
                if not okg:
                    res.violation(s.key(), "guard of reviewed arithmetic site no longer holds: %s — %s(%s); reviewed reason was: %s" % (
                        msg, s.kind, s.detail, ent["reason"]), where=s.where(), rule="R-EXACT/guard")
                    continue
                n_table += 1
                res.ok(s.key(), "R-EXACT/table+guard", ent["reason"] + " [" + msg + "]")
            else:
                n_table += 1
                res.ok(s.key(), "R-EXACT/table", ent["reason"])
            continue
        chain = P.call_path(closure, s.fn.path)
        what = {"Cast": "value-changing cast %s" % s.sig,
                "ArithGeneric": "operator on a type parameter (instantiated with integer quantities)"}.get(s.kind.split(":")[0], s.kind)
        res.violation(s.key(), "inexact quantity arithmetic in the value-preservation closure: %s on (%s) can leave the integers (wraps in a release build / "
                      "changes the value) and let an unbalanced transaction balance; call path: %s" % (
                          what, s.detail, " -> ".join(short_path(c) for c in chain[-4:])), where=s.where(), rule="R-EXACT")
    res.count("sites auto-discharged", n_auto)
    res.count("sites table-discharged", n_table)
    res.assumptions += ["release-profile semantics for overflow (wrapping) — the dev profile panics at the same sites (C33)",
                        "checked_*/try_from results are handled by the code that receives them (their None/Err is not silently defaulted: no unwrap_or on them in the closure is checked by C33's panic census, not here)",
                        "values_are_equal / conway_values_are_equal decide equality of their arguments (not decided)",
                        "Shelley-MA deposit and refund terms are zero for the certificate-free transactions of the property"]
    return finish(res,
                  explanation="(a) the value-preservation rule of each era is on every accepting path of the pipeline; (b) census of every quantity computation "
                              "in its closure that can wrap or change value, each discharged by a verified guard/widening or reported; (c) the accepting return of "
                              "the rule is control dependent on the equality of two sums whose additive ingredients are traced to the spent UTxO values + mint and "
                              "to the outputs + fee (Byron: on the polynomial inequality inputs - outputs >= min fee). Not decided: the equality helper itself.",
                  rule_text="R-PIPE(preservation rule succeeded before any Ok) + R-EXACT(no wrapping/lossy quantity arithmetic in closure(rule)) + "
                            "R-CDEP/R-PROV(Ok depends on equality of consumed[+mint] and produced+fee; Byron: inputs-outputs>=minfee)",
                  trusted_base=["rustc MIR (opt-level 0, overflow checks on: every wrapping site is an Assert)", "tables/exact_C34.json (checked guards)",
                                "names of the public value helpers pallas_validate::utils::{add_values, add_minted_value, conway_*}"])


def guard_deposit_sum(prog):
    """Every reviewed u64 addition of the Shelley-MA produced side adds two deposit products (nothing else)."""
    f = prog.one(r"^pallas_validate::phase1::shelley_ma::get_produced$")
    n = 0
    for s in X.exact_sites(f):
        if s.kind != "Overflow:Add":
            continue
        n += 1
        for o in s.term["ops"]:
            sym = f.sym_operand(o)
            m = X.markers(f, sym)
            if "DEPOSIT" not in m or m & {"FEE", "OUTPUTS", "UTXO", "MINT"}:
                return False, "%s adds %s, which is not a deposit product" % (f.path, sym_str(sym, 80))
    if n == 0:
        return False, "no addition left to guard"
    return True, "the addition sums deposit products only"
