"""C18 — Shelley and stake addresses round-trip with a faithful header.

Decides the *tables* the round-trip rests on (not bech32/hex/varuint arithmetic):
 (a) ShelleyAddress::typeid / StakeAddress::typeid (variant pair -> nibble) composed with bytes_to_address
     (nibble -> parse_type_N) and what each parser constructs is the identity on the 8 + 2 address types, and equals CIP-19;
 (b) parse_network / From<u8> for Network and Network::value are mutually inverse on the network nibble;
 (c) hrp() tables equal CIP-19 (addr, addr_test, stake, stake_test; other networks -> Err);
 (d) to_header = (typeid << 4) | network.value(); to_vec = header ++ payment ++ delegation (operand order)."""
import json
import os
import re
from pv.program import Program
from pv.report import Result, finish
from pv.tabulate import tabulate, cond_variants
from pv.mir import sym_str, sym_walk
from pv.facts import VERIF

A = "pallas_addresses::"


def variant_of_ctor(P, sym, adt_suffix, depth=3):
    """Variant name built by `sym` for the ADT whose path ends with adt_suffix (looking into helper constructors)."""
    for sub in sym_walk(sym):
        if sub[0] == "agg" and isinstance(sub[1], str) and sub[1].endswith(adt_suffix) and isinstance(sub[2], str):
            return sub[2]
    for sub in sym_walk(sym):
        # a tuple-variant constructor used as a function value: Result::map(x, StakePayload::Stake)
        if sub[0] == "fnconst" and sub[1].rsplit("::", 1)[0].endswith(adt_suffix):
            return sub[1].rsplit("::", 1)[1]
        if sub[0] == "constsym" and isinstance(sub[1], str) and adt_suffix + "::" in sub[1]:
            return sub[1].rsplit("::", 1)[1].strip()
    if depth > 0:
        for sub in sym_walk(sym):
            if sub[0] == "call":
                g = P.get(sub[1])
                if g is not None and g.crate == "pallas_addresses":
                    vs = set()
                    for p in tabulate(g, P, 64):
                        if p.end == "return" and p.ret is not None:
                            v = variant_of_ctor(P, p.ret, adt_suffix, depth - 1)
                            if v:
                                vs.add(v)
                    if len(vs) == 1:
                        return vs.pop()
    return None


def int_table(P, f):
    """[(conds as {subject: ('eq', v)|('ne', [..])|set(names)}, ret sym)] for return paths."""
    rows = []
    for p in tabulate(f, P, 1024):
        if p.end != "return":
            continue
        rows.append((p.conds, p.ret))
    return rows


def run(tier):
    res = Result("C18", tier, level="other")
    spec = json.load(open(os.path.join(VERIF, "spec", "cip19.json")))
    P = Program(crates=["pallas_addresses"])

    # (a1) typeid tables
    typeid = {}
    f = P.one(r"^pallas_addresses::ShelleyAddress::typeid$")
    for conds, ret in int_table(P, f):
        cv = dict(c for c in (cond_variants(P, c) for c in conds) if c)
        pay = cv.get("*self.1")
        dele = cv.get("*self.2")
        if ret is None or ret[0] != "const" or not pay or not dele:
            res.violation("typeid:shape", "ShelleyAddress::typeid is not a constant table over (payment, delegation) variants: %s -> %s" % (cv, sym_str(ret) if ret else None), rule="R-TABLE")
            continue
        for a in pay:
            for b in dele:
                typeid[(a, b)] = int(ret[1])
    for n, (a, b) in spec["shelley_types"].items():
        key = "typeid:shelley:%s/%s" % (a, b)
        got = typeid.get((a, b))
        if got == int(n):
            res.ok(key, "R-TABLE", "typeid(%s,%s) = %s as in CIP-19" % (a, b, n))
        else:
            res.violation(key + "=>%s" % got, "ShelleyAddress::typeid(%s payment, %s delegation) = %s but CIP-19 assigns type %s" % (a, b, got, n),
                          where="%s:%s" % (f.file, f.line), rule="R-TABLE")
    res.floor("shelley typeid rows", len(typeid), 8)
    stake_typeid = {}
    g = P.one(r"^pallas_addresses::StakeAddress::typeid$")
    for conds, ret in int_table(P, g):
        cv = dict(c for c in (cond_variants(P, c) for c in conds) if c)
        for a in cv.get("*self.1", ()):
            if ret is not None and ret[0] == "const":
                stake_typeid[a] = int(ret[1])
    for n, a in spec["stake_types"].items():
        key = "typeid:stake:%s" % a
        if stake_typeid.get(a) == int(n):
            res.ok(key, "R-TABLE", "stake typeid(%s) = %s" % (a, n))
        else:
            res.violation(key + "=>%s" % stake_typeid.get(a), "StakeAddress::typeid(%s) = %s but CIP-19 assigns %s" % (a, stake_typeid.get(a), n), where="%s:%s" % (g.file, g.line), rule="R-TABLE")

    # (a2) dispatch: header & 0xF0 -> parser
    bta = P.one(r"^pallas_addresses::bytes_to_address$")
    dispatch = {}
    for conds, ret in int_table(P, bta):
        sel = None
        for d, c in conds:
            if d[0] == "bin" and d[1] == "BitAnd":
                mask = [x for x in (d[2], d[3]) if x[0] == "const"]
                if not mask or int(mask[0][1]) != 0xF0:
                    res.violation("dispatch:mask", "bytes_to_address dispatches on %s, expected header & 0xF0" % sym_str(d), rule="R-TABLE")
                if c[0] == "eq":
                    sel = int(c[1])
        if sel is None or ret is None:
            continue
        callee = ret[1] if ret[0] == "call" else None
        if callee:
            dispatch[sel >> 4] = callee
            if sel & 0x0F:
                res.violation("dispatch:low-bits:%d" % sel, "dispatch constant %#x has network bits set" % sel, rule="R-TABLE")
    res.floor("dispatch rows", len(dispatch), 11)
    # (a3) what each parser builds, composed with typeid
    for n in range(16):
        callee = dispatch.get(n)
        if callee is None:
            if str(n) in spec["shelley_types"] or str(n) in spec["stake_types"] or n == spec["byron_type"]:
                res.violation("dispatch:missing:%d" % n, "address type %d has no parser in bytes_to_address" % n, where="%s:%s" % (bta.file, bta.line), rule="R-TABLE")
            continue
        pf = P.get(callee)
        if pf is None:
            res.violation("dispatch:unresolved:%d" % n, "parser %s for type %d not found" % (callee, n), rule="anchor")
            continue
        key = "roundtrip:type:%d" % n
        if n == spec["byron_type"]:
            ok = any(p.end == "return" and p.ret is not None and variant_of_ctor(P, p.ret, "::Address", 1) == "Byron" for p in tabulate(pf, P, 256))
            if ok:
                res.ok(key, "R-DUAL", "type 8 builds Address::Byron")
            else:
                res.violation(key, "parser for type 8 does not build Address::Byron", rule="R-DUAL")
            continue
        built = set()
        nets = set()
        for p in tabulate(pf, P, 256):
            if p.end != "return" or p.ret is None or p.ret[0] != "agg" or p.ret[2] != "Ok":
                continue
            for sub in sym_walk(p.ret):
                if sub[0] == "agg" and sub[1] == A + "ShelleyAddress":
                    pay = variant_of_ctor(P, sub[3][1], "::ShelleyPaymentPart")
                    dele = variant_of_ctor(P, sub[3][2], "::ShelleyDelegationPart")
                    built.add(("shelley", pay, dele))
                    nets.add(sym_str(sub[3][0]))
                if sub[0] == "agg" and sub[1] == A + "StakeAddress":
                    pl = variant_of_ctor(P, sub[3][1], "::StakePayload")
                    built.add(("stake", pl))
                    nets.add(sym_str(sub[3][0]))
        if len(built) != 1:
            res.violation(key + "=>ambiguous", "parser for type %d builds %s (expected exactly one address shape)" % (n, sorted(map(str, built))), where="%s:%s" % (pf.file, pf.line), rule="R-DUAL")
            continue
        b = built.pop()
        if b[0] == "shelley":
            back = typeid.get((b[1], b[2]))
            want = spec["shelley_types"].get(str(n))
        else:
            back = stake_typeid.get(b[1])
            want = spec["stake_types"].get(str(n))
        res.sample({"type": n, "parser": callee.split("::")[-1], "builds": b, "typeid_back": back})
        if back == n and want is not None and list(b[1:]) == (want if isinstance(want, list) else [want]):
            res.ok(key, "R-DUAL", "type %d -> %s -> typeid %d (identity), as CIP-19" % (n, b[1:], back))
        else:
            res.violation(key + "=>%s" % (b[1:],), "header type %d is parsed into %s whose typeid() is %s (CIP-19: %s): encoding the parsed address does not reproduce the header" % (n, b[1:], back, want),
                          where="%s:%s" % (pf.file, pf.line), rule="R-DUAL")
        if not nets or not all("parse_network(header)" in x for x in nets):
            res.violation("network-source:type:%d" % n, "parser for type %d does not take the network from parse_network(header): %s" % (n, sorted(nets)), rule="R-PROV")
        else:
            res.ok("network-source:type:%d" % n, "R-PROV", "network = parse_network(header)")

    # (b) network tables
    def net_table(f, subject_is_int):
        t = {}
        for conds, ret in int_table(P, f):
            if subject_is_int:
                for d, c in conds:
                    k = c[1] if c[0] == "eq" else "other"
                    t[k] = ret
            else:
                cv = dict(c for c in (cond_variants(P, c) for c in conds) if c)
                for names in cv.values():
                    for nme in names:
                        t[nme] = ret
        return t
    pn = P.one(r"^pallas_addresses::parse_network$")
    fv = P.one(r"^pallas_addresses::Network::value$")
    fu = P.one(r"^<pallas_addresses::Network as core::convert::From<u8>>::from$")
    val = net_table(fv, False)
    for name, f_, masked in (("parse_network", pn, True), ("From<u8>", fu, False)):
        t = net_table(f_, True)
        for k, want in spec["networks"].items():
            r = t.get(int(k))
            v = r[2] if r is not None and r[0] == "agg" else None
            key = "network:%s:%s" % (name, k)
            back = val.get(want)
            if v == want and back is not None and back[0] == "const" and int(back[1]) == int(k):
                res.ok(key, "R-DUAL", "%s(%s) = %s and value(%s) = %s" % (name, k, want, want, k))
            else:
                res.violation(key + "=>%s" % v, "%s maps network id %s to %s and Network::value maps %s back to %s: not inverse / not CIP-19" % (name, k, v, want, sym_str(back) if back else None),
                              where="%s:%s" % (f_.file, f_.line), rule="R-DUAL")
        r = t.get("other")
        key = "network:%s:other" % name
        if r is not None and r[0] == "agg" and r[2] == "Other":
            payload = r[3][0]
            okp = (payload[0] == "bin" and payload[1] == "BitAnd" and any(x[0] == "const" and int(x[1]) == 0x0F for x in payload[2:])) if masked else (payload[0] == "param")
            vo = val.get("Other")
            if okp and vo is not None and vo[0] == "field" and vo[2] in (0, "0"):
                res.ok(key, "R-DUAL", "Other carries the %s id and value() returns that field" % ("masked" if masked else "given"))
            else:
                res.violation(key, "%s builds Other(%s) / value(Other) = %s: the network nibble does not round-trip" % (name, sym_str(payload), sym_str(vo) if vo else None), rule="R-DUAL")
        else:
            res.violation(key, "%s has no Other(..) arm for the remaining ids" % name, rule="R-DUAL")

    # (c) hrp
    for kind, rx in (("shelley", r"^pallas_addresses::ShelleyAddress::hrp$"), ("stake", r"^pallas_addresses::StakeAddress::hrp$")):
        f_ = P.one(rx)
        t = net_table(f_, False)
        for net, want in spec["hrp"][kind].items():
            r = t.get(net)
            got = None
            if r is not None and r[0] == "agg" and r[2] == "Ok":
                for sub in sym_walk(r):
                    if sub[0] == "constsym":
                        got = str(sub[1]).strip('"')
            key = "hrp:%s:%s" % (kind, net)
            if got == want:
                res.ok(key, "R-TABLE", "hrp(%s) = %s" % (net, want))
            else:
                res.violation(key + "=>%s" % got, "%s hrp for %s is %r, CIP-19 says %r" % (kind, net, got, want), where="%s:%s" % (f_.file, f_.line), rule="R-TABLE")
        r = t.get("Other")
        if r is not None and r[0] == "agg" and r[2] == "Err":
            res.ok("hrp:%s:Other" % kind, "R-TABLE", "other networks have no bech32 prefix (Err)")
        else:
            res.violation("hrp:%s:Other" % kind, "%s hrp() does not fail for other networks" % kind, rule="R-TABLE")

    # (d) header and byte layout
    for kind, rx in (("shelley", r"^pallas_addresses::ShelleyAddress::to_header$"), ("stake", r"^pallas_addresses::StakeAddress::to_header$")):
        f_ = P.one(rx)
        rows = [p for p in tabulate(f_, P, 16) if p.end == "return"]
        key = "to_header:%s" % kind
        ok = False
        if len(rows) == 1 and rows[0].ret[0] == "bin" and rows[0].ret[1] == "BitOr":
            parts = rows[0].ret[2:]
            shl = [x for x in parts if x[0] == "bin" and x[1] == "Shl" and x[3][0] == "const" and int(x[3][1]) == 4 and x[2][0] == "call" and x[2][1].endswith("::typeid")]
            net = [x for x in parts if x[0] == "call" and x[1].endswith("Network::value")]
            ok = bool(shl and net)
        if ok:
            res.ok(key, "R-PROV", "(typeid() << 4) | network.value()")
        else:
            res.violation(key, "%s to_header is not (typeid() << 4) | network.value(): %s" % (kind, sym_str(rows[0].ret, 200) if rows else None), where="%s:%s" % (f_.file, f_.line), rule="R-PROV")
    f_ = P.one(r"^pallas_addresses::ShelleyAddress::to_vec$")
    rows = [p for p in tabulate(f_, P, 16) if p.end == "return"]
    order = []
    if rows:
        for sub in sym_walk(rows[0].ret):
            if sub[0] == "call" and sub[1].split("::")[-1] in ("to_header", "to_vec") and sub[1] != f_.path:
                order.append(sub[1].split("pallas_addresses::")[-1])
    if order == ["ShelleyAddress::to_header", "ShelleyPaymentPart::to_vec", "ShelleyDelegationPart::to_vec"]:
        res.ok("to_vec:shelley", "R-ORDER", "bytes = header ++ payment ++ delegation")
    else:
        res.violation("to_vec:shelley", "ShelleyAddress::to_vec concatenates %s, expected header, payment, delegation" % order, where="%s:%s" % (f_.file, f_.line), rule="R-ORDER")
    res.exhaustive = True
    res.trusted += ["spec/cip19.json"]
    return finish(res,
                  explanation="The encoder-side and parser-side tables of address type and network nibbles are extracted from MIR and composed: "
                              "writer table followed by reader table is the identity on all 10 non-Byron address types and on the network nibble, and both equal CIP-19. "
                              "Pointer varuint arithmetic and the bech32/hex libraries are not decided.",
                  rule_text="R-DUAL(typeid o parser = id) + R-TABLE vs CIP-19 + R-PROV(to_header) + R-ORDER(to_vec)",
                  trusted_base=["rustc MIR", "spec/cip19.json"])
