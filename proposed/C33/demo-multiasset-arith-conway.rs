// Goes into pallas-validate/tests/conway.rs, inside `mod conway_tests` (after `use super::*;`).
// Both tests fail before the fix (panics: attempt to add with overflow in utils::conway_add_same_policy_assets
// / utils::conway_add_same_non_zero_policy_assets), pass with proposed/C33/fix-multiasset-arith.diff.

    #[test]
    // Same as successful_mainnet_tx, except that the transaction spends a second input and both
    // spent UTxOs hold 2^63 units of the same asset.
    fn consumed_asset_total_does_not_fit_in_64_bits() {
        let cbor_bytes: Vec<u8> = cbor_to_bytes(include_str!("../../test_data/conway3.tx"));
        let mut mtx: Tx = conway_minted_tx_from_cbor(&cbor_bytes);
        let mut tx_body: TransactionBody = (*mtx.transaction_body).clone();
        let mut inputs = tx_body.inputs.clone().to_vec();
        let mut second_input = inputs[0].clone();
        second_input.index += 1;
        inputs.push(second_input);
        tx_body.inputs = Set::from(inputs);
        tx_body.fee += 1_000_000; // the extra input makes the transaction longer: stay above the minimum fee
        let mut tx_buf: Vec<u8> = Vec::new();
        let _ = encode(tx_body, &mut tx_buf);
        mtx.transaction_body =
            Decode::decode(&mut Decoder::new(tx_buf.as_slice()), &mut ()).unwrap();
        let half: PositiveCoin = PositiveCoin::try_from(1u64 << 63).unwrap();
        let big_value = Value::Multiasset(
            20000000,
            BTreeMap::from([(
                pallas_crypto::hash::Hash::<28>::new([7; 28]),
                BTreeMap::from([(Bytes::from(vec![0x61]), half)]),
            )]),
        );
        let address = String::from(
            "015c5c318d01f729e205c95eb1b02d623dd10e78ea58f72d0c13f892b2e8904edc699e2f0ce7b72be7cec991df651a222e2ae9244eb5975cba",
        );
        let tx_outs_info: &[ConwayTxOutInfo] = &[
            (address.clone(), big_value.clone(), None, None),
            (address, big_value, None, None),
        ];
        let utxos: UTxOs = mk_utxo_for_conway_tx(&mtx.transaction_body, tx_outs_info);
        assert_eq!(utxos.len(), 2);
        let metx: MultiEraTx = MultiEraTx::from_conway(&mtx);
        let env: Environment = Environment {
            prot_params: MultiEraProtocolParameters::Conway(mk_mainnet_params_epoch_365()),
            prot_magic: 764824073,
            block_slot: 72316896,
            network_id: 1,
            acnt: Some(AccountState {
                treasury: 261_254_564_000_000,
                reserves: 0,
            }),
        };
        let mut cert_state: CertState = CertState::default();
        match validate_txs(&[metx], &env, &utxos, &mut cert_state) {
            Ok(()) => panic!("The consumed value cannot be represented"),
            Err(err) => match err {
                PostAlonzo(PostAlonzoError::NegativeValue) => (),
                _ => panic!("Unexpected error ({err:?})"),
            },
        }
    }

    #[test]
    // Same as successful_mainnet_tx, except that the spent UTxO holds 2^63 - 1 units of an asset
    // and the transaction mints one more unit of it.
    fn minting_on_top_of_i64_max_units() {
        use pallas_primitives::NonZeroInt;
        let cbor_bytes: Vec<u8> = cbor_to_bytes(include_str!("../../test_data/conway3.tx"));
        let mut mtx: Tx = conway_minted_tx_from_cbor(&cbor_bytes);
        let policy = pallas_crypto::hash::Hash::<28>::new([7; 28]);
        let asset_name = Bytes::from(vec![0x61]);
        let mut tx_body: TransactionBody = (*mtx.transaction_body).clone();
        tx_body.mint = Some(BTreeMap::from([(
            policy,
            BTreeMap::from([(asset_name.clone(), NonZeroInt::try_from(1i64).unwrap())]),
        )]));
        tx_body.fee += 1_000_000; // the mint field makes the transaction longer: stay above the minimum fee
        let mut tx_buf: Vec<u8> = Vec::new();
        let _ = encode(tx_body, &mut tx_buf);
        mtx.transaction_body =
            Decode::decode(&mut Decoder::new(tx_buf.as_slice()), &mut ()).unwrap();
        let tx_outs_info: &[ConwayTxOutInfo] = &[(
            String::from(
                "015c5c318d01f729e205c95eb1b02d623dd10e78ea58f72d0c13f892b2e8904edc699e2f0ce7b72be7cec991df651a222e2ae9244eb5975cba",
            ),
            Value::Multiasset(
                20000000,
                BTreeMap::from([(
                    policy,
                    BTreeMap::from([(
                        asset_name,
                        PositiveCoin::try_from(i64::MAX as u64).unwrap(),
                    )]),
                )]),
            ),
            None,
            None,
        )];
        let utxos: UTxOs = mk_utxo_for_conway_tx(&mtx.transaction_body, tx_outs_info);
        let metx: MultiEraTx = MultiEraTx::from_conway(&mtx);
        let env: Environment = Environment {
            prot_params: MultiEraProtocolParameters::Conway(mk_mainnet_params_epoch_365()),
            prot_magic: 764824073,
            block_slot: 72316896,
            network_id: 1,
            acnt: Some(AccountState {
                treasury: 261_254_564_000_000,
                reserves: 0,
            }),
        };
        let mut cert_state: CertState = CertState::default();
        match validate_txs(&[metx], &env, &utxos, &mut cert_state) {
            Ok(()) => panic!("The outputs do not hold the asset"),
            Err(err) => match err {
                PostAlonzo(PostAlonzoError::PreservationOfValue) => (),
                _ => panic!("Unexpected error ({err:?})"),
            },
        }
    }
