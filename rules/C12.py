"""C12 — KES keys sign verifiably for exactly their current period (facts config `kes`).

Decides, for every macro-generated key / signature type (depths 0..7, sum and compact-sum):
 R-DUAL   signature bytes: `to_bytes` writes each field of the signature into a constant byte range of an array of N bytes,
          `from_bytes` accepts exactly N bytes and rebuilds each field from the SAME range; the ranges are disjoint, inside
          [0, N), and as wide as the byte form of the field's own type (so the nested from_bytes accepts them).
 R-PROV   period counter: with L the buffer length `KesSk::from_bytes` insists on, the counter is the trailing range [L-4..):
          `keygen` writes period 0 there on every path, `get_period` (and every other reader of a period in the key's methods)
          decodes exactly that range, `update` hands the evolution function the slice [0..L-4) and the decoded period, and writes
          `period + 1` back into [L-4..) with the byte order it is read with.
 R-ORDER  in `update` the write of period+1 happens on every path that returns Ok and on no path that returns Err, after the
          evolution call — a failed evolution leaves the counter unchanged and its error reaches the caller.
 R-TABLE  exhaustion and routing, evaluated for EVERY period p in [0, 2^depth): evolution returns Ok for p < 2^depth - 1 and Err
          exactly at p = 2^depth - 1 (depth 0: always Err); every nested evolution call receives p mod 2^(its depth) and succeeds.
 R-TABLE  period-directed verification, evaluated for EVERY period p in [0, 2^depth) against the key layout read off key generation
          (left = the subtree generated in place, its public key slot; right = the one generated in a temporary; root =
          hash_pair(left, right)): sum — signing copies the left/right slots into the two key fields, `verify` recomputes the root
          as hash_pair(left field, right field) and hands the nested verification period p mod 2^(depth-1) with the left field for
          p < 2^(depth-1) and the right field otherwise, and cannot return Ok without both; compact — signing at p carries the
          OTHER subtree's key slot and signs below with p mod 2^(depth-1), `recompute` puts that sibling key on the right of the
          hash for p < 2^(depth-1) and on the left otherwise.
Not decided: the ed25519 and blake2b results themselves (so "verifies at t and fails at every other period" is decided only up to
the routing of periods to subtree keys), public-key stability across evolution, the byte forms of the external ed25519 types."""
import json
import os
import re

from pv.program import Program
from pv.report import Result, finish
from pv import x_kes as K
from pv.mir import sym_walk, sym_str

HERE = os.path.dirname(os.path.dirname(os.path.abspath(__file__)))
SIG_TRAITS = ("pallas_crypto::kes::traits::KesSig", "pallas_crypto::kes::traits::KesCompactSig")
TO_BYTES = re.compile(r"core::num::<impl (u\d+)>::to_(be|le|ne)_bytes$")
FROM_BYTES = re.compile(r"core::num::<impl (u\d+)>::from_(be|le|ne)_bytes$")


def where(f, bb=None):
    if bb is not None:
        s = f.blocks[bb]["term"].get("s")
        if s:
            return "%s:%s" % (f.file, s[0])
    return "%s:%s" % (f.file, f.line)


def inherent(P, adt, name):
    r = [f for f in P.fns.values() if f.b.get("impl_adt") == adt and not f.b.get("impl_trait") and f.name == name]
    return r[0] if len(r) == 1 else None


# ---------------------------------------------------------------------------------------------- R-DUAL

def returned_locals(f):
    """Locals whose value is moved/copied into the return place."""
    out = set()
    for bi, si, s in f.statements():
        if s[0] == "a" and s[1] == 0 and s[2]["k"] == "use":
            p = K.op_place(s[2]["x"])
            if p is not None and isinstance(p, int):
                out.add(p)
    return out


def writer_map(M, f):
    """to_bytes: ({field: (lo, hi)}, N, problems)."""
    probs = []
    n = K._array_len(f.local_ty(0))
    rl = returned_locals(f)
    m = {}
    for l in rl:
        if K._array_len(f.local_ty(l)) is not None:
            n = n or K._array_len(f.local_ty(l))
    for bi, t in f.calls():
        if K._COPY.search(K.callee(t)) and len(t["args"]) == 2:
            dst = K.region(f, f.sym_operand(t["args"][0]))
            if dst is None:
                probs.append("a copy into the output has a destination range that is not constant")
                continue
            if dst.root[0] != "local" or dst.root[1] not in rl:
                continue
            flds = {r.root[2][0] for r in M.byte_sources(f, f.sym_operand(t["args"][1])) if r.root[0] == "param" and r.root[1] == 1 and r.root[2]}
            if len(flds) != 1:
                probs.append("bytes [%s..%s) of the output come from %s" % (dst.lo, dst.hi, sorted(flds) or "no field of self"))
                continue
            fld = flds.pop()
            if fld in m:
                probs.append("field %s is written twice" % fld)
            m[fld] = (dst.lo, dst.hi if dst.hi is not None else n)
    if not m:
        # whole-value form: return <field>.to_bytes()
        for bi, t in f.calls():
            if K.pl_local(t["dest"]) == 0 or K.pl_local(t["dest"]) in rl:
                flds = {r.root[2][0] for a in t["args"] for r in M.byte_sources(f, f.sym_operand(a)) if r.root[0] == "param" and r.root[1] == 1 and r.root[2]}
                if len(flds) == 1 and n is not None:
                    m[flds.pop()] = (0, n)
    return m, n, probs


def reader_map(M, f, adt):
    """from_bytes: ({field: (lo, hi)}, L, problems) read off the construction site(s) of the signature."""
    probs = []
    L = K.len_test_constant(f)
    a = M.P.adt(adt)
    names = [x["name"] for x in a["variants"][0]["fields"]]
    m = {}
    sites = 0
    for bi, si, s in f.statements():
        if s[0] == "a" and s[2]["k"] == "agg" and s[2].get("ak") == "adt" and s[2]["adt"] == adt:
            sites += 1
            for i, op in enumerate(s[2]["fields"]):
                regs = []
                for r in M.byte_sources(f, f.sym_operand(op)):
                    if r.root == ("param", 1, ()) and (r.lo, r.hi) not in regs:
                        regs.append((r.lo, r.hi))
                if len(regs) != 1:
                    probs.append("field %s is built from %s" % (names[i], regs or "no constant range of the input"))
                    continue
                lo, hi = regs[0]
                m[names[i]] = (lo, hi if hi is not None else L)
    if sites != 1:
        probs.append("%d construction sites of the signature" % sites)
    return m, L, probs


def byte_len_of_type(M, sizes, ty):
    """Byte length of the wire form of a field type, when the type is one of the workspace types analysed here."""
    ty = ty.strip()
    if ty in sizes:
        return sizes[ty]
    return None


def dual_clause(res, M, P):
    sigs = sorted({a["adt"] for _, a in P.impls() if a.get("trait") in SIG_TRAITS and a.get("adt")})
    res.count("signature types", len(sigs))
    res.floor("signature types", len(sigs), 8)
    sizes = {}
    pkf = P.find(r"^pallas_crypto::kes::common::PublicKey::from_bytes$")
    if pkf:
        n = K.len_test_constant(pkf[0])
        if n is not None:
            sizes["pallas_crypto::kes::common::PublicKey"] = n
    maps = {}
    for adt in sigs:
        tb, fb = inherent(P, adt, "to_bytes"), inherent(P, adt, "from_bytes")
        name = adt.rsplit("::", 1)[-1]
        if tb is None or fb is None:
            res.violation("sig-bytes:%s" % name, "%s has no to_bytes/from_bytes pair: its signatures cannot round-trip through bytes" % adt, rule="R-DUAL")
            continue
        w, n, wp = writer_map(M, tb)
        r, L, rp = reader_map(M, fb, adt)
        maps[adt] = (w, n, r, L, tb, fb, wp, rp)
        if n is not None and n == L:
            sizes[adt] = n
    n_fields = 0
    for adt in sigs:
        if adt not in maps:
            continue
        w, n, r, L, tb, fb, wp, rp = maps[adt]
        name = adt.rsplit("::", 1)[-1]
        a = P.adt(adt)
        key = "sig-size:%s" % name
        if n is None or L is None or n != L:
            res.violation(key, "%s::to_bytes produces %s bytes but from_bytes accepts exactly %s" % (adt, n, L), where=where(fb), rule="R-DUAL")
        else:
            res.ok(key, "R-DUAL", "%d bytes both ways" % n)
        for pr in wp:
            res.violation("sig-bytes:%s:writer" % name, "%s::to_bytes: %s" % (adt, pr), where=where(tb), rule="R-DUAL")
        for pr in rp:
            res.violation("sig-bytes:%s:reader" % name, "%s::from_bytes: %s" % (adt, pr), where=where(fb), rule="R-DUAL")
        spans = []
        for fld in a["variants"][0]["fields"]:
            fn_ = fld["name"]
            key = "sig-bytes:%s:%s" % (name, fn_)
            n_fields += 1
            if fn_ not in w or fn_ not in r:
                if not wp and not rp:
                    res.violation(key, "%s: field %s is %s" % (adt, fn_, "never written by to_bytes" if fn_ not in w else "never read by from_bytes"),
                                  where=where(tb if fn_ not in w else fb), rule="R-DUAL")
                continue
            if w[fn_] != r[fn_]:
                res.violation(key, "%s: to_bytes writes field %s to bytes [%s..%s) but from_bytes reads it from [%s..%s): a signature does not survive "
                              "the byte round trip" % (adt, fn_, w[fn_][0], w[fn_][1], r[fn_][0], r[fn_][1]), where=where(fb), rule="R-DUAL")
                continue
            lo, hi = w[fn_]
            want = byte_len_of_type(M, sizes, fld["ty"])
            if hi is None or lo < 0 or (n is not None and hi > n) or hi <= lo:
                res.violation(key, "%s: field %s occupies [%s..%s) of a %s-byte signature" % (adt, fn_, lo, hi, n), where=where(tb), rule="R-DUAL")
            elif want is not None and hi - lo != want:
                res.violation(key, "%s: field %s (%s, %d bytes on the wire) is given the %d-byte range [%d..%d): the nested from_bytes rejects it"
                              % (adt, fn_, fld["ty"], want, hi - lo, lo, hi), where=where(tb), rule="R-DUAL")
            else:
                res.ok(key, "R-DUAL", "[%d..%d) both ways" % (lo, hi))
                res.sample({"sig": name, "field": fn_, "range": [lo, hi]})
            spans.append((lo, hi, fn_))
        spans.sort()
        for (a0, b0, f0), (a1, b1, f1) in zip(spans, spans[1:]):
            if b0 is not None and a1 < b0:
                res.violation("sig-bytes:%s:overlap" % name, "%s::to_bytes: fields %s and %s overlap ([%d..%d) and [%d..%d))" % (adt, f0, f1, a0, b0, a1, b1),
                              where=where(tb), rule="R-DUAL")
    res.floor("signature fields checked", n_fields, 12)


# ---------------------------------------------------------------------------------------------- period counter

def int_codec_calls(f, rx):
    return [(bi, t, rx.search(K.callee(t))) for bi, t in f.calls() if rx.search(K.callee(t))]


def period_writes(M, f, buf_root):
    """[(bb, region, value sym, endian)] — copies of `<int>.to_xx_bytes()` into a region of buf_root."""
    out = []
    for bi, t in f.calls():
        if K._COPY.search(K.callee(t)) and len(t["args"]) == 2:
            dst = K.region(f, f.sym_operand(t["args"][0]))
            if dst is None or dst.root != buf_root:
                continue
            src = K._strip_refs(f.sym_operand(t["args"][1]))
            if src[0] == "call" and TO_BYTES.search(src[1]) and src[2]:
                out.append((bi, dst, src[2][0], TO_BYTES.search(src[1]).group(2)))
    return out


def is_plus_one(M, f, v, rp):
    """v = X + 1 where X is decoded from the counter range rp."""
    v = K._strip_refs(v)
    if v[0] == "field" and v[1][0] == "bin" and v[1][1] == "AddWithOverflow" and str(v[2]) == "0":
        v = ("bin", "Add", v[1][2], v[1][3])
    x = None
    if v[0] == "bin" and v[1] in ("Add", "AddUnchecked"):
        if K.cint(v[3]) == 1:
            x = v[2]
        elif K.cint(v[2]) == 1:
            x = v[3]
    elif v[0] == "call" and re.search(r"core::num::<impl u\d+>::(wrapping_add|saturating_add|unchecked_add)$", v[1]) and len(v[2]) == 2 and K.cint(v[2][1]) == 1:
        x = v[2][0]
    elif v[0] == "call" and re.search(r"core::num::<impl u\d+>::checked_add$", v[1]):
        x = None
    if x is None:
        return False
    return any(r == rp or (r.root[:2] == rp.root[:2] and K.covers(r, rp)) for r in M.byte_sources(f, x))


def counter_clause(res, M, kts, spec):
    pb = spec["period_bytes"]
    n = 0
    for kt in kts:
        d = depth_of(kt, spec)
        if d is None:
            res.violation("layout:%s" % kt.name, "%s: the buffer length from_bytes insists on (%s) is not 32 + 96*depth + 4" % (kt.adt, kt.total_len),
                          where=where(kt.from_bytes) if kt.from_bytes else None, rule="R-PROV")
            continue
        if d == 0:
            continue
        n += 1
        L = kt.total_len
        lo = L - pb
        # keygen: writes 0 into [lo..) of its key buffer on every path
        kg = kt.keygen
        key = "period:keygen:%s" % kt.name
        wraps = M.wraps(kg)
        bufp = wraps[0][0] if wraps else 1
        rp = K.Region(("param", bufp, ()), lo, None)
        cover = {e.bb for e in M.events(kg) if K.covers(e.region, rp)}
        for (bi, dst, val, en) in period_writes(M, kg, ("param", bufp, ())):
            if K.cint(val) == 0 and K.covers(dst, rp):
                cover.add(bi)
        if not cover:
            res.violation(key, "%s::keygen never writes period 0 into the trailing counter bytes [%d..) of the key buffer" % (kt.adt, lo),
                          where=where(kg), rule="R-PROV")
        elif M.reach_return(kg, [0], cover) is not None:
            res.violation(key, "%s::keygen returns on some path without having written period 0 into [%d..)" % (kt.adt, lo), where=where(kg), rule="R-PROV")
        else:
            res.ok(key, "R-PROV", "period 0 written to [%d..)" % lo)
        # readers
        rps = K.Region(("param", 1, ("0",)), lo, None)
        endians = set()
        for meth in (kt.get_period, kt.update, kt.sign):
            if meth is None:
                continue
            for bi, t, m in int_codec_calls(meth, FROM_BYTES):
                srcs = [r for r in M.byte_sources(meth, meth.sym_operand(t["args"][0])) if r.root[0] == "param"]
                key = "period:read:%s::%s" % (kt.name, meth.name)
                endians.add(m.group(2))
                if srcs and all(r == rps for r in srcs):
                    res.ok(key, "R-PROV", "decoded from self.0[%d..)" % lo)
                else:
                    res.violation(key, "%s::%s decodes a period from %s instead of the counter bytes self.0[%d..)"
                                  % (kt.adt, meth.name, [K.region_str(meth, r) for r in srcs] or "bytes that are not part of the key buffer", lo),
                                  where=where(meth, bi), rule="R-PROV")
        gp = kt.get_period
        key = "period:get:%s" % kt.name
        ret = [t for bi, t in gp.calls() if K.pl_local(t["dest"]) == 0] if gp else []
        rsrc = []
        if gp is not None:
            for bi, si, s in gp.statements():
                if s[0] == "a" and s[1] == 0:
                    rsrc += M.byte_sources(gp, gp.sym_rvalue(s[2], 40))
            for t in ret:
                for a in t["args"]:
                    rsrc += M.byte_sources(gp, gp.sym_operand(a))
        rsrc = [r for r in rsrc if r.root[0] == "param"]
        if gp is None or not rsrc or not all(r == rps for r in rsrc):
            res.violation(key, "%s::get_period does not return the value decoded from the counter bytes self.0[%d..) (it reads %s)"
                          % (kt.adt, lo, [K.region_str(gp, r) for r in rsrc] if gp else "nothing"), where=where(gp) if gp else None, rule="R-PROV")
        else:
            res.ok(key, "R-PROV", "returns the counter")
        # update
        up = kt.update
        key = "period:update:%s" % kt.name
        if kt.updater is None:
            res.violation(key, "%s::update does not hand its key slice and decoded period to an evolution function" % kt.adt, where=where(up), rule="R-PROV")
            continue
        g, bufi, peri, ubb, breg = kt.updater
        pv = up.sym_operand(up.blocks[ubb]["term"]["args"][peri - 1])
        psrc = [r for r in M.byte_sources(up, pv) if r.root[0] == "param"]
        probs = []
        if not (breg.lo == 0 and breg.hi == lo):
            probs.append("evolves the slice %s instead of self.0[0..%d) (the whole key without the counter)" % (K.region_str(up, breg), lo))
        if not psrc or not all(r == rps for r in psrc):
            probs.append("passes a period decoded from %s" % [K.region_str(up, r) for r in psrc])
        ws = [(bi, dst, val, en) for (bi, dst, val, en) in period_writes(M, up, ("param", 1, ("0",)))]
        good = [w for w in ws if w[1] == rps and is_plus_one(M, up, w[2], rps)]
        if not good:
            probs.append("never writes period + 1 back into self.0[%d..)%s" % (lo, (" (it writes %s)" % "; ".join(
                "%s := %s" % (K.region_str(up, w[1]), sym_str(w[2], 80)) for w in ws)) if ws else ""))
        if good and endians and {w[3] for w in good} != endians:
            probs.append("writes the counter %s-endian but reads it %s-endian" % (sorted({w[3] for w in good}), sorted(endians)))
        if probs:
            res.violation(key, "%s::update %s" % (kt.adt, "; ".join(probs)), where=where(up), rule="R-PROV")
            continue
        res.ok(key, "R-PROV", "slice [0..%d), period from and period+1 into [%d..)" % (lo, lo))
        # R-ORDER by path enumeration of update (the evolution result is the only undetermined branch)
        key = "period:order:%s" % kt.name
        wbbs = {w[0] for w in good}
        outs = K.Eval(M.P).run(up, {})
        bad = []
        for o in outs:
            if o.end != "return":
                continue
            vn = K._variant(o.ret) if o.ret is not None else None
            bbs = [c[2] for c in o.calls]
            wrote = [i for i, b in enumerate(bbs) if b in wbbs]
            called = [i for i, b in enumerate(bbs) if b == ubb]
            if vn is None:
                bad.append("a return whose Ok/Err outcome is not determined by the evolution result")
            elif vn[1] == "Ok":
                if not called:
                    bad.append("an Ok return without evolving the key")
                elif len(wrote) != 1 or wrote[0] < called[0]:
                    bad.append("an Ok return on which period+1 is written %d times / before the evolution call" % len(wrote))
            else:
                if wrote:
                    bad.append("an Err return after the counter was advanced")
        if not any(o.end == "return" and (K._variant(o.ret) or (None, None))[1] == "Err" for o in outs):
            bad.append("no path returns the evolution error to the caller")
        if bad:
            res.violation(key, "%s::update has %s" % (kt.adt, "; ".join(sorted(set(bad)))), where=where(up), rule="R-ORDER")
        else:
            res.ok(key, "R-ORDER", "counter advanced exactly on the success edge of the evolution call")
    res.floor("key types with a period counter", n, 6)


def depth_of(kt, spec):
    if kt.total_len is None:
        return None
    n = kt.total_len - spec["period_bytes"] - spec["leaf_secret_bytes"]
    if n < 0 or n % spec["per_level_bytes"]:
        return None
    return n // spec["per_level_bytes"]


# ---------------------------------------------------------------------------------------------- exhaustion / routing table

def table_clause(res, M, kts, spec):
    E = K.Evolution(M, kts)
    depth = {kt.name: depth_of(kt, spec) for kt in kts}
    steps = 0
    for kt in kts:
        d = depth[kt.name]
        if d is None:
            continue
        key = "exhaust:%s" % kt.name
        bad = []
        if kt.update is None:
            res.violation(key, "%s has no KesSk::update" % kt.adt, rule="R-TABLE")
            continue
        if d > 0 and kt.updater is None:
            continue    # reported by the counter clause
        for p in range(2 ** d):
            r = E.step(kt, p)
            steps += 1
            want = "Ok" if p < 2 ** d - 1 else "Err"
            if r["problems"]:
                bad.append("p=%d: %s" % (p, "; ".join(r["problems"])))
            elif r["result"] != want:
                bad.append("p=%d: evolution returns %s, must return %s" % (p, r["result"], want))
            elif want == "Ok":
                for (k2, pv, sres) in r["children"]:
                    d2 = depth.get(k2.name)
                    if d2 is None or pv is None or pv != p % (2 ** d2) or sres != "Ok":
                        bad.append("p=%d: nested %s evolution receives period %s (must be %s) and returns %s"
                                   % (p, k2.name, pv, p % (2 ** d2) if d2 is not None else "?", sres))
                lv = sorted(depth.get(k2.name) for (k2, _, _) in r["children"])
                regen_level = [depth.get(E.by_updater[g.path].name) for (g, _, _, _, _) in r["regen"] if g.path in E.by_updater]
                # the chain of nested evolutions goes from depth d-1 down to the level that regenerates
                if len(regen_level) == 1 and lv != list(range(regen_level[0], d)):
                    bad.append("p=%d: nested evolutions at depths %s, expected %s" % (p, lv, list(range(regen_level[0], d))))
        if bad:
            res.violation(key, "%s (depth %d): %s" % (kt.adt, d, "; ".join(bad[:4])), where=where(kt.updater[0] if kt.updater else kt.update), rule="R-TABLE")
        else:
            res.ok(key, "R-TABLE", "depth %d: Ok for p < %d, Err at p = %d; nested periods p mod 2^k" % (d, 2 ** d - 1, 2 ** d - 1))
    res.count("evolution steps evaluated", steps)
    have = {}
    for kt in kts:
        have.setdefault(depth[kt.name], []).append(kt.name)
    missing = [d for d in spec["depths"] if len(have.get(d, [])) < spec["families"]]
    if missing:
        res.violation("depths", "key types of depth %s are missing (expected %d constructions per depth 1..7)" % (missing, spec["families"]), rule="floor")
    else:
        res.ok("depths", "floor", "two constructions for every depth 1..7")


# ---------------------------------------------------------------------------------------------- period-directed routing

HASH_PAIR = re.compile(r"^pallas_crypto::kes::common::PublicKey::hash_pair$")
PK = "pallas_crypto::kes::common::PublicKey"


def pk_layout(M, kt):
    """Where key generation puts the public keys of the two subtrees: {"left": (lo, hi), "right": (lo, hi)} in the key
    slice, left = the subtree generated in place (active first); the root is hash_pair(left, right).  None + reason."""
    for f in M.kes_fns():
        if f.b.get("impl_adt") != kt.adt:
            continue
        hps = [(bi, t) for bi, t in f.calls() if HASH_PAIR.search(K.callee(t))]
        if len(hps) != 1:
            continue
        bi, t = hps[0]
        vals = [K._strip_refs(K._resolve_local(f, f.sym_operand(a))) for a in t["args"]]
        kinds = []
        for v in vals:
            call = next((x for x in sym_walk(v) if x[0] == "call" and M.P.fns.get(x[1]) is not None and K.KES_MOD.search(x[1])), None)
            if call is None:
                return None, "%s: an operand of hash_pair is not the public key returned by a key-generation call" % f.path
            g = M.P.fns[call[1]]
            outs = M.secret_outputs(g)
            tt = f.blocks[call[3]]["term"]
            roots = {(M.map_to_caller(f, tt, k, (), 0, None) or K.Region(("temp", 0, ()), 0, None)).root[0] for k in outs}
            kinds.append("param" if roots == {"param"} else ("local" if roots == {"local"} else "?"))
        if kinds != ["param", "local"]:
            return None, "%s: the root key is hash_pair(%s) — expected (subtree generated in place, subtree generated in a temporary)" % (f.path, kinds)
        slots = {}
        for bj, u in f.calls():
            if K._COPY.search(K.callee(u)) and len(u["args"]) == 2:
                dst = K.region(f, f.sym_operand(u["args"][0]))
                if dst is None or dst.root[0] != "param" or dst.root[2] != ():
                    continue
                src = K._strip_refs(f.sym_operand(u["args"][1]))
                inner = src
                while inner[0] == "call" and K._TRANSP.search(inner[1]) and len(inner[2]) == 1:
                    inner = K._strip_refs(inner[2][0])
                inner = K._strip_refs(K._resolve_local(f, inner))
                for side, v in zip(("left", "right"), vals):
                    if inner == v:
                        slots[side] = (dst.lo, dst.hi)
        if set(slots) != {"left", "right"}:
            return None, "%s: the two subtree public keys are not both stored in the key slice" % f.path
        return slots, f
    return None, "no function of %s computes the root key as hash_pair of two subtree keys" % kt.adt


def routing_clause(res, M, kts, spec):
    P = M.P
    sigs = {a["adt"]: a["trait"] for _, a in P.impls() if a.get("trait") in SIG_TRAITS and a.get("adt")}
    n = 0
    evals = 0
    memo = {}
    for kt in kts:
        d = depth_of(kt, spec)
        if not d:
            continue
        half = 2 ** (d - 1)
        key = "route:%s" % kt.name
        lay, info = pk_layout(M, kt)
        if lay is None:
            res.violation(key, "%s" % info, rule="R-TABLE")
            continue
        sig_adt = kt.sign.local_ty(0) if kt.sign else None
        if sig_adt not in sigs:
            res.violation(key, "%s::sign does not return a signature type of the kes modules (%s)" % (kt.adt, sig_adt), rule="R-TABLE")
            continue
        n += 1
        compact = sigs[sig_adt].endswith("KesCompactSig")
        a = P.adt(sig_adt)
        fields = a["variants"][0]["fields"]
        pk_fields = [f_["name"] for f_ in fields if f_["ty"] == PK]
        # the function that builds the signature from the key bytes
        signer = None
        for bi, t in kt.sign.calls():
            g = P.fns.get(t.get("f") or "")
            if g is not None and K.KES_MOD.search(g.path) and g.local_ty(0).endswith("::Sig") or (g is not None and g.local_ty(0) == sig_adt):
                signer = g
        builder = signer if signer is not None else kt.sign
        bad = []
        if not compact:
            if len(pk_fields) != 2:
                res.violation(key, "%s: expected two public-key fields, found %s" % (sig_adt, pk_fields), rule="R-TABLE")
                continue
            fld_slot = {}
            for bi, si, s in builder.statements():
                if s[0] == "a" and s[2]["k"] == "agg" and s[2].get("ak") == "adt" and s[2]["adt"] == sig_adt:
                    for i, op in enumerate(s[2]["fields"]):
                        if fields[i]["ty"] != PK:
                            continue
                        regs = {(r.lo, r.hi) for r in M.byte_sources(builder, builder.sym_operand(op)) if r.root[0] == "param" and r.root[2] in ((), ("0",))}
                        if len(regs) == 1:
                            fld_slot[fields[i]["name"]] = regs.pop()
            inv = {v: k for k, v in fld_slot.items()}
            fl, fr = inv.get(lay["left"]), inv.get(lay["right"])
            if fl is None or fr is None:
                res.violation(key, "%s: signing does not copy the left/right subtree public keys (key bytes %s / %s) into the signature (fields read from %s)"
                              % (kt.adt, lay["left"], lay["right"], fld_slot), where=where(builder), rule="R-TABLE")
                continue
            vf = K.trait_method(P, sig_adt, SIG_TRAITS[0], "verify")
            if vf is None:
                res.violation(key, "%s has no KesSig::verify" % sig_adt, rule="R-TABLE")
                continue
            for p in range(2 ** d):
                outs = K.Eval(P, memo=memo).run(vf, {2: ("const", p, "u32")})
                evals += 1
                want_f = fl if p < half else fr
                for o in outs:
                    if o.end != "return":
                        continue
                    nested = [(nm, args) for (nm, args, bb, sub) in o.calls if nm != vf.path and (P.fns.get(nm) is not None) and P.fns[nm].name == "verify"
                              and P.fns[nm].b.get("impl_trait") in SIG_TRAITS]
                    hp = [(nm, args) for (nm, args, bb, sub) in o.calls if HASH_PAIR.search(nm)]
                    vn = K._variant(o.ret) if o.ret is not None else None
                    if vn is not None and vn[1] == "Ok" and (len(nested) != 1 or len(hp) != 1):
                        bad.append("p=%d: an Ok return with %d nested verifications and %d root-key comparisons" % (p, len(nested), len(hp)))
                    for nm, args in hp:
                        names = [_field_of_self(x) for x in args]
                        if names != [fl, fr]:
                            bad.append("p=%d: the root key is recomputed as hash_pair(%s) instead of (%s, %s)" % (p, names, fl, fr))
                    for nm, args in nested:
                        per = K._strip_refs(args[1]) if len(args) > 1 else None
                        pkf = _field_of_self(args[2]) if len(args) > 2 else None
                        if per is None or per[0] != "const" or int(per[1]) != p % half:
                            bad.append("p=%d: the nested verification gets period %s, must be %d" % (p, per[1] if per and per[0] == "const" else "?", p % half))
                        if pkf != want_f:
                            bad.append("p=%d: the nested verification uses public key field %s, must be %s (the %s subtree)"
                                       % (p, pkf, want_f, "left" if p < half else "right"))
        else:
            if len(pk_fields) != 1:
                res.violation(key, "%s: expected one public-key field, found %s" % (sig_adt, pk_fields), rule="R-TABLE")
                continue
            pkf = pk_fields[0]
            rf = K.trait_method(P, sig_adt, SIG_TRAITS[1], "recompute")
            per_i = [i for i in range(1, builder.argc + 1) if builder.local_ty(i) == "u32"]
            if rf is None or signer is None or len(per_i) != 1:
                res.violation(key, "%s: no recompute / no period-directed signing function" % sig_adt, rule="R-TABLE")
                continue
            for p in range(2 ** d):
                # signing: the signature carries the public key of the OTHER subtree
                outs = K.Eval(P, memo=memo).run(builder, {per_i[0]: ("const", p, "u32")})
                evals += 1
                rets = [o for o in outs if o.end == "return"]
                if len(rets) != 1 or rets[0].conds:
                    bad.append("p=%d: signing is not decided by the period" % p)
                    continue
                o = rets[0]
                want = lay["right"] if p < half else lay["left"]
                srcs = set()
                for (nm, args, bb, sub) in o.calls:
                    if K._COPY.search(nm) and len(args) == 2:
                        r = K.region(builder, args[1])
                        if r is not None and r.root[0] == "param":
                            srcs.add((r.lo, r.hi))
                if srcs != {want}:
                    bad.append("p=%d: the signature carries the key bytes %s as the sibling public key, must be %s (the %s subtree)"
                               % (p, sorted(srcs), want, "right" if p < half else "left"))
                nested = [(nm, args) for (nm, args, bb, sub) in o.calls if P.fns.get(nm) is not None and P.fns[nm].local_ty(0) in sigs and nm != builder.path]
                pers = [int(K._strip_refs(x)[1]) for nm, args in nested for x in args if K._strip_refs(x)[0] == "const" and K._strip_refs(x)[2] == "u32"]
                if len(nested) != 1 or pers != [p % half]:
                    bad.append("p=%d: the nested signature is made for period %s, must be %d" % (p, pers, p % half))
                # verification: the sibling key goes on the other side of the hash
                outs = K.Eval(P, memo=memo).run(rf, {2: ("const", p, "u32")})
                evals += 1
                for o in outs:
                    if o.end != "return":
                        continue
                    nested = [(nm, args) for (nm, args, bb, sub) in o.calls if nm != rf.path and P.fns.get(nm) is not None and P.fns[nm].name == "recompute"]
                    hp = [(nm, args) for (nm, args, bb, sub) in o.calls if HASH_PAIR.search(nm)]
                    vn = K._variant(o.ret) if o.ret is not None else None
                    if vn is not None and vn[1] == "Ok" and (len(nested) != 1 or len(hp) != 1):
                        bad.append("p=%d: recompute returns Ok with %d nested recomputations and %d hash_pair calls" % (p, len(nested), len(hp)))
                    for nm, args in nested:
                        per = K._strip_refs(args[1]) if len(args) > 1 else None
                        if per is None or per[0] != "const" or int(per[1]) != p % half:
                            bad.append("p=%d: the nested recomputation gets period %s, must be %d" % (p, per[1] if per and per[0] == "const" else "?", p % half))
                    for nm, args in hp:
                        names = [_field_of_self(x) for x in args]
                        want_names = [None, pkf] if p < half else [pkf, None]
                        if names != want_names:
                            bad.append("p=%d: the subtree root is hash_pair(%s): the sibling key must be the %s operand"
                                       % (p, ["sibling" if x == pkf else "recomputed" for x in names], "second" if p < half else "first"))
        if bad:
            uniq = []
            for b_ in bad:
                if b_ not in uniq:
                    uniq.append(b_)
            res.violation(key, "%s (depth %d): %s" % (kt.adt, d, "; ".join(uniq[:4])), where=where(builder), rule="R-TABLE")
        else:
            res.ok(key, "R-TABLE", "depth %d: periods < %d use the left subtree key, the others the right one with period - %d" % (d, half, half))
    res.count("verification routings evaluated", evals)
    res.floor("key types with period-directed verification", n, 6)


def _field_of_self(v):
    """Name of the field of `self` (parameter 1) a value refers to, else None."""
    v = K._strip_refs(v)
    if v[0] == "field":
        b = K._strip_refs(v[1])
        if b[0] == "param" and b[1] == 1:
            return str(v[2])
    return None


def run(tier):
    res = Result("C12", tier, level="other")
    spec = json.load(open(os.path.join(HERE, "spec", "kes_layout.json")))
    P = Program(crates=["pallas_crypto"], config="kes")
    M = K.KesModel(P)
    kts = K.key_types(M)
    res.count("key types", len(kts))
    res.floor("key types", len(kts), 8)
    dual_clause(res, M, P)
    counter_clause(res, M, kts, spec)
    table_clause(res, M, kts, spec)
    routing_clause(res, M, kts, spec)
    res.assumptions += ["spec/kes_layout.json (sum-composition key layout: 32 + 96*depth bytes + 4-byte period)",
                        "copy_from_slice copies exactly the source bytes into the destination range (and panics on a length mismatch)",
                        "u32::from_be_bytes / to_be_bytes are inverse"]
    return finish(res,
                  explanation="Layout duality of every signature type (constant byte range <-> field, same total size, nested widths), the period counter "
                              "(one trailing range written by keygen, read by get_period/sign/update, advanced by exactly one on the success edge of the evolution "
                              "call and only there), the evolution table evaluated for every period of every depth (Err exactly at 2^depth-1, nested periods "
                              "p mod 2^k), and the routing of every period to the left/right subtree key in sign / verify / recompute against the layout key "
                              "generation produces.  Not decided: ed25519 / blake2b results, public-key stability across evolution.",
                  rule_text="R-DUAL(to_bytes/from_bytes) + R-PROV/R-ORDER(period counter) + R-TABLE(finite evaluation of update, verify, recompute, sign over all periods)",
                  trusted_base=["rustc MIR/HIR facts (config kes)", "ed25519-dalek byte forms", "spec/kes_layout.json"])
