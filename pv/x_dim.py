"""Engine E7 — unit-of-measure (dimension) abstract interpretation over MIR arithmetic (used by rules/C32.py).

What it is: an abstract interpreter whose values are *annotated expression trees*.  Every integer value is a `Node` that carries
  * its unit: an exponent vector over the base dimensions of the spec (slot, s, epoch), `None` for an integer literal
    (unit-polymorphic in + - and comparisons, dimensionless in * /), or UNKNOWN for a value the interpreter cannot track;
  * its provenance: the ADT fields (by public field name) and entry parameters (by POSITION) feeding it, through any number of
    workspace calls;
  * the eras of the per-era *rate* fields combined in the `* / %` chain it is the root of (reset by + and -).
The interpreter walks the MIR CFG of an entry path by path (the analysed functions are loop-free; a loop or an exhausted budget
raises `Unanalysable`, the rule fails closed), forks at every `SwitchInt` and records the branch taken as a path condition,
and INLINES every workspace callee that has a MIR body with the argument values of that call site (context-sensitive, any depth).
Private helpers are therefore never named or seeded: extracting, inlining or renaming one leaves the trees unchanged.
Nothing is executed: no concrete value is ever computed except folding of integer literals for reporting.

Errors are attached to the node whose operator is inconsistent; only nodes that reach the entry's result or a branch condition
are reported (a dead computation has no behaviour).
"""
import json
import os
import re

from .facts import VERIF
from .mir import pl_local, pl_proj

UNKNOWN = "?"

NEG = {"Lt": "Ge", "Le": "Gt", "Gt": "Le", "Ge": "Lt", "Eq": "Ne", "Ne": "Eq"}
SWAP = {"Lt": "Gt", "Gt": "Lt", "Le": "Ge", "Ge": "Le", "Eq": "Eq", "Ne": "Ne"}
REL = {"Lt": "<", "Le": "<=", "Gt": ">", "Ge": ">=", "Eq": "==", "Ne": "!="}
ARITH = {"Add": "Add", "Sub": "Sub", "Mul": "Mul", "Div": "Div", "Rem": "Rem",
         "AddUnchecked": "Add", "SubUnchecked": "Sub", "MulUnchecked": "Mul"}
OVERFLOW = {"AddWithOverflow": "Add", "SubWithOverflow": "Sub", "MulWithOverflow": "Mul"}
SYMBOL = {"Add": "+", "Sub": "-", "Mul": "*", "Div": "/", "Rem": "%", "Sel": "min/max"}
INT_TY = re.compile(r"^[ui](8|16|32|64|128|size)$")


class Unanalysable(Exception):
    pass


def ty_bits(ty):
    """(width, signed) of an integer type name; None when not an integer type."""
    m = INT_TY.match(ty or "")
    if not m:
        return None
    w = 64 if m.group(1) == "size" else int(m.group(1))
    return w, ty[0] == "i"


def same_tree(a, b, depth=0):
    """Structural equality of two value trees (the same expression recomputed)."""
    if a is b:
        return True
    if depth > 24 or not isinstance(a, Node) or not isinstance(b, Node):
        return False
    if (a.kind, a.op, a.name, a.value, len(a.kids)) != (b.kind, b.op, b.name, b.value, len(b.kids)):
        return False
    if a.kind == "param" and a.params != b.params:
        return False
    return all(same_tree(x, y, depth + 1) for x, y in zip(a.kids, b.kids))


# ------------------------------------------------------------------------------------------------ spec

class Spec:
    def __init__(self, path=None):
        self.path = path or os.path.join(VERIF, "spec", "time_units.json")
        j = json.load(open(self.path))
        self.raw = j
        self.dims = list(j["base_dimensions"])
        self.count_like = set(j.get("count_like", []))
        self.adt = j["adt"]
        self.eras = list(j["eras"])
        self.fields = {}
        for name, f in j["fields"].items():
            self.fields[name] = {"unit": self.parse(f["unit"]), "era": f.get("era"), "role": f.get("role")}
        self.boundaries = j["boundaries"]
        self.entries = j["entries"]
        self.laws = j.get("constructor_laws", {})

    def parse(self, s):
        s = s.strip()
        vec = [0] * len(self.dims)
        parts = s.split("/")
        for sign, part in [(1, parts[0])] + [(-1, p) for p in parts[1:]]:
            for tok in part.split("*"):
                tok = tok.strip()
                if tok in ("", "1"):
                    continue
                exp = 1
                if "^" in tok:
                    tok, e = tok.split("^")
                    exp = int(e)
                vec[self.dims.index(tok.strip())] += sign * exp
        return tuple(vec)

    def ustr(self, u):
        if u is None:
            return "literal"
        if u == UNKNOWN:
            return "untracked"
        num = []
        den = []
        for d, e in zip(self.dims, u):
            if e > 0:
                num.append(d if e == 1 else "%s^%d" % (d, e))
            elif e < 0:
                den.append(d if e == -1 else "%s^%d" % (d, -e))
        s = "*".join(num) if num else "1"
        if den:
            s += "/" + "/".join(den)
        return s

    def field_of(self, era, role):
        for n, f in self.fields.items():
            if f["era"] == era and f["role"] == role:
                return n
        return None

    def rate_era(self, name):
        f = self.fields.get(name)
        if f and f["role"] in ("slot_length", "epoch_length"):
            return f["era"]
        return None

    def tagged_eras(self, names):
        return {self.fields[n]["era"] for n in names if n in self.fields and self.fields[n]["era"]}


# ------------------------------------------------------------------------------------------------ abstract values

class Node:
    """An integer value: annotated expression tree."""
    __slots__ = ("kind", "op", "kids", "unit", "fields", "params", "chain", "where", "ctx", "name", "value", "errs", "has_const", "why", "bits", "neg")

    def __init__(self, kind, unit, op=None, kids=(), fields=frozenset(), params=frozenset(), chain=frozenset(), where=None, ctx=(),
                 name=None, value=None, has_const=False, why=None):
        self.kind, self.unit, self.op, self.kids = kind, unit, op, tuple(kids)
        self.fields, self.params, self.chain = frozenset(fields), frozenset(params), frozenset(chain)
        self.where, self.ctx, self.name, self.value = where, tuple(ctx), name, value
        self.errs = []
        self.has_const = has_const
        self.why = why
        self.bits = 128        # upper bound on the magnitude bits of the value, by provenance (128 = unknown)
        self.neg = False       # may be negative

    def terms(self):
        """Flattened additive terms [(sign, node)]."""
        if self.kind == "bin" and self.op in ("Add", "Sub"):
            l, r = self.kids
            out = list(l.terms())
            for s, t in r.terms():
                out.append((s if self.op == "Add" else -s, t))
            return out
        return [(1, self)]

    def walk(self):
        seen = set()
        st = [self]
        while st:
            n = st.pop()
            if id(n) in seen:
                continue
            seen.add(id(n))
            yield n
            st.extend(n.kids)


class Tup:
    def __init__(self, comps):
        self.comps = list(comps)


class Struct:
    """A value (or reference to a value) of the spec's ADT; field reads are seeded from the spec by field name."""
    pass


class Opt:
    """Option<integer>."""
    def __init__(self, inner):
        self.inner = inner


class Cmp:
    def __init__(self, op, l, r, errs=()):
        self.op, self.l, self.r = op, l, r
        self.errs = list(errs)

    def negated(self):
        c = Cmp(NEG[self.op], self.l, self.r, self.errs)
        return c


class Unk:
    def __init__(self, why, of=None):
        self.why = why
        self.of = of          # the value this unknown was derived from (e.g. discriminant of an Option), for provenance


class Err:
    def __init__(self, rule, key, msg, where, unit_only, owner):
        self.rule, self.key, self.msg, self.where, self.unit_only, self.owner = rule, key, msg, where, unit_only, owner


class Cond:
    """One branch taken on a path: either a comparison `l REL r` known to hold, or an opaque switch on `value`."""
    def __init__(self, kind, op=None, l=None, r=None, value=None, desc=None, errs=()):
        self.kind, self.op, self.l, self.r, self.value, self.desc = kind, op, l, r, value, desc
        self.errs = list(errs)


def value_nodes(v):
    """All Node roots inside an abstract value."""
    if isinstance(v, Node):
        return [v]
    if isinstance(v, Tup):
        out = []
        for c in v.comps:
            out.extend(value_nodes(c))
        return out
    if isinstance(v, Opt):
        return value_nodes(v.inner)
    if isinstance(v, Cmp):
        return value_nodes(v.l) + value_nodes(v.r)
    if isinstance(v, Unk) and v.of is not None:
        return value_nodes(v.of)
    return []


def value_params(v):
    out = set()
    for n in value_nodes(v):
        out |= n.params
    return out


# ------------------------------------------------------------------------------------------------ interpreter

_CHECKED = re.compile(r"core::num::<impl ([ui](?:8|16|32|64|128|size))>::(checked|wrapping|saturating|overflowing|strict|unchecked)_(add|sub|mul|div|rem|div_euclid|rem_euclid)$")
_PLAIN = re.compile(r"core::num::<impl ([ui](?:8|16|32|64|128|size))>::(div_euclid|rem_euclid|abs_diff|min|max)$")
_TRYFROM = re.compile(r"impl core::convert::TryFrom<[ui](?:8|16|32|64|128|size)> for ([ui](?:8|16|32|64|128|size))>::try_from$|"
                      r"^<([ui](?:8|16|32|64|128|size)) as core::convert::TryFrom<[ui](?:8|16|32|64|128|size)>>::try_from$")
_RUNWRAP = re.compile(r"core::result::Result::<.*>::(unwrap|expect|unwrap_unchecked|unwrap_or|unwrap_or_default)$")
_MINMAX = re.compile(r"core::cmp::(?:Ord::)?(min|max)$|as core::cmp::Ord>::(min|max)$")
_CONV = re.compile(r"as core::convert::(?:From|Into)<.*>>::(?:from|into)$|"
                   r"impl core::convert::From<[ui](?:8|16|32|64|128|size)> for [ui](?:8|16|32|64|128|size)>::from$")
_UNWRAP = re.compile(r"core::option::Option::<.*>::(unwrap|expect|unwrap_unchecked|unwrap_or|unwrap_or_default)$")
_OPNAME = {"add": "Add", "sub": "Sub", "mul": "Mul", "div": "Div", "rem": "Rem", "div_euclid": "Div", "rem_euclid": "Rem"}


class Interp:
    """One analysis session = one entry function."""

    def __init__(self, prog, spec, entry_label, entry_of, budget=6000):
        self.prog, self.spec, self.entry = prog, spec, entry_label
        self.entry_of = entry_of            # fn path -> declared entry label
        self.budget = budget
        self.steps = 0
        self.n_arith = 0
        self.n_calls_inlined = 0
        self.inlined = set()
        self.opaque_calls = []
        self.n_casts = 0
        self._here = []                     # path conditions of the frame being executed, up to the current block
        self._outer = []                    # path conditions of the enclosing (calling) frames

    # -------------------------------------------------------------- node builders
    def param(self, pos, unit, ty=None):
        n = Node("param", unit, params={pos}, name="arg%d" % pos)
        tb = ty_bits(ty)
        if tb:
            n.bits, n.neg = tb[0] - (1 if tb[1] else 0), tb[1]
        return n

    def const(self, v):
        n = Node("const", None, value=v, has_const=True)
        n.bits, n.neg = abs(v).bit_length(), v < 0
        return n

    def field(self, name, where, ctx, ty=None):
        n = self._field(name, where, ctx)
        tb = ty_bits(ty)
        if tb:
            n.bits, n.neg = tb[0] - (1 if tb[1] else 0), tb[1]
        return n

    def _field(self, name, where, ctx):
        f = self.spec.fields.get(name)
        if f is None:
            return Node("opaque", UNKNOWN, fields={name}, where=where, ctx=ctx, name=name, why="field `%s` has no declared unit in %s" % (name, os.path.basename(self.spec.path)))
        era = self.spec.rate_era(name)
        return Node("field", f["unit"], fields={name}, chain={era} if era else (), where=where, ctx=ctx, name=name)

    def opaque(self, why, args=(), where=None, ctx=(), unit=UNKNOWN):
        fields, params = set(), set()
        kids = []
        for a in args:
            for n in value_nodes(a):
                fields |= n.fields
                params |= n.params
                kids.append(n)
        return Node("opaque", unit, kids=kids, fields=fields, params=params, where=where, ctx=ctx, why=why)

    def prov(self, n):
        items = sorted(n.fields) + ["arg%d" % i for i in sorted(n.params)]
        if not items:
            return "literal" if n.has_const else "-"
        return ",".join(items)

    def _err(self, node, rule, op, l, r, msg, where, ctx, owner, unit_only, extra=""):
        key = "%s|%s|%s|%s|%s~%s|%s~%s%s" % (rule, self.entry, ">".join(ctx) or "-", op, self.spec.ustr(l.unit), self.spec.ustr(r.unit),
                                              self.prov(l), self.prov(r), extra)
        node.errs.append(Err(rule, key, msg, where, unit_only, owner))

    def bin(self, op, l, r, where, ctx, owner, ty=None, sel=None):
        """Arithmetic node with the transfer function of the unit domain and the era clauses."""
        n = self._bin(op, l, r, where, ctx, owner)
        if isinstance(l, Node) and isinstance(r, Node):
            # width of the value by provenance (the operation itself is overflow-checked or wraps in its own type `ty`)
            tb = ty_bits(ty) or (128, False)
            cap = tb[0] - (1 if tb[1] else 0)
            bl, br = l.bits, r.bits
            if op == "Add":
                b = max(bl, br) + 1
            elif op == "Mul":
                b = bl + br
            elif op == "Rem":
                b = min(bl, br)
            elif op == "Sel":
                b = min(bl, br) if sel == "min" else max(bl, br)
            elif op == "Sub" and tb[1]:
                b = cap
            else:                      # Sub (unsigned: never above the minuend), Div
                b = bl
            n.bits = min(b, cap)
            n.neg = tb[1] and (l.neg or r.neg or op == "Sub")
        return n

    def _bin(self, op, l, r, where, ctx, owner):
        sp = self.spec
        if not isinstance(l, Node) or not isinstance(r, Node):
            n = self.opaque("operand of %s is not an integer value the interpreter tracks" % op, [l, r], where, ctx)
            return n
        self.n_arith += 1
        n = Node("bin", None, op=op, kids=(l, r), fields=l.fields | r.fields, params=l.params | r.params, where=where, ctx=ctx,
                 has_const=l.has_const or r.has_const)
        ul, ur = l.unit, r.unit
        sym = SYMBOL.get(op, op)
        if UNKNOWN in (ul, ur):
            other = ur if ul == UNKNOWN else ul
            bad = l if ul == UNKNOWN else r
            if other not in (None, UNKNOWN):
                why = next((x.why for x in bad.walk() if x.kind == "opaque" and x.why), "untracked value")
                self._err(n, "R-DIM", op, l, r, "operand of `%s` has no unit the checker can track (%s) while the other operand is in %s"
                          % (sym, why, sp.ustr(other)), where, ctx, owner, True)
            n.unit = other if op in ("Add", "Sub", "Sel") and other is not None else UNKNOWN
            if op in ("Mul", "Div", "Rem"):
                n.chain = l.chain | r.chain
            return n
        if op in ("Add", "Sub", "Sel"):
            if ul is None or ur is None:
                n.unit = ur if ul is None else ul
            else:
                n.unit = ul
                if ul != ur:
                    self._err(n, "R-DIM", op, l, r, "`%s` combines %s [%s] with %s [%s]: the operands of %s must have the same unit"
                              % (sym, sp.ustr(ul), self.prov(l), sp.ustr(ur), self.prov(r), sym), where, ctx, owner, True)
            n.chain = frozenset()
            if op in ("Add", "Sub"):
                self._anchor_rule(n, l, r, where, ctx, owner)
            return n
        zero = tuple([0] * len(sp.dims))
        a = zero if ul is None else ul
        b = zero if ur is None else ur
        if op == "Mul":
            n.unit = None if (ul is None and ur is None) else tuple(x + y for x, y in zip(a, b))
        elif op == "Div":
            n.unit = None if (ul is None and ur is None) else tuple(x - y for x, y in zip(a, b))
        elif op == "Rem":
            if ul is None:
                n.unit = ur
            else:
                n.unit = ul
                if ur is not None:
                    ratio = tuple(x - y for x, y in zip(a, b))
                    ok = True
                    for d, e in zip(sp.dims, ratio):
                        if d in sp.count_like:
                            ok = ok and e in (0, 1)
                        else:
                            ok = ok and e == 0
                    if not ok:
                        want = " or ".join([sp.ustr(ul)] + [sp.ustr(tuple(x - (1 if d == c else 0) for x, d in zip(a, sp.dims))) for c in sorted(sp.count_like)])
                        self._err(n, "R-DIM", op, l, r, "`%%` reduces a value in %s [%s] modulo a value in %s [%s]: the modulus of a %s quantity must be in %s; "
                                  "a modulus in %s does not reduce the value modulo a period counted in %s"
                                  % (sp.ustr(ul), self.prov(l), sp.ustr(ur), self.prov(r), sp.ustr(ul), want, sp.ustr(ur), sp.ustr(ul)), where, ctx, owner, True)
        # era clause (a): one * / % chain never combines rate fields of two eras
        n.chain = l.chain | r.chain
        if len(n.chain) > 1 and len(l.chain) <= 1 and len(r.chain) <= 1:
            lf = sorted(f for f in l.fields if sp.rate_era(f))
            rf = sorted(f for f in r.fields if sp.rate_era(f))
            self._err(n, "R-ERA-MIX", op, l, r, "`%s` combines per-era rate fields of different eras in one conversion: %s with %s"
                      % (sym, ",".join(lf) or self.prov(l), ",".join(rf) or self.prov(r)), where, ctx, owner, False,
                      extra="|eras=%s" % "+".join(sorted(n.chain)))
        return n

    def _anchor_rule(self, n, l, r, where, ctx, owner):
        """era clause (b): an era's known_time is only added to terms built from the same era's fields."""
        sp = self.spec
        for a, b in ((l, r), (r, l)):
            for _, t in a.terms():
                if t.kind != "field" or sp.fields[t.name]["role"] != "known_time":
                    continue
                era = sp.fields[t.name]["era"]
                for _, t2 in b.terms():
                    foreign = sorted(f for f in t2.fields if f in sp.fields and sp.fields[f]["era"] not in (None, era))
                    if foreign:
                        self._err(n, "R-ERA-ANCHOR", n.op, l, r, "the %s time anchor `%s` is combined with %s: a wall-clock value anchored at an era's known "
                                  "time must be built from the same era's slot length and known slot" % (era, t.name, ",".join(foreign)), where, ctx, owner, False,
                                  extra="|anchor=%s|foreign=%s" % (t.name, ",".join(foreign)))

    # -------------------------------------------------------------- R-CAST: narrowing of dimensioned quantities
    def _with_bits(self, v, bits, neg=False):
        """Shallow copy of a node with a tighter width bound (same tree, same error list)."""
        c = Node(v.kind, v.unit, op=v.op, kids=v.kids, fields=v.fields, params=v.params, chain=v.chain, where=v.where, ctx=v.ctx,
                 name=v.name, value=v.value, has_const=v.has_const, why=v.why)
        c.errs = v.errs
        c.bits, c.neg = bits, neg
        return c

    def _active_conds(self):
        out = []
        for cs in self._outer:
            out.extend(cs)
        out.extend(self._here)
        return out

    def _range_guarded(self, v, cap):
        """Does a comparison known to hold on the current path bound `v` by a value that fits in `cap` magnitude bits?"""
        for c in self._active_conds():
            if c.kind != "cmp" or not isinstance(c.l, Node) or not isinstance(c.r, Node):
                continue
            for a, op, b in ((c.l, c.op, c.r), (c.r, SWAP[c.op], c.l)):
                if op not in ("Lt", "Le", "Eq") or not same_tree(a, v):
                    continue
                if b.kind == "const" and b.value is not None:
                    limit = b.value - (1 if op == "Lt" else 0)
                    if 0 <= limit < (1 << cap):
                        return True
                elif b.bits <= cap and not b.neg:
                    return True
        return False

    def cast(self, v, frm, to, where, ctx, owner):
        """Integer `as` cast: transparent when lossless by provenance (widening, same width and signedness, a value whose width
        bound fits the target, a narrowing under a range test); otherwise a cast node that carries an R-CAST error when the value is
        a dimensioned quantity."""
        self.n_casts += 1
        fb, fs = ty_bits(frm)
        tb, ts = ty_bits(to)
        src_cap = fb - (1 if fs else 0)
        cap = tb - (1 if ts else 0)
        bits = min(v.bits, src_cap)
        neg = v.neg and fs
        lossy = bits > cap or (neg and not ts)
        if not lossy:
            return v
        if not neg and self._range_guarded(v, cap):
            return self._with_bits(v, cap)
        if not isinstance(v.unit, tuple):
            return self._with_bits(v, cap, ts)          # no unit: not a quantity the property talks about
        if v.kind == "cast" and v.errs:
            return self._with_bits(v, cap, ts)          # re-cast of an already reported lossy cast: one report per defect
        n = Node("cast", v.unit, op="cast", kids=(v,), fields=v.fields, params=v.params, chain=v.chain, where=where, ctx=ctx,
                 name="%s->%s" % (frm, to), has_const=v.has_const)
        n.bits, n.neg = cap, ts
        expr = tree_str(v, self.spec)
        what = "truncates" if bits > cap else "reinterprets the sign of"
        key = "R-CAST|%s|%s|%s->%s|%s|%s" % (self.entry, ">".join(ctx) or "-", frm, to, self.spec.ustr(v.unit), self.prov(v))
        if bits > cap:
            msg = ("`as %s` %s a quantity in %s, %s [%s], held in %s (up to %d significant bits by provenance, the target keeps %d): "
                   "values of 2^%d or more wrap, e.g. a %s value that is 2^%d or more%s, so the result stops following the conversion formula"
                   % (to, what, self.spec.ustr(v.unit), expr, self.prov(v), frm, bits, cap, cap, self.spec.ustr(v.unit), cap,
                      " past the anchor" if any(self.spec.fields.get(f, {}).get("role") == "known_slot" for f in v.fields) and v.params else ""))
        else:
            msg = ("`as %s` %s a quantity in %s, %s [%s], held in %s: a negative value becomes a huge %s"
                   % (to, what, self.spec.ustr(v.unit), expr, self.prov(v), frm, to))
        # inside an inlined declared entry the same cast is reported by that entry's own analysis (its parameters have the full
        # width of their types there, so it is lossy there whenever it is lossy here)
        n.errs.append(Err("R-CAST", key, msg, where, True, owner))
        return n

    def cmp(self, op, l, r, where, ctx, owner):
        errs = []
        if isinstance(l, Node) and isinstance(r, Node):
            ul, ur = l.unit, r.unit
            if ul not in (None, UNKNOWN) and ur not in (None, UNKNOWN) and ul != ur:
                holder = Node("bin", None, op=op, kids=(l, r))
                self._err(holder, "R-DIM", op, l, r, "comparison `%s` between %s [%s] and %s [%s]: both sides must have the same unit"
                          % (REL[op], self.spec.ustr(ul), self.prov(l), self.spec.ustr(ur), self.prov(r)), where, ctx, owner, True)
                errs = holder.errs
            elif (ul == UNKNOWN) != (ur == UNKNOWN) and (ul if ur == UNKNOWN else ur) is not None:
                holder = Node("bin", None, op=op, kids=(l, r))
                self._err(holder, "R-DIM", op, l, r, "comparison `%s` with a value the checker cannot track" % REL[op], where, ctx, owner, True)
                errs = holder.errs
        return Cmp(op, l, r, errs)

    # -------------------------------------------------------------- MIR evaluation
    def run(self, fn, args):
        """All return paths of `fn` called with abstract `args`: [(value, [Cond])]."""
        return self._eval_fn(fn, args, [], None)

    def _eval_fn(self, fn, args, stack, owner):
        if any(f.path == fn.path for f, _ in stack):
            raise Unanalysable("recursive call of %s" % fn.path)
        if not fn.blocks:
            raise Unanalysable("no MIR body for %s" % fn.path)
        env = {i + 1: a for i, a in enumerate(args)}
        out = []
        self._walk(fn, 0, env, [], frozenset(), out, stack + [(fn, owner)])
        return out

    def _ctx(self, frame):
        return tuple(f.name or f.path for f, _ in frame[1:])

    def _walk(self, fn, bb, env, conds, visited, out, frame):
        while True:
            self.steps += 1
            if self.steps > self.budget:
                raise Unanalysable("path budget exhausted in %s" % fn.path)
            if bb in visited:
                raise Unanalysable("loop in %s (bb%d): the interpreter only handles loop-free conversion code" % (fn.path, bb))
            visited = visited | {bb}
            self._here = conds
            blk = fn.blocks[bb]
            for s in blk["st"]:
                if s[0] == "a":
                    self._assign(fn, env, s[1], self._rvalue(fn, env, s[2], s[3], frame))
            t = blk["term"]
            k = t["k"]
            if k in ("goto", "assert", "drop"):
                bb = t["t"]
                continue
            if k == "return":
                out.append((env.get(0, Unk("no return value")), list(conds)))
                return
            if k == "switch":
                d = self._operand(fn, env, t["d"], None, frame)
                by_t = {}
                order = []
                for val, tgt in t["ts"]:
                    if tgt not in by_t:
                        by_t[tgt] = []
                        order.append(tgt)
                    by_t[tgt].append(val)
                allv = [v for v, _ in t["ts"]]
                if t["o"] not in by_t:
                    order.append(t["o"])
                for tgt in order:
                    if tgt == t["o"]:
                        # the `otherwise` edge; when listed values also lead here the edge is unconstrained
                        c = self._cond(d, None if tgt in by_t else ("not", allv), t.get("dty"))
                    else:
                        c = self._cond(d, ("in", by_t[tgt]), t.get("dty"))
                    self._walk(fn, tgt, dict(env), conds + [c], visited, out, frame)
                return
            if k in ("call", "tailcall"):
                where = "%s:%s" % (fn.file, t.get("s", [None])[0])
                self._outer.append(conds)
                try:
                    results = self._call(fn, env, t, frame, where)
                finally:
                    self._outer.pop()
                self._here = conds
                if t.get("t") is None:
                    if k == "tailcall":
                        for v, cc in results:
                            out.append((v, conds + cc))
                    return
                if len(results) == 1:
                    v, cc = results[0]
                    self._assign(fn, env, t["dest"], v)
                    conds = conds + cc
                    bb = t["t"]
                    continue
                for v, cc in results:
                    e2 = dict(env)
                    self._assign(fn, e2, t["dest"], v)
                    self._walk(fn, t["t"], e2, conds + cc, visited, out, frame)
                return
            if k in ("unreachable", "resume", "abort", "terminate"):
                return
            raise Unanalysable("terminator %s in %s" % (k, fn.path))

    def _cond(self, d, sel, dty):
        if isinstance(d, Cmp) and sel is not None:
            truth = None
            if sel[0] == "in":
                truth = (sel[1] != [0]) if len(sel[1]) == 1 else None
            else:
                truth = (0 in sel[1]) if len(sel[1]) == 1 else None
            if truth is not None:
                op = d.op if truth else NEG[d.op]
                return Cond("cmp", op=op, l=d.l, r=d.r, errs=d.errs)
        errs = d.errs if isinstance(d, Cmp) else []
        return Cond("opaque", value=d, desc="%s %s" % (dty, sel), errs=errs)

    def _operand(self, fn, env, o, span, frame):
        k = o.get("k")
        if k is not None:
            if "v" in k and INT_TY.match(k.get("ty", "")):
                v = k["v"]
                try:
                    v = int(v)
                except (TypeError, ValueError):
                    return Unk("constant")
                return self.const(v)
            return Unk("constant of type %s" % k.get("ty"))
        p = o.get("c") if "c" in o else o.get("m")
        if p is None:
            return Unk("operand")
        return self._read(fn, env, p, span, frame)

    def _read(self, fn, env, p, span, frame):
        l = pl_local(p)
        v = env.get(l)
        if v is None:
            if 1 <= l <= fn.argc:
                v = Unk("parameter %d" % l)
            else:
                v = Unk("uninitialised local")
        where = "%s:%s" % (fn.file, span[0]) if span else None
        for e in pl_proj(p):
            k = e[0]
            if k == "deref":
                continue
            if k == "downcast":
                continue
            if k == "field":
                if isinstance(v, Struct):
                    v = self.field(e[2], where, self._ctx(frame), e[3] if len(e) > 3 else None)
                elif isinstance(v, Tup):
                    v = v.comps[e[1]] if e[1] < len(v.comps) else Unk("tuple field")
                elif isinstance(v, Opt):
                    v = v.inner
                else:
                    v = Unk("field of untracked value", of=v if not isinstance(v, Unk) else v.of)
            else:
                v = Unk("projection %s" % k)
        return v

    def _assign(self, fn, env, place, v):
        if isinstance(place, int):
            env[place] = v
            return
        l = pl_local(place)
        proj = [e for e in pl_proj(place) if e[0] != "deref"]
        if len(proj) == 1 and proj[0][0] == "field":
            cur = env.get(l)
            idx = proj[0][1]
            if not isinstance(cur, Tup):
                cur = Tup([])
            comps = list(cur.comps)
            while len(comps) <= idx:
                comps.append(Unk("unset tuple field"))
            comps[idx] = v
            env[l] = Tup(comps)
            return
        env[l] = Unk("partial write")

    def _rvalue(self, fn, env, rv, span, frame):
        k = rv["k"]
        where = "%s:%s" % (fn.file, span[0]) if span else None
        ctx = self._ctx(frame)
        owner = frame[-1][1]
        if k == "use":
            return self._operand(fn, env, rv["x"], span, frame)
        if k in ("ref", "rawptr"):
            return self._read(fn, env, rv["p"], span, frame)
        if k == "cast":
            v = self._operand(fn, env, rv["x"], span, frame)
            if isinstance(v, Node):
                if INT_TY.match(rv.get("to", "")) and INT_TY.match(rv.get("from", "")):
                    return self.cast(v, rv["from"], rv["to"], where, ctx, owner)
                return self.opaque("cast %s -> %s" % (rv.get("from"), rv.get("to")), [v], where, ctx)
            return v
        if k == "bin":
            op = rv["op"]
            l = self._operand(fn, env, rv["l"], span, frame)
            r = self._operand(fn, env, rv["r"], span, frame)
            if op in ARITH:
                return self.bin(ARITH[op], l, r, where, ctx, owner, ty=rv.get("lty"))
            if op in OVERFLOW:
                return Tup([self.bin(OVERFLOW[op], l, r, where, ctx, owner, ty=rv.get("lty")), Unk("overflow flag")])
            if op in NEG:
                return self.cmp(op, l, r, where, ctx, owner)
            if isinstance(l, Node) or isinstance(r, Node):
                return self.opaque("operator %s" % op, [l, r], where, ctx)
            return Unk("operator %s" % op)
        if k == "un":
            v = self._operand(fn, env, rv["x"], span, frame)
            if rv["op"] == "Not" and isinstance(v, Cmp):
                return v.negated()
            if rv["op"] == "Neg" and isinstance(v, Node):
                return v
            if isinstance(v, Node):
                return self.opaque("operator %s" % rv["op"], [v], where, ctx)
            return Unk("operator %s" % rv["op"], of=v)
        if k == "discr":
            v = self._read(fn, env, rv["p"], span, frame)
            return Unk("discriminant", of=v)
        if k == "agg":
            fields = [self._operand(fn, env, f, span, frame) for f in rv["fields"]]
            if rv["ak"] == "tuple":
                return Tup(fields)
            if rv["ak"] == "adt":
                if rv.get("adt") == self.spec.adt:
                    return Struct()
                if rv.get("adt", "").startswith("core::option::Option"):
                    return Opt(fields[0]) if fields else Opt(Unk("None"))
            return Unk("aggregate", of=Tup(fields))
        return Unk("rvalue %s" % k)

    # -------------------------------------------------------------- calls
    def _call(self, fn, env, t, frame, where):
        args = [self._operand(fn, env, a, t.get("s"), frame) for a in t["args"]]
        path = t.get("f") or t.get("g") or "<indirect>"
        ctx = self._ctx(frame)
        owner = frame[-1][1]
        g = self.prog.fns.get(t.get("f")) if t.get("f") else None
        if g is not None and g.kind in ("Fn", "AssocFn"):
            label = self.entry_of.get(g.path)
            self.n_calls_inlined += 1
            self.inlined.add(g.path)
            if label is not None:
                bad = self._contract(label, g, args, where, ctx, owner)
                if bad is not None:
                    return [(bad, [])]
                return self._eval_fn(g, args, frame, label)
            return self._eval_fn(g, args, frame, owner)
        if t.get("local") and g is None and any(path.startswith(c + "::") or path.startswith("<" + c + "::") for c in self.prog.crates):
            raise Unanalysable("workspace callee %s has no MIR body in the facts" % path)
        m = _CHECKED.search(path)
        if m and len(args) == 2:
            node = self.bin(_OPNAME[m.group(3)], args[0], args[1], where, ctx, owner, ty=m.group(1))
            if m.group(2) == "checked":
                return [(Opt(node), [])]
            if m.group(2) == "overflowing":
                return [(Tup([node, Unk("overflow flag")]), [])]
            return [(node, [])]
        m = _PLAIN.search(path)
        if m and len(args) == 2:
            op = {"div_euclid": "Div", "rem_euclid": "Rem", "abs_diff": "Sub", "min": "Sel", "max": "Sel"}[m.group(2)]
            return [(self.bin(op, args[0], args[1], where, ctx, owner, ty=m.group(1), sel=m.group(2)), [])]
        m = _MINMAX.search(path)
        if m and len(args) == 2:
            return [(self.bin("Sel", args[0], args[1], where, ctx, owner, sel=m.group(1) or m.group(2)), [])]
        m = _TRYFROM.search(path)
        if m and len(args) == 1 and isinstance(args[0], Node):
            # checked conversion: on success the value is unchanged and fits the target
            to = m.group(1) or m.group(2)
            tb = ty_bits(to)
            v = args[0]
            return [(Opt(self._with_bits(v, min(v.bits, tb[0] - (1 if tb[1] else 0)), v.neg and tb[1])), [])]
        m = _RUNWRAP.search(path)
        if m and args and isinstance(args[0], Opt):
            inner = args[0].inner
            if m.group(1) == "unwrap_or" and len(args) == 2:
                return [(self.bin("Sel", inner, args[1], where, ctx, owner), [])]
            if m.group(1) == "unwrap_or_default":
                return [(self.bin("Sel", inner, self.const(0), where, ctx, owner), [])]
            return [(inner, [])]
        if _CONV.search(path) and len(args) == 1 and isinstance(args[0], Node):
            return [(args[0], [])]
        m = _UNWRAP.search(path)
        if m and args and isinstance(args[0], Opt):
            inner = args[0].inner
            if m.group(1) == "unwrap_or" and len(args) == 2:
                return [(self.bin("Sel", inner, args[1], where, ctx, owner), [])]
            if m.group(1) == "unwrap_or_default":
                return [(self.bin("Sel", inner, self.const(0), where, ctx, owner), [])]
            return [(inner, [])]
        self.opaque_calls.append(path)
        if any(value_nodes(a) for a in args):
            return [(self.opaque("result of the call to %s, which the checker does not model" % path, args, where, ctx), [])]
        return [(Unk("call %s" % path), [])]

    def _contract(self, label, g, args, where, ctx, owner):
        """Arguments of a call to a declared public entry must have the declared parameter units.  Returns None when they do
        (the callee is then inlined), else a summary value carrying the violation."""
        decl = self.spec.entries[label]
        errs = []
        for i, want in enumerate(decl["params"]):
            if want == "self" or i >= len(args):
                continue
            a = args[i]
            wu = self.spec.parse(want)
            if isinstance(a, Node) and a.unit is not None and a.unit != wu:
                holder = Node("bin", None, op="call", kids=(a,))
                key = "R-DIM-CALL|%s|%s|%s|arg%d|%s~%s|%s" % (self.entry, ">".join(ctx) or "-", label, i, self.spec.ustr(a.unit), want, self.prov(a))
                holder.errs.append(Err("R-DIM-CALL", key, "argument %d of %s is in %s [%s], the function takes %s there"
                                       % (i, label, self.spec.ustr(a.unit), self.prov(a), want), where, False, owner))
                errs.extend(holder.errs)
        if not errs:
            return None
        outs = []
        for rdecl in decl["result"]:
            n = self.opaque("result of %s called with wrong units" % label, args, where, ctx, unit=self.spec.parse(rdecl["unit"]))
            n.why = None
            outs.append(n)
        outs[0].errs.extend(errs)
        return outs[0] if len(outs) == 1 else Tup(outs)


# ------------------------------------------------------------------------------------------------ reading results

def live_errs(value, conds, entry_label):
    """Errors attached to nodes that reach the result or a branch condition.  Unit errors found inside an inlined *declared*
    entry are reported by that entry's own analysis (same units by the call contract), not again here."""
    out = []
    seen = set()
    roots = list(value_nodes(value))
    for c in conds:
        for e in c.errs:
            if id(e) not in seen:
                seen.add(id(e))
                out.append(e)
        for v in (c.l, c.r, c.value):
            if v is not None:
                roots.extend(value_nodes(v))
    for r in roots:
        for n in r.walk():
            for e in n.errs:
                if id(e) in seen:
                    continue
                seen.add(id(e))
                out.append(e)
    return [e for e in out if not (e.unit_only and e.owner is not None and e.owner != entry_label)]


def query_eras(value):
    """Eras of the rate fields (and time anchors) applied to a query-derived value in the result."""
    eras = set()
    for r in value_nodes(value):
        for n in r.walk():
            if n.kind == "bin" and n.op in ("Mul", "Div", "Rem") and n.params:
                eras |= n.chain
    return eras


def tree_str(n, spec, depth=0):
    if depth > 12:
        return "…"
    if n.kind == "field":
        return n.name
    if n.kind == "param":
        return n.name
    if n.kind == "const":
        return str(n.value)
    if n.kind == "cast":
        return "(%s as %s)" % (tree_str(n.kids[0], spec, depth + 1), (n.name or "->?").split("->")[-1])
    if n.kind == "bin":
        return "(%s %s %s)" % (tree_str(n.kids[0], spec, depth + 1), SYMBOL.get(n.op, n.op), tree_str(n.kids[1], spec, depth + 1))
    return "<%s>" % (n.why or "opaque")
