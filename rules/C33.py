"""C33 — phase-1 validation is total (never panics).

Decides: R-PANIC over closure(pallas_validate::phase1::{validate_tx, validate_txs, validate_<era>_tx x5}) in the crates
pallas_validate, pallas_traverse, pallas_primitives, pallas_codec, pallas_addresses and pallas_crypto (config default):
no panic-capable construct (MIR overflow / bounds / division asserts, unwrap/expect, panic!/unreachable!/unimplemented!,
slice range indexing, copy_from_slice, Iterator::sum on integers, generic `T: Add` arithmetic, ...) on transaction-,
UTxO- or parameter-derived data without a checked guard.

On top of the shared engine (pv/panic.py) this rule
  * adds panic-capable APIs the shared list does not recognise: `core::num::<impl T>::{pow, abs, div_ceil, ...}` (the shared
    pattern expects a path segment that strip_generics removes), `Iterator::{sum, product}` on integers (panics on overflow
    with overflow checks on), unresolved `T: Add/Sub/Mul/..` calls in generic bodies (a `u64` instantiation overflows);
    slice / array / str range indexing is kept as a fallback (the shared list covers it since its 2026-09-22 fix, in which
    case the callee is skipped here) — see EXTRA_APIS;
  * adds guard idioms verified on the operands or on the CFG: constant arguments (`Vec::insert(0, ..)`, `div_ceil(8)`,
    `chunks(64)`, `PositiveCoin::try_from(1)`, `hex::decode(<literal>)`), indexing by `..`, 128-bit arithmetic on operands
    widened from <= 64 bits, constant ranges under a dominating `len >= K` / `first()` success, `copy_from_slice` into a
    fixed array under a dominating `len == N`, `a - b` on references under a dominating `a >= b` — see local_idiom;
  * discharges the four minicbor-derive patterns by (derive macro, kind, signature) before the CFG guard search (which is
    slow on the generated bodies);
  * supplies the `py:` guards referenced from tables/panic_C33.json;
  * restricts class-hierarchy expansion of an unresolved `<S as Trait>::m` call to impls whose Self type has S's head
    constructor (refined_closure), indexes by `iter().position(..)` results (_position_index_idiom), and lets a reviewed
    table entry of F cover the same construct inside a closure of F (closure_sites_by_root_entry) - three refinements that
    keep behaviour-preserving refactorings (generic helpers, loop <-> iterator chains) silent.
"""
import re

from pv.program import Program
from pv import panic, guards
from pv.mir import sym_str, short_path
from pv.report import Result, finish

CRATES = ["pallas_validate", "pallas_traverse", "pallas_primitives", "pallas_codec", "pallas_addresses", "pallas_crypto"]

ENTRIES = [r"^pallas_validate::phase1::validate_tx$", r"^pallas_validate::phase1::validate_txs$",
           r"^pallas_validate::phase1::byron::validate_byron_tx$", r"^pallas_validate::phase1::shelley_ma::validate_shelley_ma_tx$",
           r"^pallas_validate::phase1::alonzo::validate_alonzo_tx$", r"^pallas_validate::phase1::babbage::validate_babbage_tx$",
           r"^pallas_validate::phase1::conway::validate_conway_tx$"]

RULE = ("R-PANIC: every MIR Assert{BoundsCheck,Overflow,DivisionByZero,RemainderByZero,OverflowNeg} and every call to a panicking API "
        "(shared list + slice/array/str range indexing, core::num int-ops, Iterator::sum/product, generic arithmetic-trait calls) in "
        "closure(phase-1 entry points) must be discharged by a CFG-verified dominating guard, by an operand idiom verified by the rule "
        "(constant non-zero / constant index / 128-bit widening of <=64-bit operands) or by a reviewed table entry whose checked guard spec still holds")

PRIMS = ("u8", "u16", "u32", "u64", "u128", "usize", "i8", "i16", "i32", "i64", "i128", "isize")
INT_OPS = r"(pow|abs|div_euclid|rem_euclid|next_power_of_two|ilog2|ilog10|ilog|isqrt|div_ceil|next_multiple_of|strict_\w+)"

# (regex on strip_generics(callee), kind label).  These complete pv/panic.PANIC_APIS, whose patterns for the same APIs expect a path
# segment that strip_generics removes (`core::slice::index::<impl Index<I> for [T]>::index` -> `core::slice::index::index`).
EXTRA_APIS = [
    (re.compile(r"^core::slice::index::index(_mut)?$"), "range-index"),
    (re.compile(r"^core::array::index(_mut)?$"), "range-index"),
    (re.compile(r"^core::str::traits::index(_mut)?$"), "range-index"),
    (re.compile(r"^core::num::" + INT_OPS + r"$"), "int-op"),
    (re.compile(r"^core::iter::traits::iterator::Iterator::(sum|product)$"), "iter-sum"),
    (re.compile(r"^core::iter::traits::accum::(Sum|Product)::(sum|product)$"), "iter-sum"),
    (re.compile(r"^core::ops::arith::(Add|Sub|Mul|Div|Rem|Neg)(Assign)?::\w+$"), "generic-arith"),
    (re.compile(r"^core::ops::bit::(Shl|Shr)(Assign)?::\w+$"), "generic-arith"),
]


def _range_kind(t):
    for a in t.get("targs", []):
        m = re.search(r"core::ops::range::(\w+)", a)
        if m:
            return m.group(1)
    for a in t.get("targs", []):
        if a in ("usize",):
            return "usize"
    return "?"


def extra_sites(fn):
    """Panic-capable calls of one body that pv.panic.enumerate_sites does not list."""
    out = []
    counts = {}
    for bi, b in enumerate(fn.blocks):
        if b.get("cleanup"):
            continue
        t = b["term"]
        if t["k"] not in ("call", "tailcall"):
            continue
        callee = t.get("f") or t.get("g")
        if callee is None or panic.panic_api_label(callee) not in (None, "arith-trait"):
            continue
        if panic.is_arith_trait_on_prims(t):
            continue            # listed by the engine
        s = panic.strip_generics(callee)
        lab = None
        for rx, l in EXTRA_APIS:
            if rx.search(s):
                lab = l
                break
        if lab is None:
            continue
        targs = t.get("targs", [])
        if lab == "generic-arith":
            # only unresolved calls on a type parameter: a concrete non-primitive operand type has its own (analysed or external) impl
            if t.get("f") is not None or not targs or not re.match(r"^[A-Z]\w*$", targs[0]) or "::" in targs[0]:
                continue
            sig = "%s<%s>" % (short_path(s), targs[0])
        elif lab == "iter-sum":
            ty = targs[-1] if targs else "?"
            if ty in ("f32", "f64"):
                continue
            sig = "%s<%s>" % (s.rsplit("::", 1)[-1], ty if ty in PRIMS else "generic")
        elif lab == "int-op":
            m = re.search(r"<impl (\w+)>", callee)
            sig = "%s::%s" % (m.group(1) if m else "?", s.rsplit("::", 1)[-1])
        else:
            sig = _range_kind(t)
        sp = t.get("s") or [0, None]
        if panic._is_fmt_expansion(sp[1]):
            continue
        st = panic.Site()
        st.fn, st.bb, st.term = fn, bi, t
        st.kind = "call:" + lab
        st.sig = sig
        st.detail = ", ".join(sym_str(fn.sym_operand(a), 80) for a in t.get("args", []))
        st.line, st.expn = sp[0], sp[1]
        k = (st.kind, st.sig)
        st.ordinal = counts.get(k, 0)
        counts[k] = st.ordinal + 1
        out.append(st)
    return out


# ------------------------------------------------------------------ operand idioms verified by the rule

def _strip_refs(s):
    while s[0] in ("ref", "deref"):
        s = s[1]
    return s


def _const_int(s):
    s = _strip_refs(s)
    if s[0] == "const" and not isinstance(s[1], bool):
        try:
            return int(s[1])
        except (TypeError, ValueError):
            return None
    return None


def _mag(s, depth=8):
    """Upper bound of |value| from the shape of the expression (constants, widening casts, sums/products thereof)."""
    if depth <= 0:
        return None
    k = s[0]
    if k == "const":
        v = _const_int(s)
        return abs(v) if v is not None else None
    if k == "cast":
        inner = _mag(s[1], depth - 1)
        frm = s[2]
        if frm in panic.INT_BITS:
            b = panic.INT_BITS[frm]
            lim = (1 << b) - 1 if frm[0] == "u" else (1 << (b - 1))
            return lim if inner is None else min(inner, lim)
        if frm == "bool":
            return 1
        return None
    if k == "field" and s[2] in (0, "0") and s[1][0] == "bin" and s[1][1].endswith("WithOverflow"):
        return _mag(s[1], depth)
    if k == "bin":
        op = s[1].replace("WithOverflow", "")
        a, b = _mag(s[2], depth - 1), _mag(s[3], depth - 1)
        if a is None or b is None:
            return None
        if op in ("Add", "Sub"):
            return a + b
        if op == "Mul":
            return a * b
    return None


def _range_need(r):
    """(lo, hi_exclusive_or_None) with constant bounds of a range expression, or None."""
    r = _strip_refs(r)
    if r[0] == "agg":
        name = str(r[1])
        f = [_const_int(x) for x in r[3]]
        if name.endswith("range::Range") and len(f) == 2 and None not in f:
            return f[0], f[1]
        if name.endswith("range::RangeFrom") and len(f) == 1 and f[0] is not None:
            return f[0], None
        if name.endswith("range::RangeTo") and len(f) == 1 and f[0] is not None:
            return 0, f[0]
        if name.endswith("range::RangeToInclusive") and len(f) == 1 and f[0] is not None:
            return 0, f[0] + 1
    if r[0] == "call" and panic.strip_generics(r[1]) == "core::ops::range::RangeInclusive::new" and len(r[2]) == 2:
        lo, hi = _const_int(r[2][0]), _const_int(r[2][1])
        if lo is not None and hi is not None:
            return lo, hi + 1
    return None


def _len_lower_bound(site, base):
    """Largest constant K with `len(base) >= K` established by a dominating, kill-checked branch."""
    best = None
    bc = guards.place_chain(base)
    if bc is None:
        return None
    for f in guards.facts_at_term(site.fn, site.bb):
        for op, l, r in f.oriented():
            k = _const_int(r) if r[0] == "const" else None
            lb = panic._len_of(l)
            if lb is not None and k is not None and guards.place_chain(lb) == bc:
                v = {"Ge": k, "Eq": k, "Gt": k + 1}.get(op)
                if v is not None and (best is None or v > best):
                    best = v
            # `x.first().ok_or(..)?` / `if let Some(_) = x.first()` succeeded  =>  len(x) >= 1
            if op == "Eq" and l[0] == "discr" and k is not None:
                inner = l[1]
                want = None
                while inner[0] in ("ref", "deref", "call"):
                    if inner[0] == "call":
                        nm = panic.strip_generics(inner[1])
                        if nm in ("core::slice::first", "core::slice::last", "core::slice::split_first", "core::slice::split_last"):
                            want = 1 if want is None else want     # Option: Some == 1
                            if len(inner[2]) == 1 and guards.place_chain(_strip_refs(inner[2][0])) == bc and k == want:
                                best = max(best or 0, 1)
                            break
                        if nm.endswith("::branch") and inner[2]:
                            want = 0                                # ControlFlow::Continue == 0
                            inner = inner[2][0]
                            continue
                        if nm in ("core::option::Option::ok_or", "core::option::Option::ok_or_else") and inner[2]:
                            inner = inner[2][0]
                            continue
                        break
                    inner = inner[1]
    return best


def _array_len_token(sym):
    """`N` of a `&mut [T; N]` -> `&mut [T]` unsizing cast (destination of copy_from_slice)."""
    if sym[0] == "cast" and isinstance(sym[2], str):
        m = re.search(r"\[[^;\]]+; ([^\]]+)\]$", sym[2])
        if m:
            return m.group(1).strip()
    return None


def _returns(fn):
    """Symbolic values of every assignment to the return place of `fn` (None if one of them is not a full assignment)."""
    out = []
    for bi, si, kind, payload in fn.defs().get(0, []):
        if kind == "assign":
            out.append(fn.sym_rvalue(payload[2], 12, (bi, si)))
        elif kind == "call":
            t = payload
            out.append(("call", t.get("f") or t.get("g") or "<indirect>", tuple(fn.sym_operand(a, 12) for a in t["args"]), bi))
        else:
            return None
    return out or None


def _len_terms(sym, depth=2):
    """k >= 0 if `sym` is a sum of k in-memory lengths (`x.len()`, slice metadata) and small constants - directly or through
    workspace accessors all of whose return values are such sums - else None."""
    from pv import mir as _mir
    sym = _strip_refs(sym)
    if sym[0] == "const":
        v = _const_int(sym)
        return 0 if v is not None and 0 <= v < (1 << 32) else None
    if panic._len_of(sym) is not None:
        return 1
    if sym[0] == "field" and sym[2] in (0, "0") and sym[1][0] == "bin" and sym[1][1] == "AddWithOverflow":
        sym = sym[1]
    if sym[0] == "bin" and sym[1] in ("Add", "AddWithOverflow"):
        a, b = _len_terms(sym[2], depth), _len_terms(sym[3], depth)
        return None if a is None or b is None else a + b
    if sym[0] == "call" and depth > 0:
        prog = _CTX.get("prog") or _mir._PROGRAM[0]
        g = prog.fns.get(sym[1]) if prog is not None else None
        if g is None or g.local_ty(0) != "usize":
            return None
        rets = _returns(g)
        if not rets:
            return None
        ks = [_len_terms(r, depth - 1) for r in rets]
        return None if any(k is None for k in ks) else max(ks)
    return None


_WRAP_RX = re.compile(r"::(branch|ok_or|ok_or_else|unwrap|expect)$")
_POS_RX = re.compile(r"^<core::slice::iter::Iter(Mut)?<.*> as core::iter::traits::iterator::Iterator>::r?position$")
_PAYLOAD_COMBINATORS = re.compile(r"^core::(option::Option|result::Result)::(map|and_then|is_some_and|is_none_or|is_ok_and|map_or|map_or_else|filter|inspect)$")


def _position_source(sym, payload):
    """`sym` is the value (payload=True: the Some/Ok/Continue payload) of `X.iter().position(..)` / `rposition`, possibly through
    `ok_or(..)`, `?`, `unwrap`, `expect`: return X, else None.  Such an index is < X.len()."""
    for _ in range(12):
        sym = _strip_refs(sym)
        if payload and sym[0] == "field" and str(sym[2]) == "0" and sym[1][0] == "downcast" and str(sym[1][2]) in ("Some", "Ok", "Continue"):
            sym, payload = sym[1][1], False
            continue
        if sym[0] != "call":
            return None
        if _POS_RX.search(sym[1]):
            if payload or not sym[2]:
                return None
            it = _strip_refs(sym[2][0])
            if it[0] == "call" and panic.strip_generics(it[1]) in ("core::slice::iter", "core::slice::iter_mut") and len(it[2]) == 1:
                return _strip_refs(it[2][0])
            return None
        nm = panic.strip_generics(sym[1])
        if _WRAP_RX.search(nm) and sym[2]:
            if payload and nm.rsplit("::", 1)[-1] in ("unwrap", "expect"):
                payload = False
            elif payload:
                return None
            sym = sym[2][0]
            continue
        return None
    return None


def _fixed_slice(fn, sym):
    """place chain of `sym` if it is rooted in a parameter that is never reassigned and has a slice/array reference type
    (the length of a `&[T]` / `&mut [T]` / `&[T; N]` cannot change)."""
    pc = guards.place_chain(sym)
    if pc is None or pc[0][0] != "param" or pc[1]:
        return None
    l = pc[0][1]
    ty = fn.local_ty(l) or ""
    if not re.match(r"^&(?:'\w+ )?(?:mut )?\[", ty) or not fn.is_stable_param(l):
        return None
    return pc


def _position_index_idiom(site):
    """BoundsCheck `a[i]` where i is the result of `a.iter().position(..)` on the same fixed-length slice: directly, or as the
    payload a closure receives from `Option::map/and_then/..` applied to that result (a captured by the closure)."""
    fn, t = site.fn, site.term
    lsym, isym = (fn.sym_operand(o) for o in t["ops"])
    base = panic._len_of(lsym)
    if base is None:
        return None
    src = _position_source(isym, True)
    if src is not None:
        pb, ps = _fixed_slice(fn, base), _fixed_slice(fn, src)
        if pb is not None and pb == ps:
            return "index is the result of `.iter().position(..)` on the same fixed-length slice"
        return None
    isym = _strip_refs(isym)
    prog = _CTX.get("prog")
    if fn.kind != "Closure" or isym[0] != "param" or isym[1] != 2 or prog is None:
        return None
    b = _strip_refs(base)
    if b[0] != "field" or _strip_refs(b[1])[0] != "param" or _strip_refs(b[1])[1] != 1:
        return None                     # base must be a capture: field of the closure environment (parameter 1)
    cap = int(b[2]) if str(b[2]).isdigit() else None
    parent = prog.fns.get(fn.b.get("parent") or "")
    if parent is None or cap is None:
        return None
    uses = []
    for bi, ct in parent.calls():
        for a in ct.get("args", []):
            sy = parent.sym_operand(a)
            if sy[0] == "agg" and sy[1] == "closure" and sy[2] == fn.path:
                uses.append((ct, sy))
    if len(uses) != 1:
        return None
    ct, agg = uses[0]
    if not _PAYLOAD_COMBINATORS.search(panic.strip_generics(ct.get("f") or "")) or cap >= len(agg[3]):
        return None
    src = _position_source(parent.sym_operand(ct["args"][0]), False)
    if src is None:
        return None
    pb, ps = _fixed_slice(parent, _strip_refs(agg[3][cap])), _fixed_slice(parent, src)
    if pb is not None and pb == ps:
        return ("index is the payload of `%s` applied to `.iter().position(..)` on the same fixed-length slice, which the closure captures"
                % short_path(panic.strip_generics(ct.get("f"))))
    return None


def _cfg_idiom(site, args):
    """Guards verified on the CFG for call-shaped sites the shared engine only judges in their Assert form."""
    k = site.kind
    if k in ("call:slice-index", "call:range-index") and len(args) == 2:
        need = _range_need(args[1])
        if need is not None:
            lo, hi = need
            if hi is not None and lo > hi:
                return None
            lb = _len_lower_bound(site, _strip_refs(args[0]))
            if lb is not None and lb >= (hi if hi is not None else lo):
                return "dominating guard: len(base) >= %d covers the constant range [%s..%s)" % (lb, lo, hi if hi is not None else "")
        return None
    if k == "call:copy_from_slice" and len(args) == 2:
        n = _array_len_token(args[0])
        if n is None:
            return None
        src = _strip_refs(args[1])
        sc = guards.place_chain(src)
        for f in guards.facts_at_term(site.fn, site.bb):
            for op, l, r in f.oriented():
                lb = panic._len_of(l)
                if op == "Eq" and lb is not None and (_strip_refs(lb) == src or (sc is not None and guards.place_chain(lb) == sc)):
                    if sym_str(r, 60) == n:
                        return "dominating guard: source length == %s, the length of the destination array" % n
        return None
    if k == "call:arith-trait" and site.sig.endswith("Sub::sub") and len(args) == 2:
        a, b = _strip_refs(args[0]), _strip_refs(args[1])
        for f in guards.facts_at_term(site.fn, site.bb):
            if f.op == "Eq" and f.l[0] == "call" and len(f.l[2]) == 2 and f.r[0] == "const" and f.r[1] in (1, True, "true"):
                nm = panic.strip_generics(f.l[1]).rsplit("::", 1)[-1]
                x, y = _strip_refs(f.l[2][0]), _strip_refs(f.l[2][1])
                if (nm in ("ge", "gt") and (x, y) == (a, b)) or (nm in ("le", "lt") and (x, y) == (b, a)):
                    return "dominating guard: minuend >= subtrahend (PartialOrd::%s on the same operands)" % nm
        return None
    return None


def local_idiom(site):
    """Reason string if the operands themselves (or a dominating branch on them) show the site cannot panic, else None."""
    fn, t, k = site.fn, site.term, site.kind
    args = [fn.sym_operand(a) for a in t.get("args", [])] if t["k"] in ("call", "tailcall") else []
    if k in ("call:range-index", "call:slice-index", "call:str-index"):
        if any("core::ops::range::RangeFull" in a for a in t.get("targs", [])):
            return "indexing by `..` (RangeFull) never fails"
    r = _cfg_idiom(site, args)
    if r:
        return r
    if k in ("call:range-index", "call:slice-index", "call:str-index"):
        return None
    if k == "call:vec-op" and site.sig.endswith("Vec::insert") and len(args) >= 2 and _const_int(args[1]) == 0:
        return "Vec::insert at constant index 0 (0 <= len always)"
    if k in ("call:Result::unwrap", "call:Result::expect", "call:Option::unwrap", "call:Option::expect") and args:
        prod = _strip_refs(args[0])
        if prod[0] == "call":
            name = panic.strip_generics(prod[1])
            if name == "hex::decode" and len(prod[2]) == 1:
                a = _strip_refs(prod[2][0])
                if a[0] == "constsym" and isinstance(a[1], str):
                    lit = a[1].strip('"').rstrip("…")
                    if lit and re.fullmatch(r"[0-9a-fA-F]*", lit):
                        return ("hex::decode of a compile-time string literal (dumped prefix of %d chars is hexadecimal): the outcome "
                                "does not depend on the transaction, UTxO set or parameters" % len(lit))
            if re.search(r"PositiveCoin as core::convert::TryFrom::try_from$", name) and len(prod[2]) == 1:
                v = _const_int(prod[2][0])
                if v is not None and v != 0:
                    return "PositiveCoin::try_from(%d): constant non-zero argument" % v
        return None
    if k == "call:int-op" and re.search(r"::(div_ceil|div_euclid|rem_euclid|next_multiple_of)$", site.sig) and len(args) == 2:
        v = _const_int(args[1])
        if v is not None and v not in (0, -1):
            return "%s by constant %d" % (site.sig, v)
        return None
    if k == "call:chunks(0)" and len(args) == 2:
        v = _const_int(args[1])
        if v is not None and v > 0:
            return "chunk size is the constant %d" % v
        return None
    if k == "BoundsCheck":
        return _position_index_idiom(site)
    if k == "Overflow:Add" and panic._operand_ty(fn, t["ops"][0]) == "usize":
        a, b = (_len_terms(fn.sym_operand(o)) for o in t["ops"])
        if a is not None and b is not None and 1 <= a + b <= 16:
            return ("sum of %d in-memory lengths and small constants (directly or through usize accessors that return such sums): "
                    "cannot exceed usize" % (a + b))
    if k.startswith("Overflow:") and k.split(":")[1] in ("Add", "Sub", "Mul"):
        aty = panic._operand_ty(fn, t["ops"][0])
        if aty in ("u128", "i128"):
            op = k.split(":")[1]
            a, b = (_mag(fn.sym_operand(o)) for o in t["ops"])
            if a is not None and b is not None:
                r = a * b if op == "Mul" else a + b
                if aty == "i128" and r < (1 << 127):
                    return "operands widened from <=64-bit values (|a|<=%d, |b|<=%d): result fits i128" % (a, b)
                if aty == "u128" and op != "Sub" and r < (1 << 128):
                    return "operands widened from <=64-bit values (a<=%d, b<=%d): result fits u128" % (a, b)
        return None
    return None


# ------------------------------------------------------------------ `py:` guards referenced from tables/panic_C33.json

def _closure_crates(prog):
    return [f for f in prog.fns.values() if f.crate in CRATES]


def guard_encode_infallible(prog):
    """minicbor encoding into a Vec can only fail through an `encode::Error::message/custom` built by an Encode impl: the
    only such construction in the analysed crates must be CborWrap's re-wrapping of an inner (equally impossible) error."""
    bad = []
    n = 0
    for f, bi, t in prog.callers_of(r"minicbor::encode::(error::)?Error(::<.*>)?::(message|custom)$"):
        if f.crate not in CRATES:
            continue
        n += 1
        if not re.search(r"CborWrap<T> as minicbor::encode::Encode<C>>::encode", f.path):
            bad.append(f.path)
    if bad:
        return False, "an Encode impl can now fail on its own: encode::Error::message/custom built in %s" % sorted(set(bad))
    return True, "no Encode impl in the analysed crates builds an encode error of its own (%d re-wrapping site in CborWrap); Vec<u8> writes are infallible" % n


def guard_mainnet_genesis(prog):
    """The slot/epoch arithmetic of pallas_traverse::time reached from phase-1 runs on GenesisValues::mainnet() only, whose
    epoch and slot lengths are non-zero literals."""
    m = prog.find(r"^pallas_traverse::wellknown::GenesisValues::mainnet$")
    if len(m) != 1:
        return False, "GenesisValues::mainnet not found"
    a = prog.adt("pallas_traverse::wellknown::GenesisValues")
    if a is None:
        return False, "GenesisValues ADT not found"
    names = [f["name"] for f in a["variants"][0]["fields"]]
    want = {"byron_epoch_length": None, "byron_slot_length": None, "shelley_epoch_length": None, "shelley_slot_length": None,
            "shelley_known_slot": None}
    from pv.flow import aggregates
    aggs = aggregates(m[0], r"^pallas_traverse::wellknown::GenesisValues$")
    if len(aggs) != 1:
        return False, "GenesisValues::mainnet no longer builds exactly one GenesisValues literal"
    fields = aggs[0][2]["fields"]
    for i, nme in enumerate(names):
        if nme in want:
            v = _const_int(m[0].sym_operand(fields[i]))
            if v is None or v <= 0:
                return False, "GenesisValues::mainnet().%s is not a positive literal" % nme
            want[nme] = v
    if want["byron_slot_length"] > 1000 or want["shelley_slot_length"] > 1000 or want["shelley_known_slot"] > (1 << 40):
        return False, "mainnet genesis literals outside the reviewed magnitude: %s" % want
    # phase-1 obtains GenesisValues only from mainnet()
    for f in prog.fns.values():
        if f.crate != "pallas_validate" or "::phase1::" not in f.path:
            continue
        for bi, t in f.calls():
            c = t.get("f") or t.get("g") or ""
            if re.search(r"wellknown::GenesisValues::", c) and not c.endswith("GenesisValues::mainnet") and "::time::" not in c:
                return False, "%s obtains GenesisValues from %s" % (f.path, c)
        if aggregates(f, r"^pallas_traverse::wellknown::GenesisValues$"):
            return False, "%s builds its own GenesisValues" % f.path
    return True, "phase-1 uses GenesisValues::mainnet() only; literals %s" % want


def guard_skipcbor_unused(prog):
    """SkipCbor::encode (todo!()) is in the closure only through class-hierarchy expansion of generic `Encoder::encode`."""
    for a in prog.adts():
        for v in a["variants"]:
            for f in v["fields"]:
                if "SkipCbor" in (f.get("ty") or ""):
                    return False, "SkipCbor is a field of %s" % a["path"]
    for f in _closure_crates(prog):
        if "SkipCbor" in f.path:
            continue
        for bi, t in f.calls():
            if "SkipCbor" in (t.get("f") or "") or any("SkipCbor" in x for x in t.get("targs", [])):
                return False, "SkipCbor is used in %s" % f.path
    return True, "no ADT field and no call in the analysed crates mentions SkipCbor"


def guard_hash_from_slice_unused(prog):
    """`impl From<&[u8]> for Hash<N>` (unchecked copy_from_slice) has no resolved caller in the analysed crates."""
    cs = [f.path for f, bi, t in prog.callers_of(r"hash::Hash<\w+> as core::convert::From<&")
          if f.crate in CRATES and t.get("f")]
    if cs:
        return False, "Hash::from(&[u8]) is now called from %s" % sorted(set(cs))
    return True, "no resolved call to <Hash<N> as From<&[u8]>>::from in the analysed crates (reached by class-hierarchy expansion only)"


def guard_constr_from_decode(prog):
    """Constr values handled in phase-1 come from decoding: the only constructions of plutus_data::Constr inside the phase-1
    closure are its Decode impl (tag restricted to 121..=127 | 1280..=1400 | 102-with-constructor) and derived Clone."""
    from pv.flow import aggregates
    bad = []
    n = 0
    closure = _CTX.get("closure")
    if closure is None:
        return False, "closure not available"
    for f, _ in closure.values():
        if aggregates(f, r"^pallas_primitives::plutus_data::Constr$"):
            n += 1
            if not re.search(r"plutus_data::Constr<A> as (minicbor::decode::Decode<'b, C>>::decode|core::clone::Clone>::clone)", f.path):
                bad.append(f.path)
    if bad:
        return False, "plutus_data::Constr is built inside the phase-1 closure outside its Decode impl: %s" % bad
    if n == 0:
        return False, "no construction of plutus_data::Constr found (anchor lost)"
    return True, "inside the closure plutus_data::Constr is built only by its Decode/Clone impls (%d)" % n


_CTX = {}


def guard_coerce_callers(prog):
    """Inside the phase-1 closure conway_coerce_to_coin is only fed by the two helpers whose result maps hold no zero."""
    closure = _CTX.get("closure")
    if closure is None:
        return False, "closure not available"
    allowed = (r"utils::conway_add_values$", r"utils::conway_add_minted_non_zero$")
    cs = sorted({f.path for f, bi, t in prog.callers_of(r"pallas_validate::utils::conway_coerce_to_coin$") if f.path in closure})
    if not cs:
        return False, "conway_coerce_to_coin has no caller in the closure (anchor lost)"
    bad = [c for c in cs if not any(re.search(a, c) for a in allowed)]
    if bad:
        return False, "conway_coerce_to_coin is reached from %s, whose argument map was not reviewed" % bad
    # the non-negative helper must still drop zero entries before returning
    # ... per asset: somewhere in the helper (its closures included) a retain/filter over a map or sequence whose values are the
    # u64 quantities keeps an entry only if `quantity > 0` (or != 0 / >= 1).  A policy-level filter alone leaves zero quantities in.
    h = prog.find(r"pallas_validate::utils::conway_add_multiasset_non_negative_values$")
    if len(h) != 1:
        return False, "conway_add_multiasset_non_negative_values not found"
    bodies = [h[0]]
    work = [h[0]]
    while work:
        g = work.pop()
        for k in prog.closure_children(g):
            bodies.append(k)
            work.append(k)
    per_asset = False
    for g in bodies:
        for bi, t in g.calls():
            name = panic.strip_generics(t.get("f") or "")
            targs = t.get("targs", [])
            if not re.search(r"HashMap::(retain|extract_if)$|BTreeMap::(retain|extract_if)$", name) or len(targs) < 2 or targs[1] != "u64":
                continue
            # the predicate: a closure of g comparing the (dereferenced) quantity with the constant 0 (or >= 1)
            for k in prog.closure_children(g):
                for bj, sj, st in k.statements():
                    if st[0] == "a" and st[2]["k"] == "bin" and st[2]["op"] in ("Gt", "Ne", "Ge", "Lt", "Le"):
                        for x, y in ((st[2]["l"], st[2]["r"]), (st[2]["r"], st[2]["l"])):
                            ys = k.sym_operand(y)
                            if ys[0] == "const" and str(ys[2]) == "u64" and int(ys[1]) in (0, 1):
                                per_asset = True
    if not per_asset:
        return False, "conway_add_multiasset_non_negative_values no longer drops zero quantities per asset (no retain over the asset map with predicate quantity > 0): conway_coerce_to_coin can meet a zero"
    return True, "callers in the closure: %s; zero quantities are dropped per asset by retain(quantity > 0)" % [short_path(c) for c in cs]


def derive_entry(table, s):
    fexp = s.fn.b.get("impl_expn") or s.fn.b.get("expn") or ""
    if "Derive:" not in fexp:
        return None
    grp = panic._derive_group(fexp)
    for e in table.get("derive_groups", []):
        if e["derive"] == grp and e["kind"] == s.kind and e.get("sig", "*") in ("*", s.sig):
            return e
    return None


# ------------------------------------------------------------------ call graph: class-hierarchy expansion restricted by the receiver type

_PRIM_HEADS = set(PRIMS) | {"bool", "char", "str", "f32", "f64", "()", "!"}


def _type_head(ty):
    """Head constructor of a type string as the facts print it (`&` prefixes kept, generic arguments dropped), or None when the
    type is not concrete at its head: a type parameter, an associated-type projection, `dyn`/`impl` types, unknown syntax."""
    if not ty:
        return None
    ty = ty.strip()
    pre = ""
    while True:
        m = re.match(r"^&(?:'\w+ )?(?:mut )?(.*)$", ty) or re.match(r"^\*(?:const|mut) (.*)$", ty)
        if not m:
            break
        pre += "&"
        ty = m.group(1).strip()
    if ty in _PRIM_HEADS:
        return pre + ty
    if ty.startswith("("):
        return pre + "(tuple)"
    if ty.startswith("["):
        return pre + "[slice]"
    m = re.match(r"^([a-z_][A-Za-z0-9_]*)((?:::[A-Za-z_][A-Za-z0-9_]*)+)(<.*>)?$", ty)
    if m:
        # crate + last segment: tolerant of re-export spellings of the same item
        return pre + m.group(1) + "::" + m.group(2).rsplit("::", 1)[-1]
    return None


def receiver_compatible(t, g):
    """May the unresolved trait-method call `t` (`<S as Tr<..>>::m`, S = first type argument) dispatch to the workspace impl `g`?
    Only impls whose Self type has the same head constructor as S can be selected; when S (or the impl's Self type) is not
    concrete at its head - a type parameter, a projection, a blanket impl - the edge is kept."""
    targs = t.get("targs") or []
    if not targs:
        return True
    hc = _type_head(targs[0])
    if hc is None:
        return True
    hi = _type_head(g.b.get("impl_self"))
    return hi is None or hi == hc


def refined_closure(P, entries):
    """pv.program.closure_of with the receiver-type restriction on class-hierarchy edges (resolved calls, closure children and
    type-argument driven call-backs of external generic functions are unchanged)."""
    seen = {}
    work = []
    dropped = 0
    for e in entries:
        if e.path not in seen:
            seen[e.path] = (e, None)
            work.append(e)
    while work:
        f = work.pop()
        nxt = []
        for g, t, bi in P.callees(f):
            if t.get("f") is None and t.get("g") and t.get("trait") and not receiver_compatible(t, g):
                dropped += 1
                continue
            nxt.append(g)
        for g in nxt + P.closure_children(f):
            if g.path not in seen:
                seen[g.path] = (g, f.path)
                work.append(g)
    return seen, dropped


def census(P, entries):
    closure, dropped = refined_closure(P, entries)
    sites = []
    skipped = {"unjudged_asserts": 0, "fmt_expansion": 0}
    for path, (fn, parent) in closure.items():
        ss, sk = panic.enumerate_sites(fn)
        sites.extend(ss)
        for k, v in sk.items():
            skipped[k] += v
    return closure, sites, skipped, dropped


def _root_path(fn):
    r = fn.b.get("root")
    if r:
        return r
    return re.sub(r"(::\{closure#\d+\})+$", "", fn.path)


def closure_sites_by_root_entry(res, P, table, sites):
    """A reviewed table entry of function F also covers the same construct (kind, signature) when a refactor moved it into a
    closure of F (`for` loop -> iterator chain): same reason, same checked guard, and never more sites than the entry's `max`
    counting those still in F itself.  Returns (sites left for the engine, number discharged here)."""
    by_fn = {}
    for e in table.get("entries", []):
        by_fn.setdefault(e["fn"], []).append(e)
    left = {}
    for e in table.get("entries", []):
        own = sum(1 for s in sites if s.fn.path == e["fn"] and s.kind == e["kind"] and e.get("sig", "*") in ("*", s.sig)
                  and s.ordinal < e.get("max", 1))
        left[id(e)] = e.get("max", 1) - own
    out, n = [], 0
    for s in sites:
        ent = None
        if s.fn.kind == "Closure" and s.fn.path not in by_fn:
            for e in by_fn.get(_root_path(s.fn), []):
                if e["kind"] == s.kind and e.get("sig", "*") in ("*", s.sig) and left[id(e)] > 0:
                    ent = e
                    break
        if ent is None:
            out.append(s)
            continue
        left[id(ent)] -= 1
        n += 1
        g = ent.get("guard")
        if g:
            ok, msg = panic.verify_guard(P, s, g)
            if not ok:
                res.violation(s.key(), "guard of reviewed panic site no longer holds: %s — %s(%s); reviewed reason was: %s" % (
                    msg, s.kind, s.detail, ent["reason"]), where=s.where(), rule="R-PANIC/guard")
                continue
            res.ok(s.key(), "R-PANIC/table(closure of %s)+guard" % short_path(ent["fn"]), ent["reason"] + " [" + msg + "]")
        else:
            res.ok(s.key(), "R-PANIC/table(closure of %s)" % short_path(ent["fn"]), ent["reason"])
    return out, n


# ------------------------------------------------------------------ run

def run(tier):
    res = Result("C33", tier, level="other")
    table = panic.load_table("panic_C33.json")
    P = Program(crates=list(CRATES), config="default")
    entries = [P.one(rx) for rx in ENTRIES]
    closure, sites, skipped, dropped = census(P, entries)
    res.count("cha_edges_dropped_by_receiver_type", dropped)
    _CTX["closure"] = closure
    _CTX["prog"] = P
    extra = []
    for p, (fn, _) in closure.items():
        extra.extend(extra_sites(fn))
    sites = sites + extra
    res.count("entries", len(entries))
    res.count("closure_functions", len(closure))
    for c in CRATES:
        res.count("closure_functions[%s]" % c, sum(1 for f, _ in closure.values() if f.crate == c))
    res.count("panic_sites", len(sites))
    res.count("panic_sites_extra_apis", len(extra))
    for k, v in skipped.items():
        res.count("skipped_%s" % k, v)
    res.floor("closure functions", len(closure), 300)
    res.floor("closure functions in pallas_validate", sum(1 for f, _ in closure.values() if f.crate == "pallas_validate"), 150)
    res.floor("panic sites", len(sites), 40)
    for need in (r"phase1::byron::check_fees$", r"phase1::shelley_ma::check_certificates$", r"phase1::alonzo::check_tx_ex_units$",
                 r"phase1::babbage::check_collaterals_assets$", r"phase1::conway::get_produced$", r"utils::add_values$",
                 r"utils::conway_add_values$", r"utils::verify_signature$", r"pallas_addresses::Address::from_bytes$"):
        if not any(re.search(need, p) for p in closure):
            res.violation("anchor:" + need, "anchored function %s not found in the phase-1 closure" % need, rule="anchor")
    for p, (fn, _) in closure.items():
        if fn.b.get("unsafe"):
            res.violation("unsafe:" + p, "unsafe fn in the phase-1 closure; the panic census does not cover UB", rule="R-PANIC/unsafe")
    rest = []
    n_idiom = n_derive = 0
    for s in sites:
        r = local_idiom(s)
        if r:
            n_idiom += 1
            res.ok(s.key(), "R-PANIC/idiom", r)
            continue
        # generated #[derive(Encode, Decode)] bodies: one reviewed line per generated pattern (done here, before the engine's
        # CFG guard search, which is slow on the large generated bodies and cannot succeed on these patterns)
        ent = derive_entry(table, s)
        if ent is not None:
            n_derive += 1
            res.ok(s.key(), "R-PANIC/derive-group", ent["reason"])
            continue
        rest.append(s)
    res.count("sites_idiom_discharged", n_idiom)
    res.count("sites_derive_pattern_discharged", n_derive)
    rest, n_cl = closure_sites_by_root_entry(res, P, table, rest)
    res.count("sites_table_discharged_in_closure_of_reviewed_fn", n_cl)
    panic.check_sites(res, P, closure, rest, table, "C33")
    res.analysed["sites_total"] = len(sites)
    for s in [x for x in sites if x.fn.crate == "pallas_validate"][:10]:
        res.sample({"site": s.key(), "where": s.where(), "operands": s.detail})
    res.assumptions += [
        "dev-profile panic semantics (overflow checks on), as in the pinned test suite",
        "std / third-party APIs not on the panicking lists (pv/panic.py + EXTRA_APIS here) are total; cryptoxide, minicbor, hex are trusted",
        "protocol parameters are the well-known ones (mainnet/preprod magnitudes: fee coefficients, deposits, ada_per_utxo_byte, "
        "collateral_percentage, maximum_epoch well below 2^32); arithmetic whose only unbounded operand is such a parameter times an "
        "in-memory count or length is table-discharged with that reason",
        "every in-memory collection or buffer handled during validation has fewer than 2^31 elements/bytes-per-element count "
        "(counters of certificates, scripts, transactions, CBOR container items cannot wrap)",
        "Environment::block_slot is a realistic chain slot (< 2^63); values of CertState are not adversarial beyond what the sum check covers",
        "transactions and UTxO entries were produced by the pallas decoders (PositiveCoin/NonZeroInt non-zero, Constr tags restricted); "
        "stack exhaustion on deeply nested data is not a panic and is not covered",
        "the closure follows resolved calls plus class-hierarchy expansion of unresolved trait calls inside the six crates (an unresolved "
        "`<S as Trait>::m` with a concrete receiver head S only reaches impls for that head); pallas_math and other workspace crates are not reached",
    ]
    return finish(res,
                  explanation="Decides the structural clause of C33: every panic-capable construct reachable from the seven phase-1 entry points "
                              "(through pallas_validate and the pallas_traverse/primitives/codec/addresses/crypto functions they reach) is guard-, "
                              "idiom- or table-discharged. Does not execute validation; semantic correctness of the rules is not decided.",
                  rule_text=RULE,
                  trusted_base=["rustc MIR (nightly, opt-level 0, overflow checks on)", "tables/panic_C33.json (reviewed reasons, checked guards)",
                                "panicking-API lists in pv/panic.py and rules/C33.py"])
