// Goes into pallas-validate/tests/conway.rs, inside `mod conway_tests` (after `use super::*;`).
// Fails before the fix (panic: attempt to multiply with overflow in conway::check_collaterals_assets),
// passes with proposed/C33/fix-collateral-arith.diff.  The same expression exists in alonzo.rs and babbage.rs.

    #[test]
    // Same as collateral_min_lovelace, except that the fee declared by the transaction is 2^63 lovelace.
    fn collateral_check_with_a_huge_fee() {
        let cbor_bytes: Vec<u8> = cbor_to_bytes(include_str!("../../test_data/conway6.tx"));
        let mut mtx: Tx = conway_minted_tx_from_cbor(&cbor_bytes);
        let datum_bytes = cbor_to_bytes("d8799f4568656c6c6fff");
        let tx_outs_info: &[ConwayTxOutInfo] = &[(
            String::from("71faae60072c45d121b6e58ae35c624693ee3dad9ea8ed765eb6f76f9f"),
            Value::Coin(2000000),
            Some(DatumOption::Data(CborWrap(
                minicbor::decode(&datum_bytes).unwrap(),
            ))),
            None,
        )];
        let mut utxos: UTxOs = mk_utxo_for_conway_tx(&mtx.transaction_body, tx_outs_info);
        let collateral_info: &[ConwayCollateralInfo] = &[(
            String::from(
                "015c5c318d01f729e205c95eb1b02d623dd10e78ea58f72d0c13f892b2e8904edc699e2f0ce7b72be7cec991df651a222e2ae9244eb5975cba",
            ),
            Value::Coin(88118796),
            None,
            None,
        )];
        add_collateral_conway(&mtx.transaction_body, &mut utxos, collateral_info);
        let mut tx_body: TransactionBody = (*mtx.transaction_body).clone();
        tx_body.fee = 1 << 63;
        tx_body.total_collateral = None;
        let mut tx_buf: Vec<u8> = Vec::new();
        let _ = encode(tx_body, &mut tx_buf);
        mtx.transaction_body =
            Decode::decode(&mut Decoder::new(tx_buf.as_slice()), &mut ()).unwrap();
        let metx: MultiEraTx = MultiEraTx::from_conway(&mtx);
        let env: Environment = Environment {
            prot_params: MultiEraProtocolParameters::Conway(mk_mainnet_params_epoch_380()),
            prot_magic: 764824073,
            block_slot: 149807950,
            network_id: 1,
            acnt: Some(AccountState {
                treasury: 261_254_564_000_000,
                reserves: 0,
            }),
        };
        let mut cert_state: CertState = CertState::default();
        match validate_txs(&[metx], &env, &utxos, &mut cert_state) {
            Ok(()) => panic!("88 ada of collateral cannot cover 150% of a 2^63 lovelace fee"),
            Err(err) => match err {
                PostAlonzo(PostAlonzoError::CollateralMinLovelace) => (),
                _ => panic!("Unexpected error ({err:?})"),
            },
        }
    }
