"""KES helpers shared by C12 and C13 (facts config `kes`): byte regions, erase/read/secret summaries, finite evaluation.

Everything here is stated over resolved callee def-paths, types, constant-folded ranges, dominance/reachability and value
provenance — never over source text, line numbers or local variable names.

* Region      a byte range of a root object: ((kind, index, chain), lo, hi); kind "param"|"local"|"temp", chain = field /
              variant names below the root (`self.0`, `(opt as Some).0`), hi None = "to the end of the root".
* KesModel    per-function facts, memoised over the `pallas_crypto::kes::*` functions (and any workspace helper they call):
              zero events, derivation reads (secret-key sinks), secret outputs, wrapped buffers, summaries over parameters.
* Eval        finite-domain partial evaluation of MIR with some integer parameters bound to constants (period counters):
              constants are folded, determined switches followed, undetermined ones forked.  Nothing of pallas is executed —
              only integer constants, enum discriminants and a closed list of pure integer std functions are interpreted.
"""
import re
from collections import namedtuple

from .mir import pl_local, pl_proj, op_place, sym_str, sym_walk, _INT_RANGE
from . import hirwalk

KES_MOD = re.compile(r"pallas_crypto::kes::(common|single_kes|summed_kes)::")
Region = namedtuple("Region", "root lo hi")


def callee(t):
    return t.get("f") or t.get("g") or "<indirect>"


# ------------------------------------------------------------------------------------------------ constants

def cint(s):
    """Integer value of a constant-foldable symbolic expression, else None."""
    k = s[0]
    if k == "const":
        try:
            return int(s[1])
        except (TypeError, ValueError):
            return None
    if k == "field" and s[1][0] == "bin" and s[1][1].endswith("WithOverflow") and str(s[2]) == "0":
        return cint(("bin", s[1][1][:-len("WithOverflow")], s[1][2], s[1][3]))
    if k == "bin":
        a, b = cint(s[2]), cint(s[3])
        if a is None or b is None:
            return None
        op = s[1].replace("Unchecked", "")
        if op == "Add":
            return a + b
        if op == "Sub":
            return a - b
        if op == "Mul":
            return a * b
        if op == "Div" and b:
            return a // b
        if op == "Rem" and b:
            return a % b
        if op == "Shl" and 0 <= b < 128:
            return a << b
        if op == "Shr" and 0 <= b < 128:
            return a >> b
        return None
    if k == "cast" and len(s) > 4 and s[4] == "IntToInt":
        return cint(s[1])
    return None


# ------------------------------------------------------------------------------------------------ regions

_IDX = re.compile(r"ops::index::Index(Mut)?<I> for \[T(; N)?\]>::index(_mut)?$")
_GET = re.compile(r"core::slice::<impl \[T\]>::get(_mut)?$")
_SPLIT = re.compile(r"core::slice::<impl \[T\]>::split_at(_mut)?(_unchecked|_checked)?$")
_TRANSP = re.compile(r"(::as_mut_slice|::as_slice|::as_mut|::as_ref|::deref|::deref_mut|::borrow|::borrow_mut|::as_mut_ptr|::as_ptr|"
                     r"::iter|::iter_mut|::into_iter|::as_bytes|::as_mut_bytes)$")
_UNWRAP = re.compile(r"core::(option::Option|result::Result)::<.*>::(unwrap|expect|unwrap_unchecked)$")
_RANGE = re.compile(r"core::ops::range::(RangeFull|RangeFrom|RangeToInclusive|RangeTo|RangeInclusive|Range)$|core::range::(RangeFrom|Range)$")


def _range_bounds(s):
    """(lo, hi) of a symbolic range value (hi None = open); None when not a constant range."""
    if s[0] == "agg" and isinstance(s[1], str):
        m = _RANGE.search(s[1])
        if not m:
            return None
        kind = m.group(1) or m.group(2)
        f = s[3]
        if kind == "RangeFull":
            return 0, None
        if kind == "RangeFrom":
            a = cint(f[0])
            return (a, None) if a is not None else None
        if kind == "RangeTo":
            b = cint(f[0])
            return (0, b) if b is not None else None
        if kind == "RangeToInclusive":
            b = cint(f[0])
            return (0, b + 1) if b is not None else None
        if kind == "Range":
            a, b = cint(f[0]), cint(f[1])
            return (a, b) if a is not None and b is not None else None
        return None
    if s[0] == "call" and re.search(r"ops::range::RangeInclusive::<.*>::new$", s[1]) and len(s[2]) == 2:
        a, b = cint(s[2][0]), cint(s[2][1])
        return (a, b + 1) if a is not None and b is not None else None
    return None


def _sub(r, lo, hi):
    if r is None:
        return None
    nlo = r.lo + lo
    nhi = (r.lo + hi) if hi is not None else r.hi
    return Region(r.root, nlo, nhi)


def _array_len(ty):
    m = re.match(r"^\[u8; (\d+)\]$", ty or "")
    return int(m.group(1)) if m else None


def region_of(fn, s):
    """Byte region denoted by a place-like symbolic expression (through refs, unsizing, range indexing with constant
    bounds, transparent accessors), else None."""
    k = s[0]
    if k in ("ref", "deref"):
        return region_of(fn, s[1])
    if k == "cast":
        if len(s) > 4 and ("Unsize" in str(s[4]) or "Ptr" in str(s[4]) or "MutToConst" in str(s[4])):
            return region_of(fn, s[1])
        return None
    if k == "param":
        return Region(("param", s[1], ()), 0, None)
    if k == "local":
        n = _array_len(fn.local_ty(s[1]))
        return Region(("local", s[1], ()), 0, n)
    if k == "field":
        sp = split_field_region(fn, s)
        if sp is not None:
            return sp
    if k in ("field", "downcast"):
        b = region_of(fn, s[1])
        if b is None or b.lo != 0 or b.root[0] == "temp":
            return None
        return Region((b.root[0], b.root[1], b.root[2] + (str(s[2]),)), 0, None)
    if k == "call":
        name = s[1]
        args = s[2]
        if _IDX.search(name) and len(args) == 2:
            rb = _range_bounds(args[1])
            base = region_of(fn, args[0])
            if rb is None or base is None:
                return None
            return _sub(base, rb[0], rb[1])
        if _GET.search(name) and len(args) == 2:
            rb = _range_bounds(args[1])
            base = region_of(fn, args[0])
            if rb is None or base is None:
                return None
            return _sub(base, rb[0], rb[1])
        if _UNWRAP.search(name) and args:
            inner = args[0]
            if inner[0] == "call" and _GET.search(inner[1]):
                return region_of(fn, inner)
            return None
        if _TRANSP.search(name) and len(args) == 1:
            return region_of(fn, args[0])
        return None
    if k == "subslice":
        b = region_of(fn, s[1])
        if b is None or s[4]:
            return None
        return _sub(b, s[2], None)
    return None


def split_field_region(fn, s):
    """`x.split_at_mut(mid).0 / .1` with constant mid."""
    if s[0] == "field" and s[1][0] == "call" and _SPLIT.search(s[1][1]) and len(s[1][2]) == 2:
        base = region_of(fn, s[1][2][0])
        mid = cint(s[1][2][1])
        if base is None or mid is None:
            return None
        return _sub(base, 0, mid) if str(s[2]) == "0" else _sub(base, mid, None)
    return None


def region(fn, s):
    r = split_field_region(fn, _strip_refs(s))
    if r is not None:
        return r
    return region_of(fn, s)


def _strip_refs(s):
    while s[0] in ("ref", "deref") or (s[0] == "cast" and len(s) > 4 and "Unsize" in str(s[4])):
        s = s[1]
    return s


def covers(z, r):
    """Does region z contain region r?"""
    if z.root != r.root:
        # an event on the whole parent object covers its fields
        if z.root[:2] == r.root[:2] and z.lo == 0 and z.hi is None and r.root[2][:len(z.root[2])] == z.root[2]:
            return True
        return False
    if z.lo > r.lo:
        return False
    if z.hi is None:
        return True
    return r.hi is not None and z.hi >= r.hi


def overlaps(a, b):
    if a.root != b.root:
        return False
    if a.hi is not None and a.hi <= b.lo:
        return False
    if b.hi is not None and b.hi <= a.lo:
        return False
    return True


def region_str(fn, r, names=True):
    kind, idx, chain = r.root
    if kind == "param":
        base = (fn.local_name(idx) if names and fn.local_name(idx) else "arg%d" % idx)
    elif kind == "local":
        base = (fn.local_name(idx) if names and fn.local_name(idx) else "tmp:%s" % fn.local_ty(idx))
    else:
        base = "temp"
    for c in chain:
        base += "." + c
    if r.lo == 0 and (r.hi is None or (kind == "local" and not chain and r.hi == _array_len(fn.local_ty(idx)))):
        return base
    return "%s[%d..%s]" % (base, r.lo, "" if r.hi is None else r.hi)


def region_key(fn, r):
    """Stable rendering without local variable names (parameters by position, locals by type)."""
    kind, idx, chain = r.root
    base = "arg%d" % idx if kind == "param" else ("local<%s>" % fn.local_ty(idx) if kind == "local" else "temp")
    for c in chain:
        base += "." + c
    return "%s[%d..%s]" % (base, r.lo, "" if r.hi is None else r.hi)


# ------------------------------------------------------------------------------------------------ zero sources

def _hir_zero_expr(n):
    n = hirwalk.strip(n) if n.get("k") == "block" else n
    k = n.get("k")
    if k == "lit":
        v = n.get("v")
        return isinstance(v, dict) and v.get("int") == 0
    if k == "cast":
        return _hir_zero_expr(n["a"])
    if k == "repeat":
        return _hir_zero_expr(n["e"])
    if k == "array":
        return bool(n.get("xs")) and all(_hir_zero_expr(x) for x in n["xs"])
    return False


def promoted_is_zero(fn, ty):
    """A promoted constant `&[u8; N]` of fn is all zeros iff EVERY promotable `&<rvalue>` expression of that type in the
    function's type-resolved HIR is a zero literal array (`&[0u8; N]`, `&[0, 0, ..]`).  Fail closed otherwise: the MIR
    facts name promoted constants but do not carry their value."""
    h = fn.hir
    if not h:
        return False
    types = h.get("types", [])
    cands = []
    for n in hirwalk.walk(h.get("root")):
        if n.get("k") != "ref" or n.get("mut"):
            continue
        t = n.get("t")
        if t is None or t >= len(types) or types[t] != ty:
            continue
        inner = n.get("e") or {}
        ik = inner.get("k")
        if ik in ("repeat", "array", "constblock") or (ik == "path" and inner.get("rk") != "Local"):
            cands.append(inner)
    return bool(cands) and all(_hir_zero_expr(c) for c in cands)


def is_zero_bytes(fn, s):
    """Is the symbolic value (a `&[u8]`/`&[u8; N]` source operand) an all-zero byte array?"""
    s = _strip_refs(s)
    if s[0] == "call" and _TRANSP.search(s[1]) and len(s[2]) == 1:
        return is_zero_bytes(fn, s[2][0])
    if s[0] == "call" and (_IDX.search(s[1]) or _GET.search(s[1])) and len(s[2]) == 2:
        return is_zero_bytes(fn, s[2][0])      # any sub-slice of an all-zero array
    if s[0] == "call" and _UNWRAP.search(s[1]) and s[2]:
        return is_zero_bytes(fn, s[2][0])
    if s[0] == "repeat":
        return cint(s[1]) == 0
    if s[0] == "agg" and s[1] == "array":
        return bool(s[3]) and all(cint(x) == 0 for x in s[3])
    if s[0] == "constsym" and "promoted[" in str(s[1]) and re.match(r"^&\[u8; \d+\]$", str(s[2])):
        return promoted_is_zero(fn, s[2])
    return False


# ------------------------------------------------------------------------------------------------ the model

SINKS = [
    (re.compile(r"^ed25519_dalek::signing::SigningKey::(from_bytes|from_keypair_bytes)$"), 0, "ed25519 signing key"),
    (re.compile(r"^ed25519_dalek::hazmat::ExpandedSecretKey::(from_bytes|from_slice)$"), 0, "ed25519 expanded secret key"),
    (re.compile(r"^pallas_crypto::hash::hasher::Hasher::<\w+>::input$"), 1, "seed expansion hash"),
    (re.compile(r"^pallas_crypto::hash::hasher::Hasher::<\w+>::(hash|hash_tagged)$"), 0, "seed expansion hash"),
]
SECRET_BYTES = re.compile(r"^ed25519_dalek::signing::SigningKey::(to_bytes|as_bytes|to_keypair_bytes|to_scalar_bytes)$")
_COPY = re.compile(r"core::slice::<impl \[T\]>::(copy_from_slice|clone_from_slice)$")
_FILL = re.compile(r"core::slice::<impl \[T\]>::fill$")
_ZEROIZE = re.compile(r"^<\[Z(; N)?\] as zeroize::Zeroize>::zeroize$")

Event = namedtuple("Event", "bb region how stmt")
Read = namedtuple("Read", "bb region how origin")
Read.__new__.__defaults__ = (None,)


def _is_mut_byte_param_ty(ty):
    ty = ty or ""
    return ty.startswith("&mut ") or ty.startswith("core::option::Option<&mut ")


class KesModel:
    def __init__(self, prog):
        self.P = prog
        self._ev = {}
        self._zs = {}
        self._rd = {}
        self._ra = {}
        self._out = {}
        self._wr = {}
        self._active = set()
        self.sk_adts = self._sk_adts()

    # -- inventory
    def kes_fns(self):
        return [f for f in self.P.fns.values() if KES_MOD.search(f.path) and "::test" not in f.path
                and not (f.b.get("expn") or "").startswith("Derive") and "serde" not in f.path]

    def _sk_adts(self):
        """ADTs of the kes modules that wrap a caller-provided `&mut [u8]` key buffer (the secret-key types)."""
        out = {}
        for a in self.P.adts():
            if not KES_MOD.search(a["path"] + "::") or a["kind"] != "Struct":
                continue
            fs = a["variants"][0]["fields"] if a["variants"] else []
            if len(fs) == 1 and re.match(r"^&('\w+ )?mut \[u8\]$", fs[0]["ty"]):
                out[a["path"]] = a
        return out

    def drop_fn(self, adt):
        for f in self.P.fns.values():
            if f.b.get("impl_trait") == "core::ops::drop::Drop" and f.b.get("impl_adt") == adt and f.name == "drop":
                return f
        return None

    def mutable_root(self, fn, r):
        kind, idx, chain = r.root
        if kind == "param":
            return _is_mut_byte_param_ty(fn.local_ty(idx))
        if kind == "local":
            return True
        return False

    # -- Option-parameter conditions
    def option_edges(self, fn):
        """param index -> {"some": {(src,dst)}, "none": {(src,dst)}} for switches on the discriminant (or is_some/is_none)
        of an Option-typed parameter."""
        if getattr(fn, "_kes_optedges", None) is not None:
            return fn._kes_optedges
        out = {}
        for bi in fn.live_blocks():
            t = fn.blocks[bi]["term"]
            if t["k"] != "switch":
                continue
            d = fn.sym_operand(t["d"])
            j = None
            some_on_nonzero = True
            if d[0] == "discr":
                p = _strip_refs(d[1])
                if p[0] == "param" and fn.local_ty(p[1]).startswith("core::option::Option<"):
                    j = p[1]
            elif d[0] == "call" and re.search(r"core::option::Option::<.*>::(is_some|is_none)$", d[1]) and d[2]:
                p = _strip_refs(d[2][0])
                if p[0] == "param":
                    j = p[1]
                    some_on_nonzero = d[1].endswith("is_some")
            if j is None:
                continue
            e = out.setdefault(j, {"some": set(), "none": set()})
            listed = {}
            for v, tg in t["ts"]:
                listed[int(v)] = tg
            for v, tg in listed.items():
                is_some = (v != 0) if some_on_nonzero else (v == 0)
                e["some" if is_some else "none"].add((bi, tg))
            if t["o"] not in listed.values() or True:
                # the otherwise edge stands for the values not listed
                rest_some = (0 in listed) if some_on_nonzero else (0 not in listed)
                if len(listed) == 1 and not _unreachable(fn, t["o"]):
                    e["some" if rest_some else "none"].add((bi, t["o"]))
        fn._kes_optedges = out
        return out

    def conds(self, fn):
        cs = [None]
        for j in self.option_edges(fn):
            cs.append(("some", j))
            cs.append(("none", j))
        return cs

    def _removed(self, fn, cond):
        if cond is None:
            return set()
        e = self.option_edges(fn).get(cond[1])
        if not e:
            return set()
        return e["none"] if cond[0] == "some" else e["some"]

    def reach_return(self, fn, starts, avoid, removed=()):
        """Can a normal return be reached from any block in `starts` (entering them), never entering a block in `avoid`
        and never taking an edge in `removed`?  Returns the return block reached, or None."""
        live = set(fn.live_blocks())
        seen = set()
        st = [b for b in starts if b in live and b not in avoid]
        seen.update(st)
        while st:
            x = st.pop()
            if fn.blocks[x]["term"]["k"] == "return":
                return x
            for s in fn.succ(x):
                if s in seen or s in avoid or s not in live or (x, s) in removed:
                    continue
                seen.add(s)
                st.append(s)
        return None

    def only_under(self, fn, bb, cond):
        """Is block bb reachable from the entry only on paths satisfying cond?"""
        if cond is None:
            return True
        removed = self._removed(fn, cond)   # edges of the opposite case
        e = self.option_edges(fn).get(cond[1])
        if not e:
            return False
        # reachable without taking an edge of the case `cond` itself => not only-under
        own = e[cond[0]]
        live = set(fn.live_blocks())
        seen = {0}
        st = [0]
        while st:
            x = st.pop()
            if x == bb:
                return False
            for s in fn.succ(x):
                if s in seen or s not in live or (x, s) in own:
                    continue
                seen.add(s)
                st.append(s)
        return True

    # -- argument mapping
    def map_to_caller(self, fn, t, k, chain, lo, hi):
        """Region at the call site `t` of fn that corresponds to (param k).chain[lo..hi] of the callee."""
        if k - 1 >= len(t["args"]):
            return None
        a = fn.sym_operand(t["args"][k - 1])
        chain = list(chain)
        if chain[:2] == ["Some", "0"]:
            a = _strip_refs(a)
            if a[0] == "agg" and str(a[1]).startswith("core::option::Option") and a[2] == "Some" and a[3]:
                a = a[3][0]
                chain = chain[2:]
            else:
                return None
        r = region(fn, a)
        if r is None:
            return None
        if chain:
            if r.lo != 0 or r.hi is not None:
                return None
            r = Region((r.root[0], r.root[1], r.root[2] + tuple(chain)), 0, None)
        return _sub(r, lo, hi)

    def cond_at_site(self, fn, t, cond):
        """True / False / None (unknown) — does the callee-side condition hold at this call site?"""
        if cond is None:
            return True
        j = cond[1]
        if j - 1 >= len(t["args"]):
            return None
        a = _strip_refs(fn.sym_operand(t["args"][j - 1]))
        if a[0] == "agg" and str(a[1]).startswith("core::option::Option"):
            return (a[2] == "Some") == (cond[0] == "some")
        return None

    # -- zero events
    def events(self, fn):
        if fn.path in self._ev:
            return self._ev[fn.path]
        out = []
        for bi, t in fn.calls():
            name = callee(t)
            if _COPY.search(name) and len(t["args"]) == 2:
                dst = region(fn, fn.sym_operand(t["args"][0]))
                if dst is not None and is_zero_bytes(fn, fn.sym_operand(t["args"][1])):
                    out.append(Event(bi, dst, "overwritten with a zero array", None))
                continue
            if _FILL.search(name) and len(t["args"]) == 2:
                dst = region(fn, fn.sym_operand(t["args"][0]))
                if dst is not None and cint(fn.sym_operand(t["args"][1])) == 0:
                    out.append(Event(bi, dst, "fill(0)", None))
                continue
            if _ZEROIZE.search(name) and t["args"]:
                dst = region(fn, fn.sym_operand(t["args"][0]))
                if dst is not None:
                    out.append(Event(bi, dst, "zeroize()", None))
                continue
            g = self.P.fns.get(t.get("f") or "")
            if g is not None and g is not fn:
                for (k, chain, lo, hi, cond) in self.zero_summary(g):
                    if self.cond_at_site(fn, t, cond) is not True:
                        continue
                    r = self.map_to_caller(fn, t, k, chain, lo, hi)
                    if r is not None:
                        out.append(Event(bi, r, "zeroed by %s" % _short(g.path), None))
        out += self._loop_zero_events(fn)
        # whole-array re-initialisation of a local: `buf = [0u8; N]`
        for bi, si, s in fn.statements():
            if s[0] == "a" and isinstance(s[1], int) and s[2]["k"] == "repeat":
                n = _array_len(fn.local_ty(s[1]))
                x = s[2]["x"].get("k") or {}
                if n is not None and str(x.get("v")) == "0":
                    out.append(Event(bi, Region(("local", s[1], ()), 0, n), "re-initialised with zeros", si))
        # drop of a secret-key value whose Drop impl zeroes the buffer it wraps
        for bi in fn.live_blocks():
            t = fn.blocks[bi]["term"]
            if t["k"] != "drop":
                continue
            for r in self._dropped_buffers(fn, pl_local(t["p"]), set()):
                out.append(Event(bi, r, "zeroed by the Drop impl of the key wrapping it", None))
        self._ev[fn.path] = out
        return out

    def _loop_zero_events(self, fn):
        """`for b in region.iter_mut() { *b = 0 }` (every element, no early exit) and `region.iter_mut().for_each(|b| *b = 0)`."""
        out = []
        live = set(fn.live_blocks())
        for hb, t in fn.calls():
            name = callee(t)
            if re.search(r"^<core::slice::iter::IterMut<'a, T> as core::iter::traits::iterator::Iterator>::next$", name) and t["args"]:
                reg = region(fn, _resolve_local(fn, fn.sym_operand(t["args"][0])))
                if reg is None or reg.root[0] == "local" and "IterMut" in fn.local_ty(reg.root[1]):
                    continue
                scc = {x for x in live if fn.can_reach(hb, x) and fn.can_reach(x, hb) and (x == hb or fn.can_reach_strict(hb, x))}
                if hb not in scc or not fn.can_reach_strict(hb, hb):
                    continue
                # the element assignments `*b = 0` with b = (next() as Some).0
                assigns = set()
                for bi, si, s in fn.statements():
                    if bi not in scc or s[0] != "a" or isinstance(s[1], int):
                        continue
                    proj = pl_proj(s[1])
                    if len(proj) != 1 or proj[0][0] != "deref" or s[2]["k"] != "use":
                        continue
                    c = s[2]["x"].get("k") or {}
                    if str(c.get("v")) != "0":
                        continue
                    b = _resolve_local(fn, fn.sym_local(pl_local(s[1])))
                    if b[0] == "field" and b[1][0] == "downcast" and b[1][1][0] == "call" and b[1][1][3] == hb and str(b[1][2]) == "Some":
                        assigns.add(bi)
                if not assigns:
                    continue
                # exits of the loop: only the None edge of the switch on the discriminant of next()'s result
                exits = [(x, y) for x in scc for y in fn.succ(x) if y not in scc and y in live and not _unreachable(fn, y)]
                ok = bool(exits)
                some_targets = []
                for (x, y) in exits:
                    tt = fn.blocks[x]["term"]
                    if tt["k"] != "switch":
                        ok = False
                        break
                    d = fn.sym_operand(tt["d"])
                    if not (d[0] == "discr" and d[1][0] == "call" and d[1][3] == hb):
                        ok = False
                        break
                    vals = [int(v) for v, tg in tt["ts"] if tg == y]
                    if vals != [0] and not (y == tt["o"] and all(int(v) != 0 for v, _ in tt["ts"])):
                        ok = False
                        break
                    some_targets += [tg for v, tg in tt["ts"] if int(v) == 1] or ([tt["o"]] if y != tt["o"] else [])
                if not ok:
                    continue
                # every iteration executes an assignment: no way from the Some edge back to the head around them
                if any(st in scc and st not in assigns and _reach_avoiding(fn, st, hb, assigns) for st in some_targets):
                    continue
                for (x, y) in exits:
                    if all(p_ in scc for p_ in fn.pred(y) if p_ in live):
                        out.append(Event(y, reg, "every element set to 0 by a loop", None))
            elif re.search(r"core::iter::traits::iterator::Iterator>?::for_each$", name) and len(t["args"]) == 2:
                it = fn.sym_operand(t["args"][0])
                if not (it[0] == "call" and re.search(r"::iter_mut$|::into_iter$", it[1])):
                    continue
                reg = region(fn, it)
                if reg is None:
                    continue
                for c in self.P.closure_children(fn):
                    if len(c.return_blocks()) == 1 and not any(c.blocks[b]["term"]["k"] == "switch" for b in c.live_blocks()):
                        for bi, si, s in c.statements():
                            if s[0] == "a" and not isinstance(s[1], int) and pl_local(s[1]) == 2 and [e[0] for e in pl_proj(s[1])] == ["deref"] \
                                    and s[2]["k"] == "use" and str((s[2]["x"].get("k") or {}).get("v")) == "0" and c.path in str(fn.sym_operand(t["args"][1])):
                                out.append(Event(hb, reg, "every element set to 0 by for_each", None))
        return out

    def _dropped_buffers(self, fn, l, seen):
        """Regions wrapped by secret-key values stored in local l (through moves), when the key type's Drop zeroes its
        whole buffer."""
        if l in seen:
            return []
        seen.add(l)
        out = []
        ty = fn.local_ty(l)
        if not any(a in ty for a in self.sk_adts):
            return out
        for bi, si, kind, payload in fn.defs().get(l, []):
            if isinstance(payload, dict):      # call terminator
                g = self.P.fns.get(payload.get("f") or "")
                if g is None:
                    continue
                for (k, adt) in self.wraps(g):
                    if not self.drop_zeroes_whole(adt):
                        continue
                    r = self.map_to_caller(fn, payload, k, (), 0, None)
                    if r is not None:
                        out.append(r)
            else:
                rv = payload[2] if len(payload) > 2 else None
                if isinstance(rv, dict) and rv.get("k") == "use":
                    p = op_place(rv["x"])
                    if p is not None:
                        out += self._dropped_buffers(fn, pl_local(p), seen)
                elif isinstance(rv, dict) and rv.get("k") == "agg" and rv.get("adt") in self.sk_adts and rv["fields"]:
                    if self.drop_zeroes_whole(rv["adt"]):
                        r = region(fn, fn.sym_operand(rv["fields"][0]))
                        if r is not None:
                            out.append(r)
        return out

    def wraps(self, g):
        """[(param k, adt)] — g returns a secret-key value of type adt wrapping the whole buffer passed as param k."""
        if g.path in self._wr:
            return self._wr[g.path]
        out = []
        ret_ty = g.local_ty(0)
        for bi, si, s in g.statements():
            if s[0] == "a" and s[2]["k"] == "agg" and s[2].get("ak") == "adt" and s[2]["adt"] in self.sk_adts and s[2]["adt"] in ret_ty:
                if not s[2]["fields"]:
                    continue
                r = region(g, g.sym_operand(s[2]["fields"][0]))
                if r is not None and r.root[0] == "param" and r.root[2] == () and r.lo == 0 and r.hi is None:
                    out.append((r.root[1], s[2]["adt"]))
        self._wr[g.path] = out
        return out

    def drop_zeroes_whole(self, adt):
        d = self.drop_fn(adt)
        if d is None:
            return False
        for (k, chain, lo, hi, cond) in self.zero_summary(d):
            if k == 1 and tuple(chain) == ("0",) and lo == 0 and hi is None and cond is None:
                return True
        return False

    # -- summaries
    def zero_summary(self, g):
        """[(param k, chain, lo, hi, cond)] — regions of g's parameters that are zero on every normal return (under cond:
        None = always, ("some"|"none", j) = whenever Option parameter j is Some/None)."""
        if g.path in self._zs:
            return self._zs[g.path]
        if g.path in self._active:
            return []
        self._active.add(g.path)
        try:
            evs = [e for e in self.events(g) if e.region.root[0] == "param"]
            regs = []
            for e in evs:
                if e.region not in regs:
                    regs.append(e.region)
            out = []
            for r in regs:
                cover = {e.bb for e in evs if covers(e.region, r)}
                held = []
                for cond in self.conds(g):
                    if self.reach_return(g, [0], cover, self._removed(g, cond)) is None:
                        held.append(cond)
                if None in held:
                    held = [None]
                for cond in held:
                    out.append((r.root[1], r.root[2], r.lo, r.hi, cond))
        finally:
            self._active.discard(g.path)
        self._zs[g.path] = out
        return out

    # -- derivation reads
    def byte_sources(self, fn, s, depth=0, seen=None, through_calls=True):
        """Regions whose bytes flow into the value `s` (through conversions, copies into local arrays and — unless
        through_calls is False — as arguments of calls)."""
        if seen is None:
            seen = set()
        if depth > 12:
            return []
        r = region(fn, s)
        if r is not None:
            out = [r]
            if r.root[0] == "local" and r.root not in seen:
                seen.add(r.root)
                for bi, t in fn.calls():
                    if _COPY.search(callee(t)) and len(t["args"]) == 2:
                        dst = region(fn, fn.sym_operand(t["args"][0]))
                        if dst is not None and dst.root == r.root:
                            out += self.byte_sources(fn, fn.sym_operand(t["args"][1]), depth + 1, seen, through_calls)
            return out
        k = s[0]
        if k in ("ref", "deref", "cast", "field", "downcast", "un", "repeat", "discr"):
            return self.byte_sources(fn, s[1] if k != "un" else s[2], depth + 1, seen, through_calls)
        out = []
        if k == "call":
            if through_calls:
                g = self.P.fns.get(s[1])
                rs = self.ret_sources(g) if g is not None and g is not fn and g.local_ty(0) in _INT_RANGE else None
                if rs:
                    t = fn.blocks[s[3]]["term"] if len(s) > 3 and isinstance(s[3], int) else None
                    mapped = []
                    if t is not None and t.get("k") == "call":
                        for (k2, chain, lo, hi) in rs:
                            r2 = self.map_to_caller(fn, t, k2, chain, lo, hi)
                            if r2 is not None:
                                mapped.append(r2)
                    if mapped and len(mapped) == len(rs):
                        return mapped
                for a in s[2]:
                    out += self.byte_sources(fn, a, depth + 1, seen, through_calls)
        elif k == "agg":
            for a in s[3]:
                out += self.byte_sources(fn, a, depth + 1, seen, through_calls)
        elif k == "bin":
            out += self.byte_sources(fn, s[2], depth + 1, seen, through_calls) + self.byte_sources(fn, s[3], depth + 1, seen, through_calls)
        return out

    def ret_sources(self, g):
        """[(param k, chain, lo, hi)] — parameter regions whose bytes make up g's return value, when every source of the
        return value is such a region (e.g. `get_period`); None/[] otherwise."""
        key = g.path + "#ret"
        if key in self._ra:
            return self._ra[key]
        if key in self._active:
            return None
        self._active.add(key)
        try:
            srcs = []
            for bi, si, s in g.statements():
                if s[0] == "a" and pl_local(s[1]) == 0:
                    srcs += self.byte_sources(g, g.sym_rvalue(s[2], 40))
            for bi, t in g.calls():
                if pl_local(t["dest"]) == 0:
                    for a in t["args"]:
                        srcs += self.byte_sources(g, g.sym_operand(a))
            out = []
            for r in srcs:
                if r.root[0] == "local":
                    continue          # staging buffers (their own sources are listed as well)
                if r.root[0] != "param":
                    out = []
                    break
                e = (r.root[1], r.root[2], r.lo, r.hi)
                if e not in out:
                    out.append(e)
        finally:
            self._active.discard(key)
        self._ra[key] = out
        return out

    def direct_reads(self, fn):
        out = []
        for bi, t in fn.calls():
            name = callee(t)
            for rx, ai, what in SINKS:
                if rx.search(name) and ai < len(t["args"]):
                    for r in self.byte_sources(fn, fn.sym_operand(t["args"][ai])):
                        if r.root[0] in ("param", "local"):
                            how = "%s derived (%s)" % (what, _short(name))
                            out.append(Read(bi, r, how, (fn.path, region_key(fn, r), how, bi)))
        return out

    def reads(self, fn):
        """All derivation reads of fn: direct sink reads plus reads its callees leave un-erased (exports)."""
        if fn.path in self._rd:
            return self._rd[fn.path]
        out = list(self.direct_reads(fn))
        if fn.path not in self._active:
            self._active.add(fn.path)
            try:
                for bi, t in fn.calls():
                    g = self.P.fns.get(t.get("f") or "")
                    if g is None or g is fn:
                        continue
                    for (k, chain, lo, hi, cond, how, origin) in self.read_exports(g):
                        if self.cond_at_site(fn, t, cond) is False:
                            continue
                        r = self.map_to_caller(fn, t, k, chain, lo, hi)
                        if r is not None and r.root[0] in ("param", "local"):
                            out.append(Read(bi, r, how, origin))
            finally:
                self._active.discard(fn.path)
        self._rd[fn.path] = out
        return out

    def erased_after(self, fn, rd):
        """None if region rd.region is zeroed on every path from the read to a normal return, else the return block
        reached with the bytes intact."""
        cover_calls = {e.bb for e in self.events(fn) if e.stmt is None and covers(e.region, rd.region)}
        cover_stmts = {e.bb for e in self.events(fn) if e.stmt is not None and covers(e.region, rd.region)}
        if rd.bb in cover_calls:
            return None
        return self.reach_return(fn, fn.succ(rd.bb), cover_calls | cover_stmts)

    def read_exports(self, g):
        """Reads of parameter regions that g does NOT erase itself: its callers inherit the obligation."""
        out = []
        for rd in self.reads(g):
            if rd.region.root[0] != "param":
                continue
            if self.erased_after(g, rd) is None:
                continue
            cond = self._cond_of_block(g, rd.bb)
            out.append((rd.region.root[1], rd.region.root[2], rd.region.lo, rd.region.hi, cond, rd.how, rd.origin))
        return out

    def _cond_of_block(self, g, bb):
        for cond in self.conds(g):
            if cond is not None and self.only_under(g, bb, cond):
                return cond
        return None

    def reads_all(self, g):
        """[(param k, chain, lo, hi, cond)] — every parameter region g (transitively) derives key material from, erased or
        not.  Used to recognise 'consumes the stored seed' call sites."""
        if g.path in self._ra:
            return self._ra[g.path]
        if g.path + "#ra" in self._active:
            return []
        self._active.add(g.path + "#ra")
        out = []
        try:
            for rd in self.direct_reads(g):
                if rd.region.root[0] == "param":
                    out.append((rd.region.root[1], rd.region.root[2], rd.region.lo, rd.region.hi, self._cond_of_block(g, rd.bb)))
            for bi, t in g.calls():
                h = self.P.fns.get(t.get("f") or "")
                if h is None or h is g:
                    continue
                for (k, chain, lo, hi, cond) in self.reads_all(h):
                    if self.cond_at_site(g, t, cond) is False:
                        continue
                    r = self.map_to_caller(g, t, k, chain, lo, hi)
                    if r is not None and r.root[0] == "param":
                        c2 = self._cond_of_block(g, bi)
                        out.append((r.root[1], r.root[2], r.lo, r.hi, c2))
        finally:
            self._active.discard(g.path + "#ra")
        ded = []
        for x in out:
            if x not in ded:
                ded.append(x)
        self._ra[g.path] = ded
        return ded

    def is_seed_source(self, g):
        """A function that derives key material from a parameter region and returns raw byte arrays (derived seeds)."""
        return bool(self.reads_all(g)) and "[u8; " in g.local_ty(0)

    # -- secret outputs
    def secret_outputs(self, g):
        """Set of parameter indices into whose memory g writes secret key bytes (signing key bytes / derived seeds)."""
        if g.path in self._out:
            return self._out[g.path]
        if g.path + "#out" in self._active:
            return set()
        self._active.add(g.path + "#out")
        out = set()
        try:
            tainted = self.seed_locals(g)
            for bi, t in g.calls():
                name = callee(t)
                if _COPY.search(name) and len(t["args"]) == 2:
                    dst = region(g, g.sym_operand(t["args"][0]))
                    if dst is None or dst.root[0] != "param":
                        continue
                    src = g.sym_operand(t["args"][1])
                    secret = any(x[0] == "call" and SECRET_BYTES.search(x[1]) for x in sym_walk(src))
                    if not secret:
                        for r in self.byte_sources(g, src, through_calls=False):
                            if r.root[0] == "local" and r.root[1] in tainted:
                                secret = True
                    if secret:
                        out.add(dst.root[1])
                    continue
                h = self.P.fns.get(t.get("f") or "")
                if h is None or h is g:
                    continue
                for k in self.secret_outputs(h):
                    r = self.map_to_caller(g, t, k, (), 0, None)
                    if r is not None and r.root[0] == "param":
                        out.add(r.root[1])
        finally:
            self._active.discard(g.path + "#out")
        self._out[g.path] = out
        return out

    def seed_locals(self, fn):
        """local -> bb : locals that receive (components of) the result of a seed-source call."""
        tainted = {}
        for bi, t in fn.calls():
            g = self.P.fns.get(t.get("f") or "")
            if g is not None and g is not fn and self.is_seed_source(g):
                tainted.setdefault(pl_local(t["dest"]), bi)
        changed = True
        while changed:
            changed = False
            for bi, si, s in fn.statements():
                if s[0] != "a" or s[2]["k"] != "use":
                    continue
                p = op_place(s[2]["x"])
                if p is None:
                    continue
                src = pl_local(p)
                dst = pl_local(s[1])
                if src in tainted and dst not in tainted and "[u8; " in fn.local_ty(dst) and dst != 0:
                    tainted[dst] = bi
                    changed = True
        return tainted

    def secret_local_obligations(self, fn):
        """[(bb, Region, why)] — named local byte arrays of fn that hold secret material from bb on: derived seeds returned
        by a seed-source function, and local buffers handed to a callee as the place to write a secret key into."""
        out = []
        for l, bb in sorted(self.seed_locals(fn).items()):
            if not fn.local_name(l):
                continue
            ty = fn.local_ty(l)
            n = _array_len(ty)
            if n is not None:
                out.append((bb, Region(("local", l, ()), 0, n), "holds a derived seed"))
            else:
                m = re.match(r"^\((.*)\)$", ty)
                if m:
                    for i, part in enumerate(_split_top(m.group(1))):
                        if _array_len(part.strip()) is not None:
                            out.append((bb, Region(("local", l, (str(i),)), 0, None), "holds a derived seed"))
        for bi, t in fn.calls():
            g = self.P.fns.get(t.get("f") or "")
            if g is None or g is fn:
                continue
            for k in self.secret_outputs(g):
                r = self.map_to_caller(fn, t, k, (), 0, None)
                if r is not None and r.root[0] == "local" and fn.local_name(r.root[1]):
                    n = _array_len(fn.local_ty(r.root[1]))
                    whole = Region(r.root, 0, n) if r.root[2] == () else Region(r.root, 0, None)
                    out.append((bi, whole, "receives a secret key written by %s" % _short(g.path)))
        return out


def _resolve_local(fn, s):
    """Look through a (named / mutably borrowed) local that has exactly one whole-value definition."""
    for _ in range(6):
        inner = _strip_refs(s)
        if inner[0] != "local":
            return s
        full = [d for d in fn.defs().get(inner[1], []) if d[2] in ("assign", "call")]
        if len(full) != 1:
            return s
        bi, si, kind, payload = full[0]
        if kind == "call":
            s = ("call", callee(payload), tuple(fn.sym_operand(a) for a in payload["args"]), bi)
        else:
            s = fn.sym_rvalue(payload[2], 30, (bi, si))
    return s


def _reach_avoiding(fn, src, dst, avoid):
    seen = {src}
    st = [src]
    while st:
        x = st.pop()
        if x == dst:
            return True
        for y in fn.succ(x):
            if y not in seen and y not in avoid:
                seen.add(y)
                st.append(y)
    return False


def _split_top(s):
    out, depth, cur = [], 0, ""
    for ch in s:
        if ch in "([<":
            depth += 1
        elif ch in ")]>":
            depth -= 1
        if ch == "," and depth == 0:
            out.append(cur)
            cur = ""
        else:
            cur += ch
    if cur.strip():
        out.append(cur)
    return out


def _unreachable(fn, bb):
    b = fn.blocks[bb]
    return b["term"]["k"] == "unreachable" and not b["st"]


def _short(p):
    """`<pallas_crypto::kes::summed_kes::Sum2Kes<'a> as ...::KesSk<'a>>::keygen` -> `Sum2Kes::keygen`."""
    m = re.match(r"^<([^ ]+?)(<[^ ]*>)? as .*>::(\w+)$", p)
    if m:
        return "%s::%s" % (m.group(1).rsplit("::", 1)[-1], m.group(3))
    q = re.sub(r"::<[^>]*>", "", p)
    parts = q.split("::")
    return "::".join(parts[-2:])


# ------------------------------------------------------------------------------------------------ finite evaluation

class Outcome:
    __slots__ = ("ret", "calls", "end", "conds", "writes")

    def __init__(self):
        self.ret = None
        self.calls = []     # (callee path, [arg values], bb, [sub-outcomes] | None)
        self.end = None     # "return" | "diverge"
        self.conds = []     # undetermined conditions forked on
        self.writes = []


def _variant(v):
    """(adt, variant-name) of a value with a known enum variant."""
    if v[0] == "agg" and isinstance(v[2], str):
        return v[1], v[2]
    return None


_ORD = {"Less": 255, "Equal": 0, "Greater": 1}
_STD_IDX = {
    "core::option::Option": {"None": 0, "Some": 1},
    "core::result::Result": {"Ok": 0, "Err": 1},
    "core::ops::control_flow::ControlFlow": {"Continue": 0, "Break": 1},
}


class Eval:
    """Path-sensitive constant propagation over one MIR body (see module docstring)."""

    def __init__(self, prog, max_paths=256, depth=0, memo=None):
        self.P = prog
        self.max_paths = max_paths
        self.depth = depth
        self.memo = memo if memo is not None else {}

    def run(self, fn, params):
        """params: {param index: value}.  Returns [Outcome]."""
        key = (fn.path, tuple(sorted((k, v) for k, v in params.items())))
        if key in self.memo:
            return self.memo[key]
        self.fn = fn
        self.out = []
        env = dict(params)
        self._walk(fn, 0, env, Outcome(), frozenset())
        self.memo[key] = self.out
        return self.out

    # values
    def operand(self, fn, env, o):
        c = o.get("k")
        if c is not None:
            if "v" in c:
                return ("const", int(c["v"]) if not isinstance(c["v"], bool) else int(c["v"]), c["ty"])
            if "fn" in c:
                return ("fnconst", c["fn"])
            return ("constsym", c.get("sym"), c["ty"])
        p = op_place(o)
        return self.place(fn, env, p)

    def place(self, fn, env, p):
        l = pl_local(p)
        base = env.get(l)
        if base is None:
            base = ("param", l, None) if 1 <= l <= fn.argc else ("local", l, None)
        for e in pl_proj(p):
            k = e[0]
            if k == "deref":
                base = base[1] if base[0] == "ref" else ("deref", base)
            elif k == "field":
                if base[0] == "agg" and base[3] is not None and e[1] < len(base[3]):
                    base = base[3][e[1]]
                elif base[0] == "downcast" and base[1][0] == "agg" and e[1] < len(base[1][3]):
                    base = base[1][3][e[1]]
                else:
                    base = ("field", base, e[2] if e[2] is not None else e[1])
            elif k == "downcast":
                base = ("downcast", base, e[2] if e[2] is not None else e[1])
            else:
                base = (k, base)
        return base

    def rvalue(self, fn, env, rv):
        k = rv["k"]
        if k == "use":
            return self.operand(fn, env, rv["x"])
        if k in ("ref", "rawptr"):
            return ("ref", self.place(fn, env, rv["p"]))
        if k == "cast":
            x = self.operand(fn, env, rv["x"])
            if x[0] == "const" and rv["ck"] == "IntToInt" and rv["to"] in _INT_RANGE:
                lo, hi = _INT_RANGE[rv["to"]]
                v = int(x[1])
                span = hi - lo + 1
                v = (v - lo) % span + lo
                return ("const", v, rv["to"])
            return ("cast", x, rv["from"], rv["to"], rv["ck"])
        if k == "bin":
            l, r = self.operand(fn, env, rv["l"]), self.operand(fn, env, rv["r"])
            return self.binop(rv["op"], l, r, rv.get("lty"))
        if k == "un":
            x = self.operand(fn, env, rv["x"])
            if rv["op"] == "Not" and x[0] == "const" and x[2] == "bool":
                return ("const", 0 if int(x[1]) else 1, "bool")
            return ("un", rv["op"], x)
        if k == "discr":
            p = self.place(fn, env, rv["p"])
            vn = _variant(p)
            if vn is not None:
                idx = self.variant_index(vn[0], vn[1])
                if idx is not None:
                    return ("const", idx, "isize")
            return ("discr", p)
        if k == "agg":
            fields = tuple(self.operand(fn, env, f) for f in rv["fields"])
            if rv["ak"] == "adt":
                return ("agg", rv["adt"], rv["variant"], fields)
            return ("agg", rv["ak"], None, fields)
        if k == "repeat":
            return ("repeat", self.operand(fn, env, rv["x"]), rv["n"])
        return ("other", k)

    def binop(self, op, l, r, ty=None):
        if l[0] == "const" and r[0] == "const":
            a, b = int(l[1]), int(r[1])
            ty = l[2]
            base = op.replace("WithOverflow", "").replace("Unchecked", "")
            v = None
            if base in ("Eq", "Ne", "Lt", "Le", "Gt", "Ge"):
                v = int({"Eq": a == b, "Ne": a != b, "Lt": a < b, "Le": a <= b, "Gt": a > b, "Ge": a >= b}[base])
                return ("const", v, "bool")
            if base == "Add":
                v = a + b
            elif base == "Sub":
                v = a - b
            elif base == "Mul":
                v = a * b
            elif base == "Div" and b:
                v = a // b
            elif base == "Rem" and b:
                v = a % b
            elif base == "BitAnd":
                v = a & b
            elif base == "BitOr":
                v = a | b
            elif base == "BitXor":
                v = a ^ b
            elif base == "Shl" and 0 <= b < 128:
                v = a << b
            elif base == "Shr" and 0 <= b < 128:
                v = a >> b
            if v is not None:
                ovf = 0
                if ty in _INT_RANGE:
                    lo, hi = _INT_RANGE[ty]
                    if not lo <= v <= hi:
                        ovf = 1
                        v = (v - lo) % (hi - lo + 1) + lo
                if op.endswith("WithOverflow"):
                    return ("agg", "tuple", None, (("const", v, ty), ("const", ovf, "bool")))
                return ("const", v, ty)
        return ("bin", op, l, r)

    def variant_index(self, adt, vname):
        adt = re.sub(r"<.*$", "", adt)
        if adt == "core::cmp::Ordering":
            return _ORD.get(vname)
        if adt in _STD_IDX:
            return _STD_IDX[adt].get(vname)
        a = self.P.adt(adt)
        if a is None:
            return None
        for v in a["variants"]:
            if v["name"] == vname:
                return v["idx"]
        return None

    # calls
    def call_value(self, fn, t, args, oc, bb):
        name = callee(t)
        ints = [(_strip_refs(a)) for a in args]

        def ci(i):
            return int(ints[i][1]) if i < len(ints) and ints[i][0] == "const" else None
        m = re.search(r"core::num::<impl (u\d+|usize)>::pow$", name)
        if m and ci(0) is not None and ci(1) is not None:
            v = ci(0) ** ci(1)
            lo, hi = _INT_RANGE[m.group(1)]
            if v <= hi:
                return ("const", v, m.group(1))
        m = re.search(r"<impl core::cmp::Ord for (u\d+|i\d+|usize|isize)>::cmp$", name)
        if m and ci(0) is not None and ci(1) is not None:
            a, b = ci(0), ci(1)
            return ("agg", "core::cmp::Ordering", "Less" if a < b else ("Equal" if a == b else "Greater"), ())
        m = re.search(r"<impl core::cmp::PartialOrd for (u\d+|i\d+|usize|isize)>::(lt|le|gt|ge)$|<impl core::cmp::PartialEq for (u\d+|i\d+|usize|isize)>::(eq|ne)$", name)
        if m and ci(0) is not None and ci(1) is not None:
            a, b = ci(0), ci(1)
            op = m.group(2) or m.group(4)
            return ("const", int({"lt": a < b, "le": a <= b, "gt": a > b, "ge": a >= b, "eq": a == b, "ne": a != b}[op]), "bool")
        m = re.search(r"^<&?(u\d+|usize) as core::ops::arith::(Add|Sub|Mul|Div|Rem)<&?(u\d+|usize)>>::(add|sub|mul|div|rem)$", name)
        if m and ci(0) is not None and ci(1) is not None:
            r = self.binop(m.group(2), ("const", ci(0), m.group(1)), ("const", ci(1), m.group(1)))
            if r[0] == "const":
                return r
        m = re.search(r"core::num::<impl (u\d+|usize)>::(wrapping_add|wrapping_sub|saturating_sub)$", name)
        if m and ci(0) is not None and ci(1) is not None:
            lo, hi = _INT_RANGE[m.group(1)]
            a, b = ci(0), ci(1)
            v = {"wrapping_add": (a + b) % (hi + 1), "wrapping_sub": (a - b) % (hi + 1), "saturating_sub": max(a - b, 0)}[m.group(2)]
            return ("const", v, m.group(1))
        m = re.search(r"core::num::<impl (u\d+|usize)>::checked_(add|sub|mul|div|rem)$", name)
        if m and ci(0) is not None and ci(1) is not None:
            lo, hi = _INT_RANGE[m.group(1)]
            a, b = ci(0), ci(1)
            v = None
            if m.group(2) in ("div", "rem"):
                v = None if b == 0 else (a // b if m.group(2) == "div" else a % b)
            else:
                v = {"add": a + b, "sub": a - b, "mul": a * b}[m.group(2)]
            if v is None or not lo <= v <= hi:
                return ("agg", "core::option::Option", "None", ())
            return ("agg", "core::option::Option", "Some", (("const", v, m.group(1)),))
        m = re.search(r"core::cmp::Ord::(min|max)$|<impl core::cmp::Ord for (u\d+|usize)>::(min|max)$", name)
        if m and ci(0) is not None and ci(1) is not None:
            f_ = min if (m.group(1) or m.group(3)) == "min" else max
            return ("const", f_(ci(0), ci(1)), ints[0][2])
        if re.search(r"core::ops::try_trait::Try>::branch$", name) and args:
            vn = _variant(args[0])
            if vn is not None and vn[0].startswith("core::result::Result"):
                if vn[1] == "Ok":
                    return ("agg", "core::ops::control_flow::ControlFlow", "Continue", args[0][3])
                return ("agg", "core::ops::control_flow::ControlFlow", "Break", (args[0],))
            if vn is not None and vn[0].startswith("core::option::Option"):
                if vn[1] == "Some":
                    return ("agg", "core::ops::control_flow::ControlFlow", "Continue", args[0][3])
                return ("agg", "core::ops::control_flow::ControlFlow", "Break", (args[0],))
        if re.search(r"core::ops::try_trait::FromResidual<.*>>::from_residual$", name) and args:
            # the residual of a Result is always its Err, the residual of an Option always None
            if name.startswith("<core::result::Result<"):
                return ("agg", "core::result::Result", "Err", ())
            if name.startswith("<core::option::Option<"):
                return ("agg", "core::option::Option", "None", ())
        # workspace callee: evaluate it when some integer argument is known (period routing, depth helpers)
        g = self.P.fns.get(t.get("f") or "")
        if g is not None and g is not fn and self.depth < 12:
            known = {}
            for i, a in enumerate(args):
                a2 = a
                if a2[0] == "const" or (a2[0] == "agg" and all(x[0] == "const" for x in a2[3]) and a2[3]):
                    known[i + 1] = a2
            if known:
                sub = Eval(self.P, self.max_paths, self.depth + 1, self.memo).run(g, known)
                oc.calls[-1] = (name, args, bb, sub)
                rets = [o for o in sub if o.end == "return"]
                if rets and not any(o.conds for o in sub):
                    vals = {self._freeze(o.ret) for o in rets}
                    if len(vals) == 1:
                        r = rets[0].ret
                        if r is not None and (r[0] == "const" or _variant(r) is not None):
                            return r
                    vns = {_variant(o.ret) for o in rets if o.ret is not None}
                    if len(vns) == 1 and None not in vns:
                        vn = vns.pop()
                        return ("agg", vn[0], vn[1], ())
        return ("call", name, tuple(args), bb)

    @staticmethod
    def _freeze(v):
        return repr(v)

    # walk
    def _walk(self, fn, bb, env, oc, onpath):
        if len(self.out) >= self.max_paths:
            raise RuntimeError("finite evaluation of %s exceeds %d paths" % (fn.path, self.max_paths))
        if bb in onpath:
            q = self._copy(oc)
            q.end = "loop"
            self.out.append(q)
            return
        onpath = onpath | {bb}
        b = fn.blocks[bb]
        for s in b["st"]:
            if s[0] == "a":
                val = self.rvalue(fn, env, s[2])
                pl = s[1]
                if isinstance(pl, int):
                    env[pl] = val
                else:
                    oc.writes.append((self.place(fn, env, pl), val))
                    l = pl_local(pl)
                    if l in env and not any(e[0] == "deref" for e in pl_proj(pl)):
                        env.pop(l, None)
        t = b["term"]
        k = t["k"]
        if k in ("goto", "drop", "yield"):
            return self._walk(fn, t["t"], env, oc, onpath)
        if k == "assert":
            c = self.operand(fn, env, t["cond"])
            if c[0] == "const" and bool(int(c[1])) != bool(t["expected"]):
                q = self._copy(oc)
                q.end = "diverge"
                self.out.append(q)
                return
            return self._walk(fn, t["t"], env, oc, onpath)
        if k == "return":
            q = self._copy(oc)
            q.ret = env.get(0)
            q.end = "return"
            self.out.append(q)
            return
        if k in ("unreachable", "resume", "terminate", "coroutine_drop", "asm", "tailcall"):
            q = self._copy(oc)
            q.end = "diverge"
            self.out.append(q)
            return
        if k == "call":
            args = [self.operand(fn, env, a) for a in t["args"]]
            oc.calls.append((callee(t), args, bb, None))
            val = self.call_value(fn, t, args, oc, bb)
            d = t["dest"]
            if isinstance(d, int):
                env[d] = val
            if t.get("t") is None:
                q = self._copy(oc)
                q.end = "diverge"
                self.out.append(q)
                return
            return self._walk(fn, t["t"], env, oc, onpath)
        if k == "switch":
            d = self.operand(fn, env, t["d"])
            val = None
            if d[0] == "const":
                val = int(d[1])
            if val is not None:
                for v, tg in t["ts"]:
                    if int(v) == val:
                        return self._walk(fn, tg, env, oc, onpath)
                return self._walk(fn, t["o"], env, oc, onpath)
            for v, tg in t["ts"]:
                q = self._copy(oc)
                q.conds.append((d, ("eq", int(v))))
                self._walk(fn, tg, dict(env), q, onpath)
            if not _unreachable(fn, t["o"]):
                q = self._copy(oc)
                q.conds.append((d, ("ne", [int(v) for v, _ in t["ts"]])))
                self._walk(fn, t["o"], dict(env), q, onpath)
            return
        raise RuntimeError("unknown terminator " + k)

    @staticmethod
    def _copy(o):
        q = Outcome()
        q.ret = o.ret
        q.calls = list(o.calls)
        q.end = o.end
        q.conds = list(o.conds)
        q.writes = list(o.writes)
        return q


# ------------------------------------------------------------------------------------------------ key types and evolution

KESSK = "pallas_crypto::kes::traits::KesSk"


def trait_method(P, adt, trait, name):
    for f in P.fns.values():
        if f.b.get("impl_trait") == trait and f.b.get("impl_adt") == adt and f.name == name:
            return f
    return None


def len_test_constant(fn, param=1):
    """Constant L that `len(param)` is compared with (==/!=) in fn, else None."""
    found = set()
    for bi, si, s in fn.statements():
        if s[0] == "a" and s[2]["k"] == "bin" and s[2]["op"] in ("Eq", "Ne"):
            l, r = fn.sym_operand(s[2]["l"]), fn.sym_operand(s[2]["r"])
            for a, b in ((l, r), (r, l)):
                a = _strip_refs(a)
                if a[0] == "call" and re.search(r"core::slice::<impl \[T\]>::len$", a[1]) and a[2]:
                    p = _strip_refs(a[2][0])
                    if p[0] == "param" and p[1] == param and cint(b) is not None:
                        found.add(cint(b))
    # `match len { L => .., _ => .. }`: a switch on the length itself
    for bi in fn.live_blocks():
        t = fn.blocks[bi]["term"]
        if t["k"] == "switch" and len(t["ts"]) == 1:
            d = _strip_refs(fn.sym_operand(t["d"]))
            if d[0] == "call" and re.search(r"core::slice::<impl \[T\]>::len$", d[1]) and d[2]:
                p = _strip_refs(d[2][0])
                if p[0] == "param" and p[1] == param:
                    found.add(int(t["ts"][0][0]))
    return found.pop() if len(found) == 1 else None


class KeyType:
    """One secret-key type (an ADT wrapping `&mut [u8]` that implements KesSk)."""

    def __init__(self, M, adt):
        self.M = M
        self.adt = adt
        self.name = adt.rsplit("::", 1)[-1]
        P = M.P
        self.update = trait_method(P, adt, KESSK, "update")
        self.keygen = trait_method(P, adt, KESSK, "keygen")
        self.from_bytes = trait_method(P, adt, KESSK, "from_bytes")
        self.get_period = trait_method(P, adt, KESSK, "get_period")
        self.sign = trait_method(P, adt, KESSK, "sign")
        self.total_len = len_test_constant(self.from_bytes) if self.from_bytes else None
        self.updater = None      # (Fn, buffer param, period param, call bb in update)
        if self.update is not None:
            self.updater = self._find_updater()

    def _find_updater(self):
        f = self.update
        for bi, t in f.calls():
            g = self.M.P.fns.get(t.get("f") or "")
            if g is None or not KES_MOD.search(g.path):
                continue
            buf = per = None
            for i, a in enumerate(t["args"]):
                ty = g.local_ty(i + 1)
                s = f.sym_operand(a)
                if ty.startswith("&mut [u8]"):
                    r = region(f, s)
                    if r is not None and r.root == ("param", 1, ("0",)):
                        buf = (i + 1, r)
                elif ty in ("u32", "u64", "usize"):
                    if any(r.root == ("param", 1, ("0",)) for r in self.M.byte_sources(f, s)):
                        per = i + 1
            if buf is not None and per is not None:
                return (g, buf[0], per, bi, buf[1])
        return None


def key_types(M):
    out = []
    for adt in sorted(M.sk_adts):
        if any(a.get("trait") == KESSK and a.get("adt") == adt for _, a in M.P.impls()):
            out.append(KeyType(M, adt))
    return out


def trailing_ones(p):
    n = 0
    while p & 1:
        n += 1
        p >>= 1
    return n


class Evolution:
    """Finite evaluation of the slice updaters: for a key type and a period value, which evolution steps happen."""

    def __init__(self, M, types):
        self.M = M
        self.types = types
        self.by_updater = {kt.updater[0].path: kt for kt in types if kt.updater}
        self.memo = {}
        self.ev = Eval(M.P, memo=self.memo)

    def is_regenerate(self, caller, name, args):
        """A call that consumes a stored seed: the callee derives key material from a region of a buffer parameter on the
        paths where its Option parameter is None, and this site passes None.  Returns (callee, param, lo) or None."""
        g = self.M.P.fns.get(name)
        if g is None:
            return None
        for (k, chain, lo, hi, cond) in self.M.reads_all(g):
            if cond is None or cond[0] != "none" or chain != ():
                continue
            j = cond[1]
            if j - 1 < len(args):
                a = _strip_refs(args[j - 1])
                if a[0] == "agg" and str(a[1]).startswith("core::option::Option") and a[2] == "None":
                    return (g, k, lo, hi)
        return None

    def step(self, kt, p):
        """Evaluate kt's updater at period p.  Returns dict(result=Ok|Err|?, regen=[(type name, depth-of-callee...)],
        children=[(KeyType, period)], problems=[...])."""
        res = {"result": "?", "regen": [], "children": [], "problems": []}
        if kt.updater is None:
            outs = Eval(self.M.P, memo=self.memo).run(kt.update, {})
            self._fill(kt, kt.update, outs, res)
            return res
        g, bufp, perp = kt.updater[0], kt.updater[1], kt.updater[2]
        outs = Eval(self.M.P, memo=self.memo).run(g, {perp: ("const", p, g.local_ty(perp))})
        self._fill(kt, g, outs, res)
        return res

    def _fill(self, kt, g, outs, res):
        rets = [o for o in outs if o.end == "return"]
        if any(o.conds for o in outs):
            res["problems"].append("branch not decided by the period value: %s" % sym_str(next(o for o in outs if o.conds).conds[0][0], 120))
        if len(rets) != 1:
            res["problems"].append("%d return paths" % len(rets))
            if not rets:
                return
        o = rets[0]
        vn = _variant(o.ret) if o.ret is not None else None
        res["result"] = vn[1] if vn else "?"
        self._collect(g, o, res)

    def _collect(self, g, o, res):
        for (name, args, bb, sub) in o.calls:
            kt2 = self.by_updater.get(name)
            if kt2 is not None:
                per = args[kt2.updater[2] - 1] if kt2.updater[2] - 1 < len(args) else None
                pv = int(per[1]) if per is not None and per[0] == "const" else None
                sres = None
                if sub is not None:
                    rets = [x for x in sub if x.end == "return"]
                    if len(rets) == 1:
                        vn = _variant(rets[0].ret) if rets[0].ret is not None else None
                        sres = vn[1] if vn else None
                        self._collect(kt2.updater[0], rets[0], res)
                res["children"].append((kt2, pv, sres))
                continue
            rg = self.is_regenerate(g, name, args)
            if rg is not None:
                res["regen"].append((g, name, args, bb, rg))
