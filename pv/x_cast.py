"""R-CAST engine (narrowing-cast census) and value-flow helpers used by rules/C44.py.

 * census of MIR `Cast(IntToInt)` statements, with a value-range argument for each narrowing / sign-changing one:
   the operand's interval is its source type's range, narrowed by the shape of the operand expression (constant, mask,
   remainder, shift, lossless widening) and by every comparison fact that dominates the cast (pv.guards.facts_at: any
   spelling — `<=`, `<`, reversed operands, negated, early return, match range, `&&` chains, a one-comparison predicate
   helper); the cast is lossless iff that interval lies inside the target type's range;
 * provenance signatures of operands without local names or positions (keys of tables/casts_*.json);
 * `contributing(...)`: every call a value may derive from, expanding multi-definition locals (match arms), closures,
   same-crate helper return values and (one level) parameters at the call sites of the enclosing function.
Nothing here executes analysed code; it reads the MIR facts only."""
import re

from . import guards
from .mir import sym_walk, sym_str, short_path, SYM_DEPTH
from .panic import strip_generics

INT_RANGE = {"u8": (0, 2**8 - 1), "u16": (0, 2**16 - 1), "u32": (0, 2**32 - 1), "u64": (0, 2**64 - 1),
             "u128": (0, 2**128 - 1), "usize": (0, 2**64 - 1), "i8": (-2**7, 2**7 - 1), "i16": (-2**15, 2**15 - 1),
             "i32": (-2**31, 2**31 - 1), "i64": (-2**63, 2**63 - 1), "i128": (-2**127, 2**127 - 1),
             "isize": (-2**63, 2**63 - 1), "bool": (0, 1), "char": (0, 0x10FFFF)}

CMP = ("Lt", "Le", "Gt", "Ge", "Eq", "Ne")


def is_narrowing(frm, to):
    """Can some value of type `frm` not be represented in type `to`?  None when a type is not an integer type we know."""
    if frm not in INT_RANGE or to not in INT_RANGE:
        return None
    (fl, fh), (tl, th) = INT_RANGE[frm], INT_RANGE[to]
    return not (tl <= fl and fh <= th)


def int_casts(fn):
    """(bb, si, stmt, rvalue) of every IntToInt cast statement in the live blocks of fn."""
    for bi, si, s in fn.statements():
        if s[0] == "a" and s[2]["k"] == "cast" and s[2].get("ck") == "IntToInt":
            yield bi, si, s, s[2]


# ---------------------------------------------------------------- constants and intervals

def const_eval(sym):
    """Integer value of a constant expression (constants, casts of constants that keep the value, +,-,*,<<,>> of
    constants, field 0 of a checked operation's tuple); None if not constant."""
    k = sym[0]
    if k == "const":
        try:
            return int(sym[1])
        except (TypeError, ValueError):
            if sym[1] in (True, "true"):
                return 1
            if sym[1] in (False, "false"):
                return 0
            return None
    if k == "cast" and sym[4] == "IntToInt":
        v = const_eval(sym[1])
        if v is None or sym[3] not in INT_RANGE:
            return None
        lo, hi = INT_RANGE[sym[3]]
        if lo <= v <= hi:
            return v
        # two's complement wrap of a constant
        width = (hi - lo + 1)
        w = v % width
        return w if w <= hi else w - width
    if k == "field" and sym[2] in (0, "0") and sym[1][0] == "bin":
        return const_eval(sym[1])
    if k == "bin":
        a, b = const_eval(sym[2]), const_eval(sym[3])
        if a is None or b is None:
            return None
        op = sym[1].replace("WithOverflow", "").replace("Unchecked", "")
        try:
            if op == "Add":
                return a + b
            if op == "Sub":
                return a - b
            if op == "Mul":
                return a * b
            if op == "Shl" and 0 <= b < 256:
                return a << b
            if op == "Shr" and 0 <= b < 256:
                return a >> b
            if op == "Div" and b != 0 and a >= 0 and b > 0:
                return a // b
        except (OverflowError, ValueError):
            return None
    return None


def _peel(sym):
    """Look through refs/derefs of a value expression (a `&x` / `*x` pair denotes the same integer)."""
    while sym[0] in ("ref", "deref"):
        sym = sym[1]
    return sym


def shape_interval(sym, ty):
    """Interval of an integer expression from its shape alone (no branch facts)."""
    lo, hi = INT_RANGE.get(ty, (None, None))
    if lo is None:
        return None
    sym = _peel(sym)
    c = const_eval(sym)
    if c is not None:
        return (c, c)
    k = sym[0]
    if k == "cast" and sym[4] == "IntToInt" and is_narrowing(sym[2], sym[3]) is False:
        inner = shape_interval(sym[1], sym[2])
        if inner:
            return (max(lo, inner[0]), min(hi, inner[1]))
    if k == "field" and sym[2] in (0, "0") and sym[1][0] == "bin":
        return shape_interval(sym[1], ty)
    if k == "bin":
        op = sym[1].replace("WithOverflow", "").replace("Unchecked", "")
        r = const_eval(sym[3])
        l = const_eval(sym[2])
        if op == "BitAnd":
            m = r if r is not None else l
            if m is not None and m >= 0:
                return (0, min(hi, m))
        if op == "Rem" and r is not None and r > 0 and lo >= 0:
            return (0, min(hi, r - 1))
        if op == "Shr" and r is not None and 0 <= r < 256 and lo >= 0:
            return (0, hi >> r)
        if op == "Div" and r is not None and r > 0 and lo >= 0:
            return (0, hi // r)
    return (lo, hi)


def _same_value(a, b):
    """Do two symbolic expressions denote the same integer value?  Structural equality modulo refs/derefs and modulo a
    lossless widening cast on either side."""
    a, b = _peel(a), _peel(b)
    if a == b:
        return True
    for x, y in ((a, b), (b, a)):
        if x[0] == "cast" and x[4] == "IntToInt" and is_narrowing(x[2], x[3]) is False and _peel(x[1]) == y:
            return True
    return False


def _predicate_summary(prog, callee):
    """(op, l, r) when `callee` is a workspace function whose result is one integer comparison of its parameters /
    constants (a guard predicate extracted into a helper); else None."""
    g = prog.fns.get(callee) if prog is not None else None
    if g is None or g.locals[0]["ty"] != "bool":
        return None
    s = g.sym_local(0)
    neg = False
    while s[0] == "un" and s[1] == "Not":
        neg = not neg
        s = s[2]
    if s[0] != "bin" or s[1] not in CMP:
        return None
    op = guards.NEG[s[1]] if neg else s[1]
    return op, s[2], s[3]


def _subst_params(sym, args):
    if not isinstance(sym, tuple) or not sym or not isinstance(sym[0], str):
        return sym
    if sym[0] == "param":
        i = sym[1] - 1
        return args[i] if 0 <= i < len(args) else sym
    return tuple(_subst_params(x, args) if isinstance(x, tuple) and x and isinstance(x[0], str)
                 else (tuple(_subst_params(y, args) for y in x) if isinstance(x, tuple) else x) for x in sym)


def _comparisons(prog, fact):
    """The integer comparisons a branch fact amounts to: itself, or — for `helper(args) == true/false` — the helper's
    single comparison with the arguments substituted."""
    out = [(op, l, r) for op, l, r in fact.oriented()]
    if fact.op == "Eq" and fact.l[0] == "call" and fact.r[0] == "const":
        ps = _predicate_summary(prog, fact.l[1])
        truth = const_eval(fact.r)
        if ps is not None and truth in (0, 1):
            op, l, r = ps
            if truth == 0:
                op = guards.NEG[op]
            l, r = _subst_params(l, fact.l[2]), _subst_params(r, fact.l[2])
            out.append((op, l, r))
            out.append((guards.SWAP[op], r, l))
    return out


def guarded_interval(prog, fn, bb, si, operand, ty):
    """Interval of `operand` (symbolic, of integer type `ty`) at statement (bb, si): shape interval narrowed by the
    comparison facts that dominate the statement and still hold there.  Returns (lo, hi, [fact descriptions])."""
    iv = shape_interval(operand, ty)
    if iv is None:
        return None
    lo, hi = iv
    used = []
    for f in guards.facts_at(fn, bb):
        if guards._killed(fn, f, (bb, si)):
            continue
        for op, l, r in _comparisons(prog, f):
            if not _same_value(l, operand):
                continue
            if op == "In" and r[0] == "set":
                vals = [int(v) for v in r[1]]
                lo, hi = max(lo, min(vals)), min(hi, max(vals))
                used.append("in %s" % (sorted(vals)[:4],))
                continue
            c = const_eval(_peel(r))
            if c is None:
                continue
            if op == "Le":
                hi = min(hi, c)
            elif op == "Lt":
                hi = min(hi, c - 1)
            elif op == "Ge":
                lo = max(lo, c)
            elif op == "Gt":
                lo = max(lo, c + 1)
            elif op == "Eq":
                lo, hi = max(lo, c), min(hi, c)
            else:
                continue
            used.append("%s %d" % (op, c))
    return lo, hi, used


def fits(lo, hi, to):
    tl, th = INT_RANGE[to]
    return tl <= lo and hi <= th


# ---------------------------------------------------------------- stable signatures (table keys)

def norm_fn(path):
    """Def-path with the schema-version segment and closure ordinals normalised: one key covers both expansions of the
    shared macro and survives adding/removing an unrelated closure."""
    p = re.sub(r"::v1(alpha|beta)::", "::v1*::", path)
    p = re.sub(r"\{closure#\d+\}", "{closure}", p)
    return re.sub(r"#\d+$", "", p)


def version_of(path):
    m = re.search(r"::v1(alpha|beta)::", path)
    return "v1" + m.group(1) if m else "-"


def prov_sig(sym, maxlen=200):
    """Provenance signature of a value: callee names, field names of ADTs, variant names, parameter positions and
    constants — no local variable names, no block numbers, no lines; refs/derefs are transparent."""
    def r(s):
        k = s[0]
        if k == "const":
            return str(s[1])
        if k == "param":
            return "p%d" % s[1]
        if k == "local":
            return "?"
        if k == "field":
            return "%s.%s" % (r(s[1]), s[2])
        if k in ("deref", "ref"):
            return r(s[1])
        if k == "downcast":
            return "(%s as %s)" % (r(s[1]), s[2])
        if k in ("index", "cindex", "subslice"):
            return "%s[]" % r(s[1])
        if k == "call":
            return "%s(%s)" % (short_path(re.sub(r"\{closure#\d+\}", "{closure}", s[1] or "?")), ",".join(r(a) for a in s[2]))
        if k == "bin":
            return "(%s %s %s)" % (r(s[2]), s[1], r(s[3]))
        if k == "un":
            return "%s(%s)" % (s[1], r(s[2]))
        if k == "cast":
            return "(%s as %s)" % (r(s[1]), s[3])
        if k == "discr":
            return "discr(%s)" % r(s[1])
        if k == "agg":
            return "%s::%s(..)" % (short_path(str(s[1])), s[2])
        if k in ("constsym", "fnconst"):
            return short_path(str(s[1]))
        return "<%s>" % k
    out = r(sym)
    return out if len(out) <= maxlen else out[:maxlen]


# ---------------------------------------------------------------- value flow

def _defs_syms(fn, l):
    """Symbolic values of every definition (full or partial) of local l."""
    out = []
    for bi, si, kind, payload in fn.defs().get(l, []):
        if isinstance(payload, dict):          # call terminator
            callee = payload.get("f") or payload.get("g") or "<indirect>"
            out.append(("call", callee, tuple(fn.sym_operand(a) for a in payload["args"]), bi))
        elif payload[0] == "a":
            out.append(fn.sym_rvalue(payload[2], SYM_DEPTH, (bi, si)))
    return out


def contributing(prog, fn, sym, same_crate=None, depth=3, callers=1, _seen=None):
    """[(Fn, call-node)] for every call the value `sym` (an expression of fn) may derive from.  Multi-definition locals
    contribute all their definitions; closure aggregates and calls to functions of `same_crate` contribute their return
    value's provenance (depth-limited); a parameter of fn contributes the matching argument at fn's call sites
    (`callers` levels)."""
    seen = _seen if _seen is not None else set()
    out = []
    work = [sym]
    while work:
        s = work.pop()
        for sub in sym_walk(s):
            k = sub[0]
            if k == "local" and len(sub) > 1:
                key = (fn.path, "l", sub[1])
                if key not in seen:
                    seen.add(key)
                    work.extend(_defs_syms(fn, sub[1]))
            elif k == "call":
                out.append((fn, sub))
                g = prog.fns.get(sub[1])
                if g is not None and depth > 0 and (same_crate is None or g.crate == same_crate):
                    key = (g.path, "ret")
                    if key not in seen:
                        seen.add(key)
                        out.extend(contributing(prog, g, g.sym_local(0), same_crate, depth - 1, 0, seen))
            elif k == "agg" and sub[1] == "closure" and depth > 0:
                g = prog.fns.get(sub[2])
                if g is not None:
                    key = (g.path, "ret")
                    if key not in seen:
                        seen.add(key)
                        out.extend(contributing(prog, g, g.sym_local(0), same_crate, depth - 1, 0, seen))
            elif k == "fnconst" and depth > 0:
                g = prog.fns.get(sub[1])
                if g is not None and (same_crate is None or g.crate == same_crate):
                    out.append((fn, ("call", sub[1], (), None)))
            elif k == "param" and callers > 0:
                key = (fn.path, "p", sub[1])
                if key in seen:
                    continue
                seen.add(key)
                for f2 in prog.fns.values():
                    for bi, t in f2.calls():
                        if t.get("f") == fn.path and sub[1] - 1 < len(t["args"]):
                            out.extend(contributing(prog, f2, f2.sym_operand(t["args"][sub[1] - 1]), same_crate, depth, callers - 1, seen))
    return out


def call_dest_ty(fn, node):
    """Type of the destination of a call node ('call', callee, args, bb) of fn; '' when unknown."""
    bb = node[3] if len(node) > 3 else None
    if not isinstance(bb, int):
        return ""
    t = fn.blocks[bb]["term"]
    d = t.get("dest")
    if d is None:
        return ""
    l = d if isinstance(d, int) else d[0]
    if isinstance(d, int) or not d[1]:
        return fn.local_ty(l)
    last = d[1][-1]
    return last[3] if last[0] == "field" and len(last) > 3 else ""


def derives_from_call(sym, callee_rx, bb=None):
    rx = re.compile(callee_rx) if isinstance(callee_rx, str) else callee_rx
    for sub in sym_walk(sym):
        if sub[0] == "call" and rx.search(strip_generics(sub[1] or "")) and (bb is None or (len(sub) > 3 and sub[3] == bb)):
            return True
    return False


def derives_from_param(sym, idx):
    return any(sub[0] == "param" and sub[1] == idx for sub in sym_walk(sym))
