// Demonstration tests for the C36 finding (fee and size limits use the ledger's transaction size).
//
// Where it goes: copy this file to `pallas-validate/tests/c36_ledger_tx_size.rs` (it uses
// `tests/common.rs` like the other integration tests) and run
//     cargo test --offline -p pallas-validate --test c36_ledger_tx_size
// Every test fails on the unfixed tree and passes once `fix-ledger-tx-size.diff` is applied.

pub mod common;

use common::*;
use pallas_primitives::alonzo::{Nonce, NonceVariant, RationalNumber, Tx, Value};
use pallas_traverse::{Era, MultiEraTx};
use pallas_validate::{
    phase1::validate_txs,
    utils::{
        AccountState, CertState, Environment, MultiEraProtocolParameters, ShelleyMAError,
        ShelleyProtParams, UTxOs, ValidationError, get_alonzo_comp_tx_size, get_babbage_tx_size,
        get_conway_tx_size,
    },
};

// ---------------------------------------------------------------------------------------------
// The size phase-1 validation feeds to the minimum-fee and maximum-size rules is the ledger's
// (the traversal size).  Unfixed: Shelley..Alonzo are 1 byte (auxiliary data present) or 2 bytes
// (absent) short -- the array header and the `null` are not counted; Babbage and Conway are 1 byte
// long -- the re-encoding includes the phase-2 validity flag.

#[test]
fn shelley_tx_without_metadata_has_the_ledger_size() {
    let cbor = cbor_to_bytes(include_str!("../../test_data/shelley1.tx"));
    let mtx: Tx = minted_tx_from_cbor(&cbor);
    let ledger = MultiEraTx::from_alonzo_compatible(&mtx, Era::Shelley).size();
    assert_eq!(ledger, 293);
    assert_eq!(get_alonzo_comp_tx_size(&mtx) as usize, ledger);
}

#[test]
fn alonzo_tx_has_the_ledger_size() {
    let cbor = cbor_to_bytes(include_str!("../../test_data/alonzo1.tx"));
    let mtx: Tx = minted_tx_from_cbor(&cbor);
    let ledger = MultiEraTx::from_alonzo_compatible(&mtx, Era::Alonzo).size();
    assert_eq!(ledger, 265);
    assert_eq!(get_alonzo_comp_tx_size(&mtx) as usize, ledger);
}

#[test]
fn mary_tx_has_the_ledger_size() {
    let cbor = cbor_to_bytes(include_str!("../../test_data/mary1.tx"));
    let mtx: Tx = minted_tx_from_cbor(&cbor);
    let ledger = MultiEraTx::from_alonzo_compatible(&mtx, Era::Mary).size();
    assert_eq!(ledger, 439);
    assert_eq!(get_alonzo_comp_tx_size(&mtx) as usize, ledger);
}

#[test]
fn babbage_tx_has_the_ledger_size() {
    let cbor = cbor_to_bytes(include_str!("../../test_data/babbage2.tx"));
    let mtx = babbage_minted_tx_from_cbor(&cbor);
    let ledger = MultiEraTx::from_babbage(&mtx).size();
    assert_eq!(ledger, 1748);
    assert_eq!(get_babbage_tx_size(&mtx), Some(ledger as u32));
}

#[test]
fn conway_tx_has_the_ledger_size() {
    let cbor = cbor_to_bytes(include_str!("../../test_data/conway1.tx"));
    let mtx = conway_minted_tx_from_cbor(&cbor);
    let ledger = MultiEraTx::from_conway(&mtx).size();
    assert_eq!(ledger, 1096);
    assert_eq!(get_conway_tx_size(&mtx), Some(ledger as u32));
}

// ---------------------------------------------------------------------------------------------
// Through the whole pipeline.  Mainnet Shelley transaction 50eba65e…8bb2 (tests/shelley_ma.rs
// `successful_mainnet_shelley_tx`) is 293 bytes for the ledger.

fn shelley_env(minfee_b: u32, max_transaction_size: u32) -> Environment {
    let one = || RationalNumber {
        numerator: 1,
        denominator: 1,
    };
    Environment {
        prot_params: MultiEraProtocolParameters::Shelley(ShelleyProtParams {
            system_start: chrono::DateTime::parse_from_rfc3339("2017-09-23T21:44:51Z").unwrap(),
            epoch_length: 432000,
            slot_length: 1,
            minfee_b,
            minfee_a: 44,
            max_block_body_size: 65536,
            max_transaction_size,
            max_block_header_size: 1100,
            key_deposit: 2000000,
            pool_deposit: 500000000,
            maximum_epoch: 18,
            desired_number_of_stake_pools: 150,
            pool_pledge_influence: one(),
            expansion_rate: one(),
            treasury_growth_rate: one(),
            decentralization_constant: one(),
            extra_entropy: Nonce {
                variant: NonceVariant::NeutralNonce,
                hash: None,
            },
            protocol_version: (0, 2),
            min_utxo_value: 1000000,
            min_pool_cost: 340000000,
        }),
        prot_magic: 764824073,
        block_slot: 5281340,
        network_id: 1,
        acnt: Some(AccountState {
            treasury: 261_254_564_000_000,
            reserves: 0,
        }),
    }
}

fn validate_shelley1(env: &Environment) -> Result<(), ValidationError> {
    let cbor = cbor_to_bytes(include_str!("../../test_data/shelley1.tx"));
    let mtx: Tx = minted_tx_from_cbor(&cbor);
    let metx: MultiEraTx = MultiEraTx::from_alonzo_compatible(&mtx, Era::Shelley);
    let utxos: UTxOs = mk_utxo_for_alonzo_compatible_tx(
        &mtx.transaction_body,
        &[(
            String::from(
                "0129bb156d52d014bb444a14138cbee36044c6faed37d0c2d49d2358315c465cbf8c5536970e8a29bb7adcda0d663b20007d481813694c64ef",
            ),
            Value::Coin(2332267427205),
            None,
        )],
    );
    let mut cert_state: CertState = CertState::default();
    validate_txs(&[metx], env, &utxos, &mut cert_state)
}

fn shelley1_fee_and_size() -> (u32, u32) {
    let cbor = cbor_to_bytes(include_str!("../../test_data/shelley1.tx"));
    let mtx: Tx = minted_tx_from_cbor(&cbor);
    let size = MultiEraTx::from_alonzo_compatible(&mtx, Era::Shelley).size() as u32;
    (mtx.transaction_body.fee as u32, size)
}

#[test]
fn fee_of_exactly_the_ledger_minimum_is_accepted_and_one_lovelace_less_is_not() {
    let (fee, size) = shelley1_fee_and_size();
    // minimum fee = 44 * size + b == fee
    let exact = shelley_env(fee - 44 * size, 4096);
    assert!(matches!(validate_shelley1(&exact), Ok(())));
    // minimum fee = fee + 1: the fee is one lovelace short.  Unfixed: the validator measures 291
    // bytes instead of 293 and accepts a fee that is up to 88 lovelace below the minimum.
    let short = shelley_env(fee - 44 * size + 1, 4096);
    assert!(matches!(
        validate_shelley1(&short),
        Err(ValidationError::ShelleyMA(ShelleyMAError::FeesBelowMin))
    ));
}

#[test]
fn maximum_size_is_enforced_at_exactly_the_ledger_size() {
    let (_, size) = shelley1_fee_and_size();
    assert!(matches!(validate_shelley1(&shelley_env(155381, size)), Ok(())));
    // Unfixed: a 293-byte transaction passes a 292-byte limit.
    assert!(matches!(
        validate_shelley1(&shelley_env(155381, size - 1)),
        Err(ValidationError::ShelleyMA(ShelleyMAError::MaxTxSizeExceeded))
    ));
}
