#!/opt/veriftools/pyvenv/bin/python
import json, sys, glob, jsonschema
m=json.load(open('/verif/MANIFEST.json')); s=json.load(open('/root/.vp/MANIFEST.schema.json'))
jsonschema.validate(m,s); print('manifest ok', len(m['checks']), 'checks')
es=json.load(open('/root/.vp/EVIDENCE.schema.json'))
for c in m['checks']:
    try:
        e=json.load(open(c['evidence_file'])); jsonschema.validate(e,es)
        if e['level']!=c['level_claimed']['category']: print('LEVEL MISMATCH', c['property_id'])
    except Exception as ex:
        print('EVIDENCE BAD', c['property_id'], str(ex)[:200])
print('evidence checked')
