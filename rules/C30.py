"""C30 — block traversal exposes each transaction with its own parts.

Decides: (a) era table: probe::block_era (wrapper tag -> outcome) o MultiEraBlock::decode (outcome -> decode_<era>) o what each
decode_<era> constructs o era() equals the wrapper-tag table for tags 0..7 and nothing else is accepted; (b) index coherence in the
three *_clone_tx_at functions: the same `index` reaches transaction_bodies.get, transaction_witness_sets.get, the
invalid_transactions membership test and the auxiliary_data_set key comparison, and `success` is the negation of that membership;
(c) tx_count / is_empty read transaction_bodies of the same block variant."""
import json
import os
import re
from pv.program import Program
from pv.report import Result, finish
from pv.tabulate import tabulate, cond_variants
from pv.mir import sym_str, sym_walk
from pv.facts import VERIF
from pv import flow

T = "pallas_traverse::"


def closure_env_map(parent, child_path):
    """field index -> parent symbolic operand for the closure aggregate building `child_path` in `parent`."""
    for bi, si, s in parent.statements():
        if s[0] == "a" and s[2]["k"] == "agg" and s[2].get("ak") == "closure" and s[2].get("def") == child_path:
            return [parent.sym_operand(o) for o in s[2]["fields"]]
    return None


def resolves_to_param(sym, env, param_name):
    """Does `sym` (in a closure body) denote the captured parent parameter `param_name`?"""
    for sub in sym_walk(sym):
        if sub[0] == "field" and isinstance(sub[2], (int, str)) and str(sub[2]).isdigit():
            base = sub[1]
            while base[0] in ("deref", "ref"):
                base = base[1]
            if base[0] == "param" and base[1] == 1 and env and int(sub[2]) < len(env):
                cap = env[int(sub[2])]
                while cap[0] in ("ref", "deref"):
                    cap = cap[1]
                if cap[0] == "param" and cap[2] == param_name:
                    return True
    return False


def run(tier):
    res = Result("C30", tier, level="other")
    spec = json.load(open(os.path.join(VERIF, "spec", "block_eras.json")))
    P = Program(crates=["pallas_traverse"])

    # (a) era table
    be = P.one(r"^pallas_traverse::probe::block_era$")
    tag_to_outcome = {}
    other_outcomes = set()
    for p in tabulate(be, P, 4096):
        if p.end != "return" or p.ret is None:
            continue
        last = p.conds[-1] if p.conds else None
        out = p.ret
        if out[0] != "agg":
            res.violation("block_era:non-constant", "block_era returns a non-constant outcome: %s" % sym_str(out), rule="R-TABLE")
            continue
        name = out[2]
        era = out[3][0][2] if name == "Matched" and out[3] and out[3][0][0] == "agg" else None
        is_tag_switch = last is not None and last[0][0] in ("field",) and "U8" in sym_str(last[0], 400)
        if is_tag_switch and last[1][0] == "eq":
            tag_to_outcome[int(last[1][1])] = (name, era)
        else:
            other_outcomes.add(name)
    if other_outcomes - {"Inconclusive"}:
        res.violation("block_era:fallthrough", "block_era yields %s on a path that does not test the wrapper tag" % sorted(other_outcomes), rule="R-TABLE")
    dec = P.one(r"MultiEraBlock<'b>>::decode$")
    outcome_to_fn = {}
    for p in tabulate(dec, P, 256):
        if p.end != "return" or p.ret is None:
            continue
        cv = [cond_variants(P, c) for c in p.conds]
        oc = next((list(v)[0] for k, v in cv if k.endswith("block_era(&*cbor)") and len(v) == 1), None)
        era = next((list(v)[0] for k, v in cv if k.endswith(".0") and len(v) == 1), None)
        if p.ret[0] == "call":
            outcome_to_fn[(oc, era)] = p.ret[1]
        elif p.ret[0] == "agg" and p.ret[2] == "Err":
            outcome_to_fn[(oc, era)] = "Err"
    eraf = P.one(r"MultiEraBlock<'b>>::era$")
    era_of_variant = {}
    for p in tabulate(eraf, P, 64):
        if p.end != "return":
            continue
        cv = dict(c for c in (cond_variants(P, c) for c in p.conds) if c)
        for v in cv.get("*self", ()):
            era_of_variant[v] = p.ret
    n_rows = 0
    for tag in range(0, 24):
        want = spec["tags"].get(str(tag))
        oc = tag_to_outcome.get(tag)
        key = "era:tag:%d" % tag
        if want is None:
            if oc is None or oc[0] == "Inconclusive":
                continue
            res.violation(key + "=>%s" % (oc,), "wrapper tag %d is accepted as %s but is not a known era tag" % (tag, oc), where="%s:%s" % (be.file, be.line), rule="R-TABLE")
            continue
        n_rows += 1
        if oc is None:
            res.violation(key + "=>rejected", "wrapper tag %d (%s) is not recognised by block_era" % (tag, want), where="%s:%s" % (be.file, be.line), rule="R-TABLE")
            continue
        fnp = outcome_to_fn.get((oc[0], oc[1]))
        g = P.get(fnp) if fnp else None
        if g is None:
            res.violation(key + "=>no-decoder", "outcome %s for tag %d has no decoder in MultiEraBlock::decode (%s)" % (oc, tag, fnp), where="%s:%s" % (dec.file, dec.line), rule="R-TABLE")
            continue
        built = set()
        for p in tabulate(g, P, 64):
            if p.end == "return" and p.ret is not None and p.ret[0] == "agg" and p.ret[2] == "Ok":
                inner = p.ret[3][0]
                if inner[0] == "agg" and inner[1] == T + "MultiEraBlock":
                    built.add((inner[2], tuple(f[2] for f in inner[3] if f[0] == "agg" and f[1] == T + "Era")))
        if len(built) != 1:
            res.violation(key + "=>ambiguous", "%s builds %s" % (fnp, sorted(built)), rule="R-TABLE")
            continue
        variant, eras = built.pop()
        er = era_of_variant.get(variant)
        if er is None:
            final = None
        elif er[0] == "agg":
            final = er[2]
        elif er[0] == "field" and eras:
            final = eras[0]
        else:
            final = None
        res.sample({"tag": tag, "outcome": oc, "decoder": fnp.split("::")[-1], "variant": variant, "era()": final, "spec": want})
        ebb_ok = (tag != spec["ebb_tag"]) or variant == "EpochBoundary"
        if final == want and ebb_ok:
            res.ok(key, "R-TABLE", "tag %d -> %s -> %s -> era() = %s" % (tag, oc[0], variant, final))
        else:
            res.violation(key + "=>%s" % final, "a block whose wrapper declares tag %d (%s) is traversed as %s with era() = %s" % (tag, want, variant, final),
                          where="%s:%s" % (g.file, g.line), rule="R-TABLE")
    res.floor("era table rows", n_rows, 8)

    # (b) index coherence
    n_fn = 0
    for fn in P.find(r"^pallas_traverse::support::\w+_clone_tx_at$"):
        n_fn += 1
        nm = fn.name
        gets = {}
        for bi, t in flow.calls_matching(fn, r"core::slice::get$"):
            ch = flow.arg_chain(fn, t, 0)
            idx = fn.sym_operand(t["args"][1])
            if ch and ch[1]:
                gets[ch[1][-1]] = idx
        for field in ("transaction_bodies", "transaction_witness_sets"):
            key = "index:%s:%s" % (nm, field)
            idx = gets.get(field)
            if idx is not None and idx[0] == "param" and idx[2] == "index":
                res.ok(key, "R-PROV", "%s.get(index)" % field)
            else:
                res.violation(key, "%s: %s is not looked up with the requested index (%s)" % (nm, field, sym_str(idx) if idx else "no get() call"), where="%s:%s" % (fn.file, fn.line), rule="R-PROV")
        kids = P.closure_children(fn)
        found_contains = found_eq = False
        for k in kids:
            env = closure_env_map(fn, k.path) or closure_env_map(P.get(k.b.get("parent")) or fn, k.path)
            for bi, t in k.calls():
                name = flow.callee_name(t)
                if name.endswith("::contains") and len(t["args"]) > 1:
                    found_contains = resolves_to_param(k.sym_operand(t["args"][1]), env, "index") or found_contains
                if re.search(r"PartialEq::eq$|::eq$", name) and len(t["args"]) > 1:
                    if any(resolves_to_param(k.sym_operand(a), env, "index") for a in t["args"]):
                        found_eq = True
        for ok, what in ((found_contains, "invalid_transactions membership"), (found_eq, "auxiliary_data_set key comparison")):
            key = "index:%s:%s" % (nm, what.split()[0])
            if ok:
                res.ok(key, "R-PROV", "%s uses the requested index" % what)
            else:
                res.violation(key, "%s: the %s does not use the requested index" % (nm, what), where="%s:%s" % (fn.file, fn.line), rule="R-PROV")
        # success = !contains
        key = "success-negation:%s" % nm
        okneg = False
        for bi, si, rv in flow.aggregates(fn, r"::model::Tx$"):
            adt = rv["adt"]
            i = flow.adt_field_index(P, adt, "success")
            if i is None:
                # Tx type lives in pallas_primitives: field order body, witness_set, success, aux
                i = 2
            s_ = fn.sym_operand(rv["fields"][i])
            if s_[0] == "un" and s_[1] == "Not" and any(sub[0] == "call" and sub[1].endswith("unwrap_or") for sub in sym_walk(s_)):
                okneg = True
        if okneg:
            res.ok(key, "R-PROV", "Tx.success = !(invalid_transactions contains index)")
        else:
            res.violation(key, "%s: `success` is not the negation of the invalid-transactions membership test" % nm, where="%s:%s" % (fn.file, fn.line), rule="R-PROV")
    res.floor("clone_tx_at functions", n_fn, 3)

    # (c) tx_count / is_empty per variant
    for fname in ("tx_count", "is_empty"):
        f = P.one(r"MultiEraBlock<'b>>::%s$" % fname)
        for p in tabulate(f, P, 64):
            if p.end != "return":
                continue
            cv = dict(c for c in (cond_variants(P, c) for c in p.conds) if c)
            for v in cv.get("*self", ()):
                key = "%s:%s" % (fname, v)
                r = p.ret
                if v == "EpochBoundary":
                    ok = r[0] == "const"
                else:
                    txt = sym_str(r, 400)
                    want_field = "tx_payload" if v == "Byron" else "transaction_bodies"
                    ok = (" as %s)" % v) in txt and want_field in txt
                if ok:
                    res.ok(key, "R-TABLE", "%s(%s) reads the bodies of the same variant" % (fname, v))
                else:
                    res.violation(key, "%s for variant %s does not read that variant's transaction bodies: %s" % (fname, v, sym_str(r, 200)), where="%s:%s" % (f.file, f.line), rule="R-TABLE")
    # (c2) txs(): each variant is traversed with its own era's cloner
    f = P.one(r"MultiEraBlock<'b>>::txs$")
    want_cloner = {"AlonzoCompatible": "clone_alonzo_txs", "Babbage": "clone_babbage_txs", "Byron": "clone_byron_txs", "Conway": "clone_conway_txs"}
    seen = {}
    for p in tabulate(f, P, 64):
        if p.end != "return":
            continue
        cv = dict(c for c in (cond_variants(P, c) for c in p.conds) if c)
        for v in cv.get("*self", ()):
            cl = [c[0].split("::")[-1] for c in p.calls if "support::clone_" in c[0]]
            seen[v] = cl
    for v, want in want_cloner.items():
        key = "txs:%s" % v
        if seen.get(v) == [want]:
            res.ok(key, "R-TABLE", "txs() of a %s block uses %s" % (v, want))
        else:
            res.violation(key, "txs() of a %s block uses %s, expected %s" % (v, seen.get(v), want), where="%s:%s" % (f.file, f.line), rule="R-TABLE")
    for g in P.find(r"^pallas_traverse::support::clone_(alonzo|babbage|conway)_txs$"):
        era = g.name.split("_")[1]
        kid_calls = [flow.callee_name(t).split("::")[-1] for k in P.closure_children(g) for _, t in k.calls()]
        lens = [flow.arg_chain(g, t, 0) for _, t in flow.calls_matching(g, r"::len$")]
        key = "cloner:%s" % g.name
        if ("%s_clone_tx_at" % era) in kid_calls and any(c and c[1] and c[1][-1] == "transaction_bodies" for c in lens):
            res.ok(key, "R-TABLE", "iterates 0..transaction_bodies.len() with %s_clone_tx_at" % era)
        else:
            res.violation(key, "%s does not iterate the block's transaction bodies with %s_clone_tx_at (calls %s)" % (g.name, era, kid_calls), where="%s:%s" % (g.file, g.line), rule="R-TABLE")
    res.trusted += ["spec/block_eras.json"]
    return finish(res,
                  explanation="Composes four code tables (tag probe, decoder dispatch, constructed variant/era, era()) and compares the result with the wrapper-tag table; "
                              "checks by provenance that one index selects body, witness set, validity flag and auxiliary data. Does not decide txs().len() == tx_count() for malformed blocks.",
                  rule_text="R-TABLE(era composition) + R-PROV(index coherence, success negation) + R-TABLE(tx_count/is_empty)",
                  trusted_base=["rustc MIR", "spec/block_eras.json"])
