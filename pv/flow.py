"""Engine E3 helpers: per-function flow rules on the MIR CFG (provenance, ordering, frame conditions)."""
import re

from .mir import sym_walk, sym_str, op_place, pl_local, pl_proj
from .guards import place_chain, overlaps
from .panic import strip_generics


def callee_name(t):
    return strip_generics(t.get("f") or t.get("g") or "<indirect>")


def calls_matching(fn, rx):
    rx = re.compile(rx) if isinstance(rx, str) else rx
    return [(bi, t) for bi, t in fn.calls() if rx.search(callee_name(t))]


TRANSPARENT = re.compile(r"::(iter|iter_mut|into_iter|deref|deref_mut|as_ref|as_mut|as_slice|as_mut_slice|clone|to_vec|to_owned|"
                         r"borrow|borrow_mut|into|as_deref|by_ref|copied|cloned|as_bytes|as_str|unwrap_or_default|raw_cbor)$")


def origin_chain(sym):
    """Like guards.place_chain but looks through provenance-transparent calls (iter, clone, deref, as_ref, ...)."""
    chain = []
    while True:
        k = sym[0]
        if k in ("ref", "deref", "downcast"):
            sym = sym[1]
        elif k == "cast":
            sym = sym[1]
        elif k == "field":
            chain.append(str(sym[2]))
            sym = sym[1]
        elif k in ("index", "cindex", "subslice"):
            chain.append("[]")
            sym = sym[1]
        elif k == "param":
            chain.reverse()
            return ("param", sym[1]), chain
        elif k == "local":
            chain.reverse()
            return ("local", sym[1]), chain
        elif k == "call" and TRANSPARENT.search(strip_generics(sym[1])) and len(sym[2]) >= 1:
            sym = sym[2][0]
        else:
            return None


def arg_chain(fn, t, i):
    """Place chain (root, fields) behind call argument i, looking through refs/derefs and transparent calls."""
    if i >= len(t["args"]):
        return None
    return origin_chain(fn.sym_operand(t["args"][i]))


def sym_contains_call(sym, rx, bb=None):
    rx = re.compile(rx) if isinstance(rx, str) else rx
    for sub in sym_walk(sym):
        if sub[0] == "call" and rx.search(strip_generics(sub[1])) and (bb is None or sub[3] == bb):
            return True
    return False


def sym_calls(sym):
    return [sub for sub in sym_walk(sym) if sub[0] == "call"]


def dominates(fn, a, b):
    return a in fn.dominators().get(b, ())


def writes_between(fn, root_chain, a_bb, b_bb, ignore_calls=None):
    """Writes (assignments or &mut arguments) to memory overlapping `root_chain` that may execute after the
    terminator of a_bb and before the terminator of b_bb."""
    out = []
    n_a = len(fn.blocks[a_bb]["st"])
    between = fn.positions_between((a_bb, n_a), (b_bb, len(fn.blocks[b_bb]["st"])))
    for pos, wsym, how in fn.writes():
        wc = place_chain(wsym)
        if wc is None or not overlaps(wc, root_chain):
            continue
        if pos == (a_bb, n_a):
            continue
        if between(pos):
            if ignore_calls and how in ("mutref-arg", "call-dest"):
                t = fn.blocks[pos[0]]["term"]
                if t["k"] == "call" and re.search(ignore_calls, callee_name(t)):
                    continue
            out.append((pos, wsym, how))
    return out


def local_by_name(fn, name):
    return [i for i, l in enumerate(fn.locals) if l.get("name") == name]


def aggregates(fn, adt_rx, variant=None):
    """All Aggregate rvalues building an ADT matching adt_rx: [(bb, si, rvalue)]."""
    rx = re.compile(adt_rx)
    out = []
    for bi, si, s in fn.statements():
        if s[0] == "a" and s[2]["k"] == "agg" and s[2].get("ak") == "adt" and rx.search(s[2]["adt"]):
            if variant is None or s[2]["variant"] == variant:
                out.append((bi, si, s[2]))
    return out


def adt_field_index(prog, adt_path, field, variant=None):
    a = prog.adt(adt_path)
    if a is None:
        return None
    for v in a["variants"]:
        if variant is not None and v["name"] != variant:
            continue
        for i, f in enumerate(v["fields"]):
            if f["name"] == field:
                return i
    return None
