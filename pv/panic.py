"""Engine E5: panic-site census with checked discharge.

A *panic site* is a MIR `Assert` terminator (bounds, overflow, div/rem by zero, neg overflow) or a call
to an API on the panicking list.  Each site in the closure of the entry points must be discharged by
an automatic guard rule (verified on the CFG) or by a reviewed table entry; otherwise it is a violation.
"""
import json
import os
import re

from .mir import op_place, pl_local, pl_proj, const_val, sym_str, short_path, sym_walk
from .facts import VERIF

# Assert kinds that are classified and counted but not judged (see DESIGN §E5)
UNJUDGED_ASSERTS = ("MisalignedPointerDereference", "NullPointerDereference", "ResumedAfterReturn",
                    "ResumedAfterPanic", "ResumedAfterDrop", "InvalidEnumConstruction")

# Panicking external APIs: regex on the resolved callee path (generic args stripped) -> label
PANIC_APIS = [
    (r"^core::option::Option::unwrap$", "Option::unwrap"),
    (r"^core::option::Option::expect$", "Option::expect"),
    (r"^core::result::Result::unwrap$", "Result::unwrap"),
    (r"^core::result::Result::expect$", "Result::expect"),
    (r"^core::result::Result::unwrap_err$", "Result::unwrap_err"),
    (r"^core::result::Result::expect_err$", "Result::expect_err"),
    (r"^core::panicking::", "panic"),
    (r"^std::panicking::", "panic"),
    (r"^core::option::unwrap_failed$", "panic"),
    (r"^core::result::unwrap_failed$", "panic"),
    (r"^core::slice::index::(.*::)?index(_mut)?$", "slice-index"),
    (r"^core::array::(.*::)?index(_mut)?$", "slice-index"),
    (r"^alloc::vec::Vec as core::ops::index::Index(Mut)?::index(_mut)?$", "slice-index"),
    (r"^alloc::vec::.*::index(_mut)?$", "slice-index"),
    (r"^core::str::traits::(.*::)?index(_mut)?$", "str-index"),
    (r"^core::str::split_at(_mut)?$", "split_at"),
    (r"^alloc::string::.*::index(_mut)?$", "str-index"),
    (r"^std::collections::hash::map::HashMap as core::ops::index::Index::index$", "map-index"),
    (r"^alloc::collections::btree::map::BTreeMap as core::ops::index::Index::index$", "map-index"),
    (r"^alloc::collections::vec_deque::.*::index(_mut)?$", "slice-index"),
    (r"^core::slice::copy_from_slice$", "copy_from_slice"),
    (r"^core::slice::clone_from_slice$", "copy_from_slice"),
    (r"^core::slice::split_at(_mut)?$", "split_at"),
    (r"^core::slice::(chunks|chunks_exact|chunks_mut|windows|rchunks)$", "chunks(0)"),
    (r"^core::slice::(swap|rotate_left|rotate_right|copy_within)$", "slice-op"),
    (r"^alloc::vec::Vec::(remove|insert|swap_remove|drain|split_off|truncate_front)$", "vec-op"),
    (r"^alloc::collections::vec_deque::VecDeque::(drain|split_off|swap|range)$", "vec-op"),
    (r"^alloc::string::String::(remove|insert|insert_str|drain|split_off|replace_range)$", "string-op"),
    # allocation sized by a value: capacity overflow panics above isize::MAX bytes (and aborts on OOM below it)
    (r"^alloc::vec::Vec::(with_capacity|reserve|reserve_exact|resize|resize_with)$", "alloc-size"),
    (r"^alloc::vec::from_elem$", "alloc-size"),
    (r"^alloc::string::String::(with_capacity|reserve|reserve_exact)$", "alloc-size"),
    (r"^alloc::collections::vec_deque::VecDeque::(with_capacity|reserve|reserve_exact|resize)$", "alloc-size"),
    (r"^std::collections::hash::(map::HashMap|set::HashSet)::(with_capacity|reserve)$", "alloc-size"),
    (r"^alloc::(slice|str)::repeat$", "alloc-size"),
    (r"^core::cell::RefCell::(borrow|borrow_mut)$", "refcell-borrow"),
    (r"^core::num::.*::(pow|abs|div_euclid|rem_euclid|next_power_of_two|ilog2|ilog10|ilog|isqrt|div_ceil|next_multiple_of|strict_\w+)$", "int-op"),
    (r"^core::time::Duration::(from_secs_f32|from_secs_f64|mul_f32|mul_f64|div_f32|div_f64|new)$", "duration-op"),
    (r"^core::time::Duration as core::ops::arith::\w+::\w+$", "duration-op"),
    (r"^(std|tokio)::time::(instant::)?Instant as core::ops::arith::\w+::\w+$", "instant-op"),
    (r"^std::time::Instant::duration_since$", None),
    (r"^core::iter::traits::iterator::Iterator::step_by$", "step_by(0)"),
    (r"^core::char::methods::.*::(from_digit|to_digit)$", "char-radix"),
    (r"^std::process::(exit|abort)$", "process-exit"),
    (r"^core::ops::arith::(Add|Sub|Mul|Div|Rem|Neg|Shl|Shr)\w*::\w+$", "arith-trait"),
    (r" as core::ops::arith::(Add|Sub|Mul|Div|Rem|Neg)(Assign)?::\w+$", "arith-trait"),
    (r"^core::ops::bit::(Shl|Shr)\w*::\w+$", "arith-trait"),
    (r"^std::thread::.*::(unwrap|join)$", None),
    (r"^std::sync::(mutex|poison::mutex)::Mutex::lock$", None),
    (r"^tokio::.*::(block_on|spawn_blocking)$", None),
    (r"^core::slice::(sort_by|sort_unstable_by|sort_by_key|sort|sort_unstable|sort_by_cached_key|sort_unstable_by_key)$", None),
]
_PANIC_RX = [(re.compile(rx), lab) for rx, lab in PANIC_APIS]


def strip_generics(p):
    """`core::option::Option::<T>::unwrap` -> `core::option::Option::unwrap`;
    `<X<A> as Tr<B>>::m` -> `X as Tr::m`;  `core::slice::<impl [T]>::len` -> `core::slice::len`."""
    out = []
    depth = 0
    i = 0
    n = len(p)
    # handle leading '<' of qualified paths: keep content
    qualified = p.startswith("<")
    s = p
    if qualified:
        # find matching '>' of the leading '<'
        d = 0
        for j, ch in enumerate(p):
            if ch == "<":
                d += 1
            elif ch == ">":
                d -= 1
                if d == 0:
                    inner = p[1:j]
                    rest = p[j + 1:]
                    s = _strip(inner) + rest
                    break
    return _strip(s)


def _strip(s):
    out = []
    depth = 0
    for ch in s:
        if ch == "<":
            depth += 1
        elif ch == ">":
            depth -= 1
        elif depth == 0:
            out.append(ch)
    r = "".join(out)
    while "::::" in r:
        r = r.replace("::::", "::")
    return r.rstrip(":")


def panic_api_label(callee):
    if callee is None:
        return None
    s = strip_generics(callee)
    for rx, lab in _PANIC_RX:
        if rx.search(s):
            return lab
    return None


def is_arith_trait_on_prims(t):
    """`<&u64 as Sub>::sub` etc. on primitive ints forwards to the checked primitive op (panics on overflow in dev)."""
    f = t.get("f") or ""
    m = re.match(r"^<&?(?:'\w+ )?(u8|u16|u32|u64|u128|usize|i8|i16|i32|i64|i128|isize) as core::ops::arith::", f)
    return bool(m)


class Site:
    __slots__ = ("fn", "bb", "kind", "detail", "line", "expn", "term", "ordinal", "sig")

    def key(self):
        return "%s | %s | %s | #%d" % (self.fn.path, self.kind, self.sig, self.ordinal)

    def where(self):
        return "%s:%s" % (self.fn.file, self.line)


def _is_fmt_expansion(expn):
    if not expn:
        return False
    return any(x in expn for x in ("Bang:format_args", "Bang:trace", "Bang:debug", "Bang:info", "Bang:warn", "Bang:error",
                                   "Bang:event", "Bang:span", "Bang:write", "Bang:println", "Bang:eprintln", "Bang:print",
                                   "Bang:log", "Bang:format", "Attr:instrument"))


def enumerate_sites(fn):
    """All panic sites of one MIR body (judged kinds only), with stable per-function ordinals."""
    sites = []
    counts = {}
    skipped = {"unjudged_asserts": 0, "fmt_expansion": 0}
    for bi, b in enumerate(fn.blocks):
        if b.get("cleanup"):
            continue
        t = b["term"]
        s = None
        if t["k"] == "assert":
            kind = t["kind"]
            if kind in UNJUDGED_ASSERTS:
                skipped["unjudged_asserts"] += 1
                continue
            s = Site()
            s.kind = kind
            ops = [sym_str(fn.sym_operand(o), 80) for o in t["ops"]]
            s.detail = ", ".join(ops)
            # signature without operand text for overflow on typed operands: keep operand type
            s.sig = _assert_sig(fn, t)
            s.line, s.expn = t["s"][0], t["s"][1]
        elif t["k"] in ("call", "tailcall"):
            callee = t.get("f") or t.get("g")
            lab = panic_api_label(callee)
            if lab is None and is_arith_trait_on_prims(t):
                lab = "arith-trait"
            if lab is None:
                # calls that never return (diverging) into the workspace are not sites; their bodies are analysed
                continue
            if lab == "arith-trait" and not is_arith_trait_on_prims(t):
                # operator on a non-primitive type (IBig, Duration handled separately): not a rustc overflow check
                f = t.get("f") or ""
                if "core::time::Duration" not in f and "Instant" not in f:
                    continue
            sp = t.get("s") or [0, None]
            if _is_fmt_expansion(sp[1]):
                skipped["fmt_expansion"] += 1
                continue
            s = Site()
            s.kind = "call:" + lab
            s.sig = short_path(strip_generics(callee))
            if lab in ("Option::unwrap", "Option::expect", "Result::unwrap", "Result::expect") and t.get("args"):
                s.sig = s.sig.split("::")[-1] + "<-" + _producer(fn.sym_operand(t["args"][0]))
            s.detail = ", ".join(sym_str(fn.sym_operand(a), 80) for a in t.get("args", []))
            s.line, s.expn = sp[0], sp[1]
        if s is None:
            continue
        s.fn = fn
        s.bb = bi
        s.term = t
        k = (s.kind, s.sig)
        s.ordinal = counts.get(k, 0)
        counts[k] = s.ordinal + 1
        sites.append(s)
    return sites, skipped


def _producer(sym, depth=6):
    """Name of the call that produced the value being unwrapped (looking through refs, casts, `?`)."""
    while depth > 0:
        depth -= 1
        k = sym[0]
        if k in ("ref", "deref", "cast"):
            sym = sym[1]
        elif k in ("field", "downcast"):
            sym = sym[1]
        elif k == "call":
            name = strip_generics(sym[1])
            last = name.split("::")[-1]
            if last in ("branch", "as_ref", "as_mut", "clone", "map_err", "ok", "into", "as_deref", "copied", "cloned", "take") and sym[2]:
                sym = sym[2][0]
                continue
            return short_path(name)
        elif k == "param":
            return "param"
        elif k == "local":
            return "local"
        elif k == "constsym" or k == "const":
            return "const"
        else:
            return k
    return "?"


def _assert_sig(fn, t):
    tys = []
    for o in t["ops"]:
        p = op_place(o)
        if p is not None:
            tys.append(_operand_ty(fn, o) or "place")
        else:
            k = o.get("k") or {}
            tys.append("const:" + str(k.get("ty")))
    return ",".join(tys)


# ------------------------------------------------------------------ automatic guard rules
from . import guards

INT_BITS = {"u8": 8, "i8": 8, "u16": 16, "i16": 16, "u32": 32, "i32": 32, "u64": 64, "i64": 64,
            "u128": 128, "i128": 128, "usize": 64, "isize": 64}


def _len_of(sym):
    """If sym is `len(X)` (PtrMetadata of a ref, or a slice/Vec/array len call) return X's symbolic base."""
    if sym[0] == "un" and sym[1] == "PtrMetadata":
        x = sym[2]
        while x[0] in ("ref", "cast"):
            x = x[1]
        return x
    if sym[0] == "call" and re.search(r"::len$", strip_generics(sym[1])) and len(sym[2]) == 1:
        x = sym[2][0]
        while x[0] in ("ref",):
            x = x[1]
        return x
    return None


def _same_place(a, b):
    ca, cb = guards.place_chain(a), guards.place_chain(b)
    return ca is not None and ca == cb


def _is_const(s):
    return s[0] == "const"


def _cv(s):
    v = s[1]
    return int(v) if not isinstance(v, bool) else int(v)


def _operand_ty(fn, o):
    p = op_place(o)
    if p is not None:
        if isinstance(p, int):
            return fn.local_ty(p)
        ty = fn.local_ty(pl_local(p))
        for e in pl_proj(p):
            if e[0] == "deref":
                ty = _deref_ty(ty)
            elif e[0] == "field":
                ty = e[3]
            elif e[0] in ("index", "cindex"):
                m = re.match(r"^\[(.*?)(; .*)?\]$", ty or "")
                ty = m.group(1) if m else None
            elif e[0] == "downcast":
                pass
            else:
                ty = None
            if ty is None:
                return None
        return ty
    k = o.get("k") or {}
    return k.get("ty")


def _upper_bound(sym, facts, depth=4):
    """A constant c with sym <= c guaranteed (from masks, remainders, casts of small types, facts), or None."""
    if depth <= 0:
        return None
    k = sym[0]
    if k == "const":
        return _cv(sym)
    if k == "bin":
        op, a, b = sym[1], sym[2], sym[3]
        if op == "BitAnd":
            for x in (a, b):
                if _is_const(x) and _cv(x) >= 0:
                    return _cv(x)
        if op == "Rem" and _is_const(b) and _cv(b) > 0:
            return _cv(b) - 1
        if op == "Shr" and _is_const(b):
            ub = _upper_bound(a, facts, depth - 1)
            if ub is not None:
                return ub >> _cv(b)
        if op in ("Add", "AddWithOverflow"):
            ua, ub = _upper_bound(a, facts, depth - 1), _upper_bound(b, facts, depth - 1)
            if ua is not None and ub is not None:
                return ua + ub
        if op in ("Mul", "MulWithOverflow"):
            ua, ub = _upper_bound(a, facts, depth - 1), _upper_bound(b, facts, depth - 1)
            if ua is not None and ub is not None:
                return ua * ub
        if op in ("Sub", "SubWithOverflow"):
            ua = _upper_bound(a, facts, depth - 1)
            if ua is not None:
                return ua
    if k == "field" and sym[2] in (0, "0") and sym[1][0] == "bin" and sym[1][1].endswith("WithOverflow"):
        return _upper_bound(sym[1], facts, depth)
    if k == "cast":
        ub = _upper_bound(sym[1], facts, depth - 1)
        frm = sym[2]
        if ub is not None:
            return ub
        if frm in ("u8", "u16", "u32") :
            return (1 << INT_BITS[frm]) - 1
        if frm == "bool":
            return 1
    for f in facts:
        for op, l, r in f.oriented():
            if l == sym and _is_const(r):
                if op == "Lt":
                    return _cv(r) - 1
                if op in ("Le", "Eq"):
                    return _cv(r)
    return None


def _nonneg(sym, fn=None):
    """Is the value known to be >= 0 (unsigned type or masked)?"""
    k = sym[0]
    if k == "const":
        return _cv(sym) >= 0
    if k == "cast":
        return sym[2].startswith("u") or sym[2] == "bool" or _nonneg(sym[1])
    if k == "bin" and sym[1] == "BitAnd":
        return any(_is_const(x) and _cv(x) >= 0 for x in (sym[2], sym[3]))
    return False


def auto_discharge(site):
    """Return a reason string if an automatic guard rule discharges the site, else None."""
    fn = site.fn
    t = site.term
    k = site.kind
    facts = guards.facts_at_term(fn, site.bb)
    if k == "BoundsCheck":
        ln, idx = t["ops"]
        lsym = fn.sym_operand(ln)
        isym = fn.sym_operand(idx)
        base = _len_of(lsym)
        if _is_const(lsym):
            ub = _upper_bound(isym, facts)
            if ub is not None and ub < _cv(lsym):
                return "index bounded by %d < constant length %d" % (ub, _cv(lsym))
        for f in facts:
            for op, a, b in f.oriented():
                if a != isym:
                    continue
                if op == "Lt":
                    lb = _len_of(b)
                    if b == lsym or (lb is not None and base is not None and _same_place(lb, base)):
                        return "dominating guard: index < len of the same base"
        return None
    if k.startswith("Overflow:"):
        op = k.split(":")[1]
        a, b = (fn.sym_operand(o) for o in t["ops"])
        aty = _operand_ty(fn, t["ops"][0])
        if op in ("Shl", "Shr"):
            bits = INT_BITS.get(aty)
            if bits is None:
                return None
            ub = _upper_bound(b, facts)
            bty = _operand_ty(fn, t["ops"][1]) or ""
            if ub is not None and ub < bits and (_nonneg(b) or _is_const(b) or bty.startswith("u")):
                return "shift amount bounded by %d < %d bits" % (ub, bits)
            return None
        bits = INT_BITS.get(aty)
        if op in ("Add", "Mul") and bits and aty[0] == "u":
            ua, ub = _upper_bound(a, facts), _upper_bound(b, facts)
            if ua is not None and ub is not None:
                v = ua + ub if op == "Add" else ua * ub
                if v < (1 << bits):
                    return "operands bounded (%d, %d): result fits %s" % (ua, ub, aty)
        if op == "Add":
            def lenlike(x):
                return _len_of(x) is not None or (_is_const(x) and abs(_cv(x)) < (1 << 32))
            if lenlike(a) and lenlike(b) and aty == "usize":
                return "sum of in-memory lengths / small constants cannot exceed usize"
            if _is_const(b):
                for f in facts:
                    for fop, l, r in f.oriented():
                        if fop == "Lt" and l == a:
                            return "dominating guard: operand < bound before +const"
        if op == "Sub":
            for f in facts:
                for fop, l, r in f.oriented():
                    if fop in ("Ge", "Gt") and l == a and r == b:
                        return "dominating guard: minuend >= subtrahend"
                    if _is_const(b) and l == a and _is_const(r):
                        if fop == "Ge" and _cv(r) >= _cv(b):
                            return "dominating guard: operand >= constant before -const"
                        if fop == "Gt" and _cv(r) + 1 >= _cv(b):
                            return "dominating guard: operand > constant before -const"
                        if fop == "Ne" and _cv(r) == 0 and _cv(b) == 1 and aty and aty[0] == "u":
                            return "dominating guard: operand != 0 before -1"
            if _is_const(a) and aty and aty[0] == "u":
                ub = _upper_bound(b, facts)
                if ub is not None and ub <= _cv(a) and _nonneg(b):
                    return "subtrahend bounded by %d <= constant minuend %d" % (ub, _cv(a))
        if op in ("Div", "Rem"):
            # signed MIN / -1 check: divisor constant other than -1
            if _is_const(b) and _cv(b) != -1:
                return "signed overflow check with constant divisor != -1"
        return None
    if k in ("DivisionByZero", "RemainderByZero"):
        # the operand recorded by rustc is the dividend; find the divisor from the guarded operation
        d = _divisor_of(fn, site)
        if d is not None:
            if _is_const(d) and _cv(d) != 0:
                return "constant non-zero divisor"
            for f in facts:
                for fop, l, r in f.oriented():
                    if l == d and _is_const(r):
                        if fop == "Ne" and _cv(r) == 0:
                            return "dominating guard: divisor != 0"
                        if fop == "Gt" and _cv(r) >= 0:
                            return "dominating guard: divisor > 0"
                        if fop == "Ge" and _cv(r) >= 1:
                            return "dominating guard: divisor >= 1"
        return None
    if k == "call:alloc-size":
        # the size argument: last integer-typed argument (with_capacity(n), from_elem(x, n), reserve(&mut v, n), resize(&mut v, n, x))
        cands = []
        for o in t.get("args", []):
            ty = _operand_ty(fn, o) or ""
            if ty in ("usize", "u64", "u32"):
                cands.append(o)
        if not cands:
            return None
        n = fn.sym_operand(cands[0] if "from_elem" not in (t.get("f") or "") else cands[-1])
        ub = _upper_bound(n, facts)
        if ub is not None and ub < (1 << 40):
            return "allocation size bounded by %d" % ub
        def lenlike(x, d=4):
            if d <= 0:
                return False
            if _len_of(x) is not None or (_is_const(x) and 0 <= _cv(x) < (1 << 40)):
                return True
            if x[0] == "call" and re.search(r"::(len|size_hint|capacity|count)$", strip_generics(x[1])):
                return True
            if x[0] == "cast" and x[4] == "IntToInt" and x[2] in ("u8", "u16", "u32"):
                return True
            if x[0] == "constsym":
                return True           # a named compile-time constant: an over-large value fails every run, not some input
            if x[0] == "call" and re.search(r"Option::(unwrap|expect)$", strip_generics(x[1])) and x[2] and x[2][0][0] in ("constsym", "const"):
                return True
            if x[0] == "field" and x[2] in (0, "0") and x[1][0] == "bin" and x[1][1].endswith("WithOverflow"):
                return lenlike(x[1], d)
            if x[0] == "bin" and x[1] in ("Add", "AddWithOverflow", "Sub", "SubWithOverflow", "Div", "Shr", "Rem", "BitAnd"):
                return lenlike(x[2], d - 1) and (lenlike(x[3], d - 1) or x[1] in ("Div", "Shr", "Rem"))
            if x[0] == "bin" and x[1] in ("Mul", "MulWithOverflow"):
                return lenlike(x[2], d - 1) and _is_const(x[3]) and 0 <= _cv(x[3]) <= 64 or lenlike(x[3], d - 1) and _is_const(x[2]) and 0 <= _cv(x[2]) <= 64
            return False
        if lenlike(n):
            return "allocation size derives from in-memory lengths / small integers"
        return None
    if k == "OverflowNeg":
        a = fn.sym_operand(t["ops"][0])
        ub = _upper_bound(a, facts)
        if ub is not None and _nonneg(a):
            return "negated value is in 0..=%d" % ub
        return None
    return None


def _divisor_of(fn, site):
    """The assert `cond` of Div/Rem-by-zero is `Ne(divisor, 0)`; recover the divisor."""
    c = fn.sym_operand(site.term["cond"])
    # cond = Not(Eq(divisor, 0)) or Ne(divisor, 0)
    neg = False
    while c[0] == "un" and c[1] == "Not":
        neg = not neg
        c = c[2]
    if c[0] == "bin" and c[1] in ("Eq", "Ne"):
        for x, y in ((c[2], c[3]), (c[3], c[2])):
            if _is_const(y) and _cv(y) == 0:
                return x
    return None


# ------------------------------------------------------------------ tables

def load_table(name):
    p = os.path.join(VERIF, "tables", name)
    if not os.path.exists(p):
        return {"entries": []}
    return json.load(open(p))


def census(prog, entries, stop=None):
    """Enumerate sites over closure(entries). Returns (closure, sites, skipped-counters)."""
    closure = prog.closure_of(entries, stop=stop)
    sites = []
    skipped = {"unjudged_asserts": 0, "fmt_expansion": 0}
    for path, (fn, parent) in closure.items():
        ss, sk = enumerate_sites(fn)
        sites.extend(ss)
        for k, v in sk.items():
            skipped[k] += v
    return closure, sites, skipped


def _contains_call(sym, rx):
    for sub in sym_walk(sym):
        if sub[0] == "call" and rx.search(strip_generics(sub[1]) ):
            return True
    return False


def verify_guard(prog, site, g):
    """Verify a table entry's checked guard spec.  Returns (ok, message)."""
    fn = site.fn
    if "dom_call" in g:
        rx = re.compile(g["dom_call"])
        variant = g.get("variant", 0)
        cands = []
        for f in guards.facts_at(fn, site.bb, kill=False):
            if f.op == "Eq" and f.r[0] == "const" and int(f.r[1]) == variant and f.l[0] == "discr" and _contains_call(f.l, rx):
                if "nearest_arg_rx" not in g:
                    return True, "site is on the success path of a dominating call to %s" % g["dom_call"]
                for sub in sym_walk(f.l):
                    if sub[0] == "call" and rx.search(strip_generics(sub[1])) and len(sub) > 3:
                        cands.append(sub)
        if cands:
            # the *nearest* dominating successful call decides (an earlier, weaker call further up must not vouch for this site):
            # its last argument must have the reviewed shape, e.g. `n + 1` for a read of the byte that follows an n-byte block
            dom = fn.dominators()
            near = max(cands, key=lambda c: len(dom.get(c[3], ())))
            arg = sym_str(near[2][-1], 400) if near[2] else ""
            last = near[2][-1] if near[2] else ("unknown",)
            while last[0] in ("ref", "deref"):
                last = last[1]
            if g["nearest_arg_rx"] == "<param>":
                # name-independent: the requirement passed on is a parameter of this function, unmodified
                if last[0] == "param":
                    return True, "site is on the success path of the nearest dominating call %s(<parameter %s>)" % (g["dom_call"], arg)
                return False, "the nearest dominating successful call to %s is given `%s`, not the caller's own requirement unmodified" % (g["dom_call"], arg)
            if re.search(g["nearest_arg_rx"], arg):
                return True, "site is on the success path of the nearest dominating call %s(%s)" % (g["dom_call"], arg)
            return False, "the nearest dominating successful call to %s has argument `%s`, which does not cover this site (reviewed shape: %s)" % (g["dom_call"], arg, g["nearest_arg_rx"])
        if g.get("plain"):
            dom = fn.dominators().get(site.bb, ())
            for bi, t in fn.calls():
                if bi in dom and bi != site.bb and rx.search(strip_generics(t.get("f") or t.get("g") or "")):
                    return True, "site is dominated by a call to %s" % g["dom_call"]
        return False, "no dominating successful call to %s" % g["dom_call"]
    if "dom_cmp" in g:
        # {"dom_cmp": {"op": "Lt|Le|...", "lhs": "<regex on rendered sym>", "rhs": "<regex>"}}
        spec = g["dom_cmp"]
        for f in guards.facts_at(fn, site.bb, kill=False):
            for op, l, r in f.oriented():
                if op == spec["op"] and re.search(spec["lhs"], sym_str(l, 400)) and re.search(spec["rhs"], sym_str(r, 400)):
                    return True, "dominating comparison %s %s %s" % (sym_str(l), op, sym_str(r))
        return False, "no dominating comparison %s" % spec
    if "helper_reads" in g:
        # the decision of a workspace guard helper must consult all of the listed inputs
        spec = g["helper_reads"]
        hs = prog.find(spec["fn"])
        if len(hs) != 1:
            return False, "guard helper %s not found" % spec["fn"]
        h = hs[0]
        text = []
        for bi in h.live_blocks():
            t = h.blocks[bi]["term"]
            if t["k"] == "switch":
                text.append(sym_str(h.sym_operand(t["d"], 30), 2000))
        joined = " ".join(text)
        missing = [r for r in spec["reads"] if not re.search(r, joined)]
        if missing:
            return False, "guard helper %s no longer bases its decision on %s" % (h.name, missing)
        return True, "%s decides on %s" % (h.name, spec["reads"])
    if "py" in g:
        import importlib
        mod, fnname = g["py"].split(":")
        ok, msg = getattr(importlib.import_module(mod), fnname)(prog)
        return ok, msg
    if "caller_guard" in g:
        # every call site of `fn` is control dependent on the (boolean) result of a call to `dom_call`
        spec = g["caller_guard"]
        rx = re.compile(spec["dom_call"])
        sites = prog.callers_of(spec["fn"])
        if not sites:
            return False, "%s has no callers (anchor lost)" % spec["fn"]
        for f2, bi, t in sites:
            found = False
            for fact in guards.facts_at(f2, bi, kill=False):
                if _contains_call(fact.l, rx):
                    found = True
                    break
            if not found:
                return False, "call site of %s in %s is not control dependent on %s" % (spec["fn"], f2.path, spec["dom_call"])
        return True, "all %d call sites of %s are control dependent on %s" % (len(sites), spec["fn"], spec["dom_call"])
    if "callers" in g:
        spec = g["callers"]
        rx = re.compile(spec["fn"])
        allowed = [re.compile(x) for x in spec["allowed"]]
        cs = sorted({f.path for f, bi, t in prog.callers_of(spec["fn"])})
        bad = [c for c in cs if not any(a.search(c) for a in allowed)]
        if bad:
            return False, "%s is called from outside the reviewed caller set: %s" % (spec["fn"], bad)
        if not cs:
            return False, "%s has no callers (anchor lost)" % spec["fn"]
        return True, "callers of %s = %s, all reviewed" % (spec["fn"], [short_path(c) for c in cs])
    if "all" in g:
        msgs = []
        for sub in g["all"]:
            ok, m = verify_guard(prog, site, sub)
            if not ok:
                return False, m
            msgs.append(m)
        return True, "; ".join(msgs)
    if "field_writers" in g:
        spec = g["field_writers"]
        ws = field_writers(prog, spec["adt"], spec["field"])
        allowed = [re.compile(x) for x in spec["writers"]]
        bad = [w for w in ws if not any(rx.search(w) for rx in allowed)]
        if bad:
            return False, "field %s.%s is written outside the reviewed writer set: %s" % (spec["adt"], spec["field"], bad)
        if not ws:
            return False, "field %s.%s has no writers at all (anchor lost)" % (spec["adt"], spec["field"])
        return True, "writers of %s.%s = %d functions, all in the reviewed set" % (spec["adt"], spec["field"], len(ws))
    return False, "unknown guard spec %s" % g


def place_field_steps(fn, place):
    """[(container type string, field name)] for each field projection of a MIR place."""
    l = pl_local(place)
    ty = fn.local_ty(l)
    out = []
    for e in pl_proj(place):
        if e[0] == "deref":
            ty = _deref_ty(ty)
        elif e[0] == "field":
            out.append((ty, e[2] if e[2] is not None else str(e[1])))
            ty = e[3]
        elif e[0] in ("index", "cindex", "subslice"):
            ty = None
        if ty is None:
            ty = ""
    return out


def _deref_ty(ty):
    if ty is None:
        return None
    m = re.match(r"^(&(?:'\w+ )?(?:mut )?|\*mut |\*const )(.*)$", ty)
    if m:
        return m.group(2)
    m = re.match(r"^alloc::boxed::Box<(.*)>$", ty)
    if m:
        return m.group(1)
    return ty


def _ty_is_adt(ty, adt):
    return ty is not None and (ty == adt or ty.startswith(adt + "<"))


_fw_cache = {}


def field_writers(prog, adt, field):
    """Paths of all functions (in the loaded crates) that assign to, or take a mutable reference of, field
    `field` of ADT `adt` (or a sub-place of it)."""
    key = (id(prog), adt, field)
    if key in _fw_cache:
        return _fw_cache[key]
    out = set()
    for fn in prog.fns.values():
        hit = False
        for bi, si, s in fn.statements():
            if s[0] == "a":
                if _place_hits(fn, s[1], adt, field):
                    hit = True
                    break
                rv = s[2]
                if rv["k"] in ("ref", "rawptr") and rv.get("mut") and _place_hits(fn, rv["p"], adt, field):
                    hit = True
                    break
        if hit:
            out.add(fn.path)
    r = sorted(out)
    _fw_cache[key] = r
    return r


def _place_hits(fn, place, adt, field):
    if isinstance(place, int):
        return False
    for ty, name in place_field_steps(fn, place):
        if name == field and _ty_is_adt(ty, adt):
            return True
    return False


def check_sites(res, prog, closure, sites, table, prop, derive_groups=True):
    """Discharge every site automatically or by table; record violations."""
    entries = table.get("entries", [])
    by_key = {}
    for e in entries:
        by_key.setdefault((e["fn"], e["kind"], e.get("sig", "*")), []).append(e)
    table_fns = {e["fn"] for e in entries}
    present = set(closure.keys())
    # entries of functions that vanished from the closure (renamed / moved): pool for unknown functions
    orphan_pool = {}
    for e in entries:
        if e["fn"] not in present:
            orphan_pool.setdefault((e["kind"], e.get("sig", "*")), []).append(dict(e, _left=e.get("max", 1)))
    n_auto = n_table = n_derive = n_orphan = 0
    guard_cache = {}
    for s in sites:
        reason = auto_discharge(s)
        if reason:
            n_auto += 1
            res.ok(s.key(), "R-PANIC/auto", reason)
            continue
        fexp = s.fn.b.get("impl_expn") or s.fn.b.get("expn") or ""
        if derive_groups and ("Derive:" in fexp):
            grp = _derive_group(fexp)
            ent = None
            for e in table.get("derive_groups", []):
                if e["derive"] == grp and e["kind"] == s.kind and (e.get("sig", "*") in ("*", s.sig)):
                    ent = e
                    break
            if ent is not None:
                n_derive += 1
                res.ok(s.key(), "R-PANIC/derive-group", ent["reason"])
                continue
        cands = by_key.get((s.fn.path, s.kind, s.sig), []) + by_key.get((s.fn.path, s.kind, "*"), [])
        ent = None
        for e in cands:
            if s.ordinal < e.get("max", 1):
                ent = e
                break
        how = "R-PANIC/table"
        if ent is None and s.fn.path not in table_fns:
            pool = orphan_pool.get((s.kind, s.sig), []) + orphan_pool.get((s.kind, "*"), [])
            for e in pool:
                if e["_left"] > 0:
                    e["_left"] -= 1
                    ent = e
                    how = "R-PANIC/table(moved from %s)" % short_path(e["fn"])
                    n_orphan += 1
                    break
        if ent is not None:
            g = ent.get("guard")
            if g:
                ok, msg = verify_guard(prog, s, g)
                if not ok:
                    res.violation(s.key(), "guard of reviewed panic site no longer holds: %s — %s(%s); reviewed reason was: %s" % (
                        msg, s.kind, s.detail, ent["reason"]), where=s.where(), rule="R-PANIC/guard")
                    continue
                n_table += 1
                res.ok(s.key(), how + "+guard", ent["reason"] + " [" + msg + "]")
            else:
                n_table += 1
                res.ok(s.key(), how, ent["reason"])
            continue
        chain = prog.call_path(closure, s.fn.path)
        res.violation(s.key(), "undischarged panic site %s(%s) [%s]; call path: %s" % (
            s.kind, s.detail, s.sig, " -> ".join(short_path(c) for c in chain[-5:])), where=s.where(), rule="R-PANIC")
    res.count("sites_total", len(sites))
    res.count("sites_auto_discharged", n_auto)
    res.count("sites_table_discharged", n_table)
    res.count("sites_derive_group_discharged", n_derive)
    res.count("sites_matched_after_move", n_orphan)
    return n_auto, n_table, n_derive


def _derive_group(expn):
    m = re.findall(r"Derive:(\w+)", expn)
    return m[-1] if m else "?"


def run_panic_property(prop, tier, crates, entry_rx, table_name, floors, anchors=(), configs=("default",),
                       explanation="", assumptions=(), stop_rx=None, extra=None, entry_filter=None):
    """Generic R-PANIC runner used by the never-panics properties."""
    from .program import Program
    from .report import Result, finish
    res = Result(prop, tier, level="other")
    table = load_table(table_name)
    for config in configs:
        P = Program(crates=list(crates), config=config)
        rx = re.compile(entry_rx)
        entries = [f for f in P.fns.values() if rx.search(f.path) and (entry_filter is None or entry_filter(f))]
        stop = (lambda g: re.search(stop_rx, g.path) is not None) if stop_rx else None
        closure, sites, skipped = census(P, entries, stop=stop)
        tag = "" if len(configs) == 1 else "[%s]" % config
        res.count("entries" + tag, len(entries))
        res.count("closure_functions" + tag, len(closure))
        res.count("panic_sites" + tag, len(sites))
        for k, v in skipped.items():
            res.count("skipped_%s%s" % (k, tag), v)
        res.floor("entry points" + tag, len(entries), floors.get("entries", 1))
        res.floor("closure functions" + tag, len(closure), floors.get("closure", 1))
        res.floor("panic sites" + tag, len(sites), floors.get("sites", 1))
        for need in anchors:
            if not any(re.search(need, p) for p in closure):
                res.violation("anchor:" + need, "anchored function %s not found in the analysed closure" % need, rule="anchor")
        for p, (fn, _) in closure.items():
            if fn.b.get("unsafe"):
                res.violation("unsafe:" + p, "unsafe fn in the analysed closure; the panic census does not cover UB", rule="R-PANIC/unsafe")
        check_sites(res, P, closure, sites, table, prop)
        for s in sites[:8]:
            res.sample({"config": config, "site": s.key(), "where": s.where(), "operands": s.detail})
        if extra:
            extra(res, P, closure, sites)
    res.assumptions += ["dev-profile panic semantics (overflow checks on), as in the pinned test suite",
                        "std / third-party APIs not on the panicking list are total (list in pv/panic.py)"] + list(assumptions)
    return finish(res, explanation=explanation,
                  rule_text="R-PANIC: every MIR Assert{BoundsCheck,Overflow,DivisionByZero,RemainderByZero,OverflowNeg} and every call to a "
                            "panicking API in closure(entry points) must be discharged by a CFG-verified dominating guard (kill-checked "
                            "comparison facts, bounded masks/remainders) or by a reviewed table entry whose checked guard spec still holds; "
                            "an undischarged site is reported with file:line, function and call path",
                  trusted_base=["rustc MIR (nightly, opt-level 0, overflow checks on)", "tables/%s (reviewed reasons)" % table_name,
                                "panicking-API list in pv/panic.py"])
