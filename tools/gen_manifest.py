#!/usr/bin/env python3
"""Regenerate MANIFEST.json from tools/claims.json (claimed checks) — every property not claimed goes to not_applicable."""
import json, os
HERE = os.path.dirname(os.path.dirname(os.path.abspath(__file__)))
props = [json.loads(l)["id"] for l in open(os.path.join(HERE, "properties.jsonl"))]
claims = json.load(open(os.path.join(HERE, "tools", "claims.json")))
# one file per later-built property: tools/claims.d/Cnn.json = {"engine","level","technique","text","note"}
cd = os.path.join(HERE, "tools", "claims.d")
if os.path.isdir(cd):
    for f in sorted(os.listdir(cd)):
        if f.endswith(".json"):
            claims["claimed"][f[:-5]] = json.load(open(os.path.join(cd, f)))
checks = []
na = []
for p in props:
    c = claims["claimed"].get(p)
    if c and os.path.exists(os.path.join(HERE, "rules", p + ".py")):
        checks.append({
            "property_id": p,
            "quick_cmd": "./check %s --tier quick" % p,
            "thorough_cmd": "./check %s --tier thorough" % p,
            "evidence_file": "/verif/evidence/%s.json" % p,
            "replay_cmd_template": "cat {path}",
            "engine": c["engine"],
            "level_claimed": {"category": c.get("level", "other"), "text": c["text"], "design_ref": "DESIGN.md §5/" + p},
            "level_note": c["note"],
            "technique": c["technique"],
        })
    else:
        na.append({"property_id": p, "reason": claims["not_applicable"].get(p, "a structural clause is designed in DESIGN.md §5 but its rule is not built; no check is claimed and no verdict is given for this property")})
m = {
    "version": 1,
    "setup_cmd": "./setup.sh",
    "hooks": {"guard": "pallas_verif", "enable": "none needed: static analysis; nothing in /repo is instrumented or executed",
              "baseline_off_cmd": "cd /repo && cargo test --workspace --no-fail-fast --offline", "source_commits": [], "add_only": True},
    "engines": claims["engines"],
    "checks": checks,
    "notes": claims.get("notes", ""),
    "not_applicable": na,
}
json.dump(m, open(os.path.join(HERE, "MANIFEST.json"), "w"), indent=1)
print("claimed", len(checks), "not_applicable", len(na))
