"""C07 — PlutusData round-trips through CBOR and its comparison is a total order that ignores definite/indefinite encodings.

Decides, on tables extracted from the MIR of pallas-primitives/src/plutus_data.rs (nothing is executed):

(a) ORDER.  `<PlutusData|BigInt|Constr|BoundedBytes as Ord>::cmp` are read as decision tables (pv.x_plutus.analyse_cmp): guards are
    the operands' discriminants / one-sided flags, results are Ordering constants or lexicographic chains of comparisons
    `cmp(T[a], T[b])`.  Checked exhaustively on the enumerated table:
      - every comparison uses the *same key term* T on both operands (else cmp(a,a) != Equal / no antisymmetry);
      - cmp(b,a) is the mirror image of cmp(a,b) in every cell; cells with identical guards never answer Less/Greater outright;
      - PlutusData: different variants are ranked by constants forming a transitive tournament (acyclic rank), the diagonal
        delegates to a comparison of the two payloads, operands in (self, other) order;
      - Constr: constructor index (constr_index / tag) first, then the fields, both in (self, other) order;
      - BigInt: the sign flag is the one whose table is BigUInt -> false, BigNInt -> true; negative < non-negative,
        equal signs compare magnitudes (reversed for two negatives);
      - def/indef: no comparison key exposes an *encoding wrapper* (a codec enum whose variants all carry the same payload type,
        i.e. MaybeIndefArray / KeyValuePairs) except through a projection that returns the payload for every variant, or through
        a comparison that is itself blind to the variant;
      - PartialEq::eq and PartialOrd::partial_cmp of the four types are defined from cmp (or derive the same key).
(b) CODEC TABLES, evaluated with pv.finite over the tag domain 0..1500 + large values:
      - the tags on which constr_index is defined = the tags Constr::decode accepts = the tags PlutusData::decode routes to Constr
        = the Plutus tag ranges (spec/plutus_data.json); constr_index is the spec's inverse arithmetic on both compact ranges and
        the stored any_constructor on the general tag; the general [index, fields] form is written and read for the same tags;
      - bignum tags: PlutusData::decode routes {2,3} to BigInt, BigInt::decode builds BigUInt/BigNInt from the tag its encoder writes;
      - head types: every head a payload encoder can emit is routed to the matching variant (both Bytes and BytesIndef -> BoundedBytes,
        Array/ArrayIndef, Map/MapIndef, the nine integer heads);
      - BoundedBytes::encode: one definite string iff len <= 64, else begin_bytes, chunks of 64 written in iteration order, end;
        decoders append the bytes_iter items to the buffer they return.
Not decided: magnitude comparison inside BigInt (value level), chunk contents, the element codecs (shape interpreter, C06)."""
import json
import os
import re

from pv.program import Program
from pv.report import Result, finish
from pv.tabulate import tabulate, variant_names, strip_adt
from pv.mir import sym_str, sym_walk
from pv.facts import VERIF
from pv import finite, flow
from pv import x_plutus as X
from pv.x_plutus import strip_generics

PD = "pallas_primitives::plutus_data::"
TYPES = ["PlutusData", "BigInt", "Constr", "BoundedBytes"]


def ty_rx(t):
    return re.escape(PD + t) + r"(<[^>]*>)? as "


def one_impl(P, t, trait, method):
    return P.one(r"^<" + ty_rx(t) + re.escape(trait) + r"(<[^>]*>)?>::" + method + r"$")


# ------------------------------------------------------------------------------------------------ encoding wrappers

def encoding_wrappers(P):
    """Enums of pallas_codec whose variants all carry exactly one field of one and the same type: the variant only records how the
    value was encoded (definite / indefinite).  Today: MaybeIndefArray, KeyValuePairs, NonEmptyKeyValuePairs."""
    out = {}
    for a in P.adts("pallas_codec"):
        vs = a.get("variants", [])
        if a.get("kind") != "Enum":
            continue
        if len(vs) >= 2 and all(len(v["fields"]) == 1 for v in vs) and len({v["fields"][0]["ty"] for v in vs}) == 1:
            out[a["path"]] = a
    return out


def field_type(P, owner_adt, variant, name):
    a = P.adt(owner_adt)
    if a is None:
        return None
    for v in a["variants"]:
        if variant is not None and v["name"] != variant:
            continue
        for i, f in enumerate(v["fields"]):
            if str(f["name"]) == str(name) or str(i) == str(name):
                return f["ty"]
    return None


def is_projection(P, g, wrappers):
    """g(&wrapper) returns a reference to the payload for every variant."""
    if g is None:
        return False
    rets = X.per_variant_returns(P, g)
    if not rets or "*" in rets:
        return False
    for v, rs in rets.items():
        for r in rs:
            s = X.strip(r)
            if not (s[0] == "field" and X.strip(s[1])[0] == "downcast" and X.strip(s[1])[2] == v and X.roots(s) == {1}):
                return False
    return True


def exposed_wrappers(P, key, owner, wrappers, blind_cache):
    """Wrapper-typed places of the key term that reach the comparison without a payload projection.
    `owner` = (adt path, variant or None) of the operand X."""
    out = []

    def walk(s, projected):
        if not isinstance(s, tuple) or not s:
            return
        if s[0] == "call":
            g = P.fns.get(s[1])
            proj = projected
            if g is not None and len(s[2]) == 1:
                key_ = g.path
                if key_ not in blind_cache:
                    blind_cache[key_] = is_projection(P, g, wrappers)
                proj = projected or blind_cache[key_]
            for a in s[2]:
                walk(a, proj)
            return
        if s[0] == "field":
            base = X.strip(s[1])
            ty = None
            if base[0] == "downcast" and X.strip(base[1]) == ("X",):
                ty = field_type(P, owner[0], base[2], s[2])
            elif base == ("X",):
                ty = field_type(P, owner[0], owner[1], s[2])
            if ty is not None and strip_adt(ty) in wrappers and not projected:
                out.append((strip_adt(ty), sym_str(X._unX(s), 80)))
        for x in s[1:]:
            if isinstance(x, tuple):
                walk(x, projected)
    walk(key, False)
    return out


def cmp_is_variant_blind(P, g):
    """A workspace Ord impl whose table has no constant Less/Greater and no discriminant-valued key: it compares contents only."""
    t = X.analyse_cmp(P, g)
    if t.problems:
        return False
    for ch in t.cells.values():
        if ch is None:
            return False
        for e in ch:
            if e[0] == "const" and e[1] != "Equal":
                return False
            if e[0] != "const" and any(sub[0] == "discr" for sub in sym_walk(e[3])):
                return False
    return True


def impl_self_adt(callee):
    """`X<..> as core::cmp::Ord::cmp` -> X (generics stripped)."""
    m = re.match(r"^(.*) as core::cmp::(Ord|PartialOrd|PartialEq)::\w+$", callee)
    return m.group(1) if m else None


# ------------------------------------------------------------------------------------------------ (a) order

def order_clauses(P, res):
    wrappers = encoding_wrappers(P)
    res.count("encoding wrapper enums", len(wrappers))
    res.floor("encoding wrapper enums", len(wrappers), 2)
    blind_cache = {}
    tables = {}
    by_name = {}
    for h in P.fns.values():
        by_name.setdefault(strip_generics(h.path), h)
    own = {strip_generics(one_impl(P, t, "core::cmp::Ord", "cmp").path) for t in TYPES}
    helpers_done = set()

    def report(prefix, f, problems, rule="R-TABLE"):
        for k, m in problems:
            res.violation("%s:%s" % (prefix, k), m, where=X.where(f), rule=rule)
        return not problems

    def check_keys(prefix, f, tab, owner_adt):
        """symmetry/antisymmetry/reflexivity laws + wrapper exposure + operand order of every comparison in the table."""
        laws = tab.check_laws()
        if report(prefix, f, laws):
            res.ok(prefix + ":laws", "R-TABLE", "%d cells: same key on both operands, mirrored cells agree, diagonal never constant Less/Greater" % len(tab.cells))
        n = 0
        for (vl, vr), ch in sorted(tab.cells.items(), key=repr):
            if ch is None:
                continue
            for e in ch:
                if e[0] != "cmp" or e[1] is None:
                    continue
                n += 1
                variant = None
                if tab.keys and tab.keys[0][0] == "discr" and len(tab.keys) == 1:
                    variant = dict(variant_names(P, tab.keys[0][2]) or []).get(vl[0])
                exp = exposed_wrappers(P, e[3], (owner_adt, variant), wrappers, blind_cache)
                sa = impl_self_adt(e[2])
                h = by_name.get(e[2])
                if h is not None and e[2] not in own and sa not in wrappers and e[2] not in helpers_done and h.kind != "Closure":
                    # a workspace comparison the table delegates to (helper function / another type's Ord): same laws, one level
                    helpers_done.add(e[2])
                    ht = X.analyse_cmp(P, h)
                    hl = ht.check_laws()
                    for k_, m_ in hl:
                        res.violation("%s:via:%s:%s" % (prefix, e[2].split("::")[-1], k_), "%s (in %s, used by %s)" % (m_, e[2], prefix), where=X.where(h), rule="R-TABLE")
                    if not hl:
                        res.ok("%s:via:%s" % (prefix, e[2]), "R-TABLE", "delegate comparison obeys the table laws (%d cells)" % len(ht.cells))
                if sa in wrappers:
                    g = next((h for h in P.fns.values() if strip_generics(h.path) == e[2]), None)
                    if g is None or not cmp_is_variant_blind(P, g):
                        exp.append((sa, "compared with %s" % e[2]))
                    else:
                        exp = [x for x in exp if x[0] != sa]
                cell = "%s|%s" % (tab.label(vl), tab.label(vr))
                if exp:
                    res.violation("%s:encoding:%s" % (prefix, cell),
                                  "comparison of (%s) looks at the encoding wrapper %s (%s): values that differ only in definite/indefinite encoding "
                                  "would not be equal" % (cell, exp[0][0].split("::")[-1], exp[0][1]), where=X.where(f), rule="R-PROV")
                else:
                    res.ok("%s:encoding:%s:%d" % (prefix, cell, n), "R-PROV", "key %s does not expose an encoding wrapper" % sym_str(X._unX(e[3]), 80))
        return n

    # --- PlutusData
    f = one_impl(P, "PlutusData", "core::cmp::Ord", "cmp")
    tab = X.analyse_cmp(P, f)
    tables["PlutusData"] = tab
    res.count("PlutusData::cmp cells", len(tab.cells))
    res.floor("PlutusData::cmp cells", len(tab.cells), 25)
    ncmp = check_keys("PlutusData::cmp", f, tab, PD + "PlutusData")
    if len(tab.keys) == 1 and tab.keys[0][0] == "discr":
        order, bad = X.rank_transitive(tab)
        if report("PlutusData::cmp", f, bad):
            res.ok("PlutusData::cmp:rank", "R-TABLE", "variant rank is a transitive tournament: %s" % " < ".join(tab.label((i,)) for i in order))
            res.sample({"PlutusData rank": [tab.label((i,)) for i in order]})
        for i in tab.dom[tab.keys[0]]:
            ch = tab.cells.get(((i,), (i,)))
            name = tab.label((i,))
            if ch is None:
                continue
            cm = [e for e in ch if e[0] == "cmp"]
            if not cm:
                res.violation("PlutusData::cmp:diagonal:%s" % name, "two %s values are compared without looking at their payloads (%s)" % (name, tab.cell_str(ch)),
                              where=X.where(f), rule="R-TABLE")
                continue
            swapped = [e for e in cm if e[1] == -1]
            if swapped:
                res.violation("PlutusData::cmp:operands:%s" % name, "the payload comparison of two %s values takes its operands as (other, self): %s — the order of this "
                              "variant is reversed" % (name, tab.cell_str(ch)), where=X.where(f), rule="R-ORDER")
            else:
                res.ok("PlutusData::cmp:diagonal:%s" % name, "R-TABLE", tab.cell_str(ch))
    else:
        res.violation("PlutusData::cmp:shape", "the comparison is not a table over the two operands' variants (guards: %s)" % [k[0] for k in tab.keys],
                      where=X.where(f), rule="R-TABLE")
    res.floor("PlutusData::cmp payload comparisons", ncmp, 3)

    # --- Constr
    f = one_impl(P, "Constr", "core::cmp::Ord", "cmp")
    tab = X.analyse_cmp(P, f)
    tables["Constr"] = tab
    check_keys("Constr::cmp", f, tab, PD + "Constr")
    for (vl, vr), ch in tab.cells.items():
        if ch is None:
            continue
        cm = [e for e in ch if e[0] == "cmp" and e[1] is not None]
        idx = [i for i, e in enumerate(cm) if (X.mentions_call(e[3], r"::constr_index$") or X.mentions_field(e[3], "tag")) and not X.mentions_field(e[3], "fields")]
        fld = [i for i, e in enumerate(cm) if X.mentions_field(e[3], "fields")]
        if not idx or not fld:
            res.violation("Constr::cmp:keys", "Constr comparison must look at the constructor index and at the fields; found %s" % tab.cell_str(ch), where=X.where(f), rule="R-ORDER")
        elif min(fld) < max(idx):
            res.violation("Constr::cmp:sequence", "fields are compared before the constructor index (%s)" % tab.cell_str(ch), where=X.where(f), rule="R-ORDER")
        elif any(e[1] == -1 for e in cm):
            res.violation("Constr::cmp:operands", "a comparison takes its operands as (other, self): %s" % tab.cell_str(ch), where=X.where(f), rule="R-ORDER")
        else:
            res.ok("Constr::cmp:sequence", "R-ORDER", tab.cell_str(ch))
            res.sample({"Constr::cmp": tab.cell_str(ch)})

    # --- BoundedBytes
    f = one_impl(P, "BoundedBytes", "core::cmp::Ord", "cmp")
    tab = X.analyse_cmp(P, f)
    tables["BoundedBytes"] = tab
    check_keys("BoundedBytes::cmp", f, tab, PD + "BoundedBytes")
    for ch in tab.cells.values():
        if ch is not None and any(e[0] == "cmp" and e[1] == -1 for e in ch):
            res.violation("BoundedBytes::cmp:operands", "operands compared as (other, self): %s" % tab.cell_str(ch), where=X.where(f), rule="R-ORDER")

    # --- BigInt
    f = one_impl(P, "BigInt", "core::cmp::Ord", "cmp")
    tab = X.analyse_cmp(P, f)
    tables["BigInt"] = tab
    res.count("BigInt::cmp cells", len(tab.cells))
    check_keys("BigInt::cmp", f, tab, PD + "BigInt")
    bigint_sign(P, res, f, tab)

    # --- eq / partial_cmp defined from cmp
    for t in TYPES:
        derived_from_cmp(P, res, t, tables[t])
    return tables


def flag_table(P, key, depth=3):
    """variant -> constant value of a one-sided flag `key` (a term over X): the flag is (a component of) the result of a workspace
    function of X that dispatches on X's variant, possibly through further one-argument helpers."""
    s = X.strip(key)
    comp = None
    if s[0] == "field" and X.strip(s[1])[0] == "call":
        comp, s = s[2], X.strip(s[1])
    if s[0] != "call" or len(s[2]) != 1 or X.strip(s[2][0]) != ("X",):
        return None
    g = P.fns.get(s[1])
    if g is None:
        return None
    out = {}
    for v, rets in X.per_variant_returns(P, g).items():
        vals = {}
        for r in rets:
            r = X.strip(r)
            if comp is not None:
                idx = int(comp) if str(comp).isdigit() else None
                if idx is None and r[0] == "agg" and isinstance(r[1], str):
                    a_ = P.adt(strip_adt(r[1]))        # struct result: field name -> position
                    if a_ is not None:
                        nm = [fl["name"] for fl in a_["variants"][0]["fields"]]
                        idx = nm.index(str(comp)) if str(comp) in nm else None
                if r[0] == "agg" and r[3] is not None and idx is not None and idx < len(r[3]):
                    r = X.strip(r[3][idx])
                else:
                    r = ("field", r, comp)
            if r[0] == "const":
                vals.setdefault(v, set()).add(int(r[1]))
            elif depth > 0 and X.roots(r) == {1}:
                sub = flag_table(P, X.canon(r, 1), depth - 1)
                if sub is None:
                    vals.setdefault(v, set()).add(None)
                elif v == "*":
                    for k2, x in sub.items():
                        vals.setdefault(k2, set()).add(x)
                else:
                    vals.setdefault(v, set()).add(sub.get(v, sub.get("*")))
            else:
                vals.setdefault(v, set()).add(None)
        for k2, xs in vals.items():
            out[k2] = xs.pop() if len(xs) == 1 else None
    return out


def bigint_sign(P, res, f, tab):
    sign = None
    for i, k in enumerate(tab.keys):
        if k[0] != "flag":
            continue
        ft = flag_table(P, k[1])
        if ft and ft.get("BigUInt") == 0 and ft.get("BigNInt") == 1:
            sign = i
            res.ok("BigInt::cmp:sign-flag", "R-TABLE", "sign flag %s: %s" % (sym_str(X._unX(k[1]), 60), ft))
            res.sample({"BigInt sign flag": ft})
    if sign is None:
        res.violation("BigInt::cmp:sign-flag", "no guard of the comparison is a sign flag with BigUInt -> false, BigNInt -> true (guards: %s)"
                      % [sym_str(X._unX(k[1]), 60) for k in tab.keys], where=X.where(f), rule="R-TABLE")
        return
    seen = {}
    for (vl, vr), ch in sorted(tab.cells.items()):
        if ch is None:
            continue
        sl, sr = vl[sign], vr[sign]
        cell = "%s|%s" % (tab.label(vl), tab.label(vr))
        if ch == [("const", "Equal")]:
            continue            # the zero rule (both magnitudes empty) — symmetric, already covered by the mirror law
        if sl != sr:
            want = "Less" if sl == 1 else "Greater"
            if ch != [("const", want)]:
                res.violation("BigInt::cmp:sign:%s" % cell, "self %s, other %s must compare as %s; found %s" %
                              ("negative" if sl else "non-negative", "negative" if sr else "non-negative", want, tab.cell_str(ch)), where=X.where(f), rule="R-TABLE")
            else:
                seen[(sl, sr)] = True
        else:
            want = -1 if sl == 1 else 1
            cm = [e for e in ch if e[0] == "cmp"]
            if not cm or any(e[1] != want for e in cm) or any(e[0] == "const" for e in ch):
                res.violation("BigInt::cmp:sign:%s" % cell, "two %s integers must compare by magnitude%s; found %s" %
                              ("negative" if sl else "non-negative", " reversed" if sl else "", tab.cell_str(ch)), where=X.where(f), rule="R-TABLE")
            else:
                seen[(sl, sr)] = True
    for want in ((1, 0), (0, 1), (0, 0), (1, 1)):
        if want in seen:
            res.ok("BigInt::cmp:sign:%d%d" % want, "R-TABLE", "sign dispatch cell present and correct")
        else:
            res.violation("BigInt::cmp:sign:%d%d" % want, "no cell of the table decides self-negative=%d / other-negative=%d" % want, where=X.where(f), rule="R-TABLE")


def ordering_consts_in_hir(f):
    from pv import hirwalk
    out = set()
    if f.hir is None:
        return out
    for n in hirwalk.walk(f.hir.get("root")):
        if n.get("k") in ("path", "call", "struct") and n.get("adt") == "core::cmp::Ordering" and n.get("variant"):
            out.add(n["variant"])
        if n.get("k") == "match" or n.get("k") == "let" or True:
            pass
    return out


def is_self_cmp(ctx, sym, own_cmp_path):
    ch = X.parse_ordering(ctx, sym)
    return ch is not None and len(ch) == 1 and ch[0][0] == "cmp" and ch[0][1] is not None and ch[0][4] and X.strip(ch[0][3]) == ("X",) \
        and strip_generics(own_cmp_path) == ch[0][2], ch


def derived_from_cmp(P, res, t, tab):
    own = one_impl(P, t, "core::cmp::Ord", "cmp")
    single = None
    if len(tab.cells) == 1:
        ch = list(tab.cells.values())[0]
        if ch is not None and len(ch) == 1 and ch[0][0] == "cmp" and ch[0][4]:
            single = ch[0]
    # ---- eq
    f = one_impl(P, t, "core::cmp::PartialEq", "eq")
    ctx = X.CmpCtx(P, f)
    paths = [p for p in tabulate(f, P, 256) if p.end == "return"]
    ok, why = False, "unrecognised"
    if len(paths) == 1 and not paths[0].conds:
        r = X.strip(paths[0].ret)
        if r[0] == "call":
            n = strip_generics(r[1])
            a = r[2]
            if n.endswith("core::cmp::Ordering as core::cmp::PartialEq::eq") and len(a) == 2:
                for x, y in ((a[0], a[1]), (a[1], a[0])):
                    sc, _ = is_self_cmp(ctx, x, own.path)
                    if not sc:
                        continue
                    c = X.ordering_const(y)
                    if c is None and X.strip(y)[0] == "constsym":
                        hs = ordering_consts_in_hir(f)       # the promoted constant: resolved constructor paths of the body
                        c = "Equal" if hs == {"Equal"} else ",".join(sorted(hs)) or None
                    ok, why = (c == "Equal"), "cmp(self, other) == %s" % c
            elif n.endswith("core::cmp::Ordering::is_eq") and a:
                ok, why = is_self_cmp(ctx, a[0], own.path)[0], "cmp(self, other).is_eq()"
            elif X.IS_EQ.search(r[1]) and r[1].endswith("::eq") and len(a) == 2 and single is not None:
                k = X.mk_cmp(ctx, n, a[0], a[1], kind="eq")
                ok, why = (k[1] is not None and k[4] and k[3] == single[3]), "derived: eq on the key cmp uses (%s)" % sym_str(X._unX(k[3]), 60)
    elif paths and all(len(p.conds) >= 1 for p in paths):
        # matches!(self.cmp(other), Ordering::Equal) and friends: result true exactly on the Equal outcome
        good = True
        for p in paths:
            allowed = None
            for d, c in [(x[0], x[1]) for x in p.conds]:
                if d[0] == "discr" and is_self_cmp(ctx, d[1], own.path)[0]:
                    a_ = X._ord_allowed(c)
                    allowed = a_ if allowed is None else allowed & a_
                else:
                    good = False
            r = X.strip(p.ret)
            if allowed is None or r[0] != "const":
                good = False
            elif bool(int(r[1])) != (allowed == {"Equal"}) or ("Equal" in allowed and allowed != {"Equal"}):
                good = False
        ok, why = good, "true exactly when cmp(self, other) is Equal"
    if ok:
        res.ok("%s::eq" % t, "R-PROV", why)
    else:
        res.violation("%s::eq" % t, "PartialEq::eq of %s is neither `cmp(self, other) == Equal` (in any spelling) nor a derive on the very key cmp compares: "
                      "equality can disagree with the order (and would not ignore definite/indefinite encodings)" % t, where=X.where(f), rule="R-PROV")
    # ---- partial_cmp
    f = one_impl(P, t, "core::cmp::PartialOrd", "partial_cmp")
    ctx = X.CmpCtx(P, f)
    paths = [p for p in tabulate(f, P, 256) if p.end == "return"]
    ok, why = False, "unrecognised"
    if len(paths) == 1 and not paths[0].conds:
        r = X.strip(paths[0].ret)
        if r[0] == "agg" and isinstance(r[1], str) and strip_adt(r[1]) == "core::option::Option" and r[2] == "Some" and r[3]:
            sc, ch = is_self_cmp(ctx, r[3][0], own.path)
            ok, why = (sc and ch[0][1] == 1), "Some(cmp(self, other))"
        elif r[0] == "call" and X.IS_PARTIAL_CMP.search(r[1]) and len(r[2]) == 2 and single is not None:
            k = X.mk_cmp(ctx, strip_generics(r[1]), r[2][0], r[2][1])
            ok, why = (k[1] == single[1] and k[4] and k[3] == single[3]), "derived: partial_cmp on the key cmp uses"
    if ok:
        res.ok("%s::partial_cmp" % t, "R-PROV", why)
    else:
        res.violation("%s::partial_cmp" % t, "PartialOrd::partial_cmp of %s is not Some(cmp(self, other)) (nor a derive on the key cmp compares): <, <=, >, >= can disagree with cmp" % t,
                      where=X.where(f), rule="R-PROV")


# ------------------------------------------------------------------------------------------------ (b) codec tables

TAG_DOMAIN = list(range(0, 1501)) + [1 << 16, (1 << 16) + 121, 1 << 32, (1 << 64) - 1]


@X.memo_pred
def decoder_tag_subject(s):
    """The tag read from the decoder: a term built only from the result of Decoder::tag / Probe (through `?`/unwrap)."""
    cs = [sub for sub in sym_walk(s) if sub[0] == "call"]
    if not cs:
        return False
    names = [strip_generics(c[1]) for c in cs]
    if not any(re.search(r"minicbor::decode::decoder::(Decoder|Probe)::tag$", n) for n in names):
        return False
    return all(re.search(r"(Decoder|Probe)::(tag|probe)$|Try::branch$|Result::(unwrap|expect)$|DerefMut::deref_mut$|Deref::deref$", n) for n in names)


def unanalysable(res, prefix, f, uneval):
    """Fail closed when a condition on the table's subject (tag / length) is outside the finite fragment."""
    if uneval:
        res.__dict__.setdefault("undecidable", set()).add(prefix)
        res.violation("%s:unanalysable" % prefix, "a condition on the table's subject cannot be evaluated over the finite domain (%s): the table is not decidable "
                      "(accepted: comparisons, range patterns, masks, `(a..=b).contains(&x)`, minicbor Tag helpers)" % sorted(uneval)[0], where=X.where(f), rule="R-TABLE")


@X.memo_pred
def is_datatype(s):
    """The head type read from the decoder: built only from the result of Decoder::datatype (through `?`/unwrap)."""
    cs = [sub for sub in sym_walk(s) if sub[0] == "call"]
    names = [strip_generics(c[1]) for c in cs]
    if not any(re.search(r"minicbor::decode::decoder::(Decoder|Probe)::datatype$", n) for n in names):
        return False
    return all(re.search(r"(Decoder|Probe)::(datatype|probe)$|Try::branch$|Result::(unwrap|expect)$|DerefMut::deref_mut$|Deref::deref$", n) for n in names)


def codec_clauses(P, res, spec):
    iana = spec["iana_tags"]
    tix = spec["minicbor_type_index"]
    rcv = X.range_const_value(P)

    def mk_leaf(is_subject, t, rng, ecs, didx=None):
        return X.tag_leaf(is_subject, t, iana, rng, P, (is_datatype, didx) if didx is not None else None, ecs, tix)
    compact = spec["constr_compact"]
    general = spec["constr_general_tag"]
    spec_tags = {general}
    spec_index = {}
    for r in compact:
        for k, t in enumerate(range(r["first_tag"], r["last_tag"] + 1)):
            spec_tags.add(t)
            spec_index[t] = r["first_index"] + k

    def diff(a, b):
        d = sorted(a ^ b)
        return d[:6]

    # ---- constr_index
    f = P.one(r"^" + re.escape(PD) + r"Constr::<[^>]*>::constr_index$")
    is_tag_field = X.field_root(1, ["tag"])
    paths = tabulate(f, P, 1024)
    dom, bad_val, n = set(), [], 0
    rng, ecs, uneval = X.promoted_ranges(f, rcv), X.promoted_enum_consts(f, "minicbor::data::Type"), set()
    for t in TAG_DOMAIN:
        leaf = mk_leaf(is_tag_field, t, rng, ecs)
        rows = X.rows_for(paths, leaf, unevaluable=uneval, is_subject=is_tag_field)
        # defined on t = some path returns (a panic for a missing any_constructor on the general tag is a malformed value, not the tag)
        if any(p.end == "return" for p in rows):
            dom.add(t)
            n += 1
            for p in [q for q in rows if q.end == "return"]:
                if t == general:
                    src = X.strip(p.ret)
                    if not (X.roots(src) == {1} and X.mentions_field(src, "any_constructor") and not X.mentions_field(src, "tag")):
                        bad_val.append((t, sym_str(p.ret, 80)))
                else:
                    try:
                        v = finite.ev(p.ret, leaf, 64)
                    except finite.NotFinite:
                        v = None
                    if t in spec_index and v != spec_index[t]:
                        bad_val.append((t, v))
    res.count("constr_index tags defined", len(dom))
    unanalysable(res, "constr_index", f, uneval)
    if dom == spec_tags:
        res.ok("constr_index:domain", "R-TABLE", "defined exactly on 121..=127, 1280..=1400, 102")
    else:
        res.violation("constr_index:domain", "constr_index is defined on a different tag set than the Plutus encoding (differs at %s)" % diff(dom, spec_tags), where=X.where(f), rule="R-TABLE")
    if not bad_val:
        res.ok("constr_index:inverse", "R-DUAL", "tag 121+i -> i, tag 1280+k -> 7+k, tag 102 -> any_constructor (%d tags evaluated)" % n)
    else:
        res.violation("constr_index:inverse", "constr_index is not the inverse of the tag arithmetic: tag %s gives %s (expected %s)" %
                      (bad_val[0][0], bad_val[0][1], spec_index.get(bad_val[0][0], "the stored any_constructor")), where=X.where(f), rule="R-DUAL")

    # ---- Constr::decode
    f = one_impl(P, "Constr", "minicbor::decode::Decode", "decode")
    paths = [p for p in tabulate(f, P, 4096) if p.end == "return" and not X.is_error_propagation(p)]
    acc, general_read, prov_bad = set(), set(), []
    rng, ecs, uneval = X.promoted_ranges(f, rcv), X.promoted_enum_consts(f, "minicbor::data::Type"), set()
    for t in TAG_DOMAIN:
        leaf = mk_leaf(decoder_tag_subject, t, rng, ecs, tix["Tag"])
        for p in X.rows_for(paths, leaf, unevaluable=uneval, is_subject=decoder_tag_subject):
            rc = X.result_class(p.ret)
            if rc and rc[0] == "ok":
                acc.add(t)
                a = P.adt(PD + "Constr")
                names = [fl["name"] for fl in a["variants"][0]["fields"]]
                flds = dict(zip(names, rc[3]))
                tagv = flds.get("tag")
                try:
                    if tagv is None or finite.ev(tagv, leaf, 64) != t:
                        prov_bad.append(t)
                except finite.NotFinite:
                    prov_bad.append(t)
                ac = X.strip(flds.get("any_constructor", ("?",)))
                if ac[0] == "agg" and ac[2] == "Some":
                    general_read.add(t)
    res.count("Constr::decode tags accepted", len(acc))
    unanalysable(res, "Constr::decode", f, uneval)
    if acc == spec_tags:
        res.ok("Constr::decode:tags", "R-TABLE", "accepts exactly 121..=127, 1280..=1400, 102")
    else:
        res.violation("Constr::decode:tags", "Constr::decode accepts a different tag set than constr_index/the Plutus encoding (differs at %s)" % diff(acc, spec_tags),
                      where=X.where(f), rule="R-DUAL")
    if prov_bad:
        res.violation("Constr::decode:tag-field", "the decoded Constr does not store the tag that was read (e.g. tag %d)" % prov_bad[0], where=X.where(f), rule="R-PROV")
    else:
        res.ok("Constr::decode:tag-field", "R-PROV", "Constr.tag is the tag read")
    if general_read == ({general} & acc):
        res.ok("Constr::decode:general-form", "R-DUAL", "any_constructor is read exactly for tag 102")
    else:
        res.violation("Constr::decode:general-form", "the [index, fields] form is read for tags %s, expected exactly {102}" % sorted(general_read)[:6], where=X.where(f), rule="R-DUAL")

    # ---- Constr::encode
    f = one_impl(P, "Constr", "minicbor::encode::Encode", "encode")
    paths = [p for p in tabulate(f, P, 1024) if p.end == "return" and not X.is_error_propagation(p)]
    is_enc = lambda s: X.strip(s) == ("param", 2, "e") or (X.strip(s)[0] == "param" and X.strip(s)[1] == 2)
    general_written, tag_bad = set(), []
    rng, ecs, uneval = X.promoted_ranges(f, rcv), X.promoted_enum_consts(f, "minicbor::data::Type"), set()
    for t in sorted(spec_tags):
        leaf = mk_leaf(is_tag_field, t, rng, ecs)
        for p in X.rows_for(paths, leaf, unevaluable=uneval, is_subject=is_tag_field):
            em = X.emissions(p, is_enc)
            tags = [e for e in em if e[0].endswith("Encoder::tag")]
            if len(tags) != 1 or em.index(tags[0]) != 0:
                tag_bad.append((t, "tag is not the first and only tag written"))
                continue
            try:
                if finite.ev(tags[0][1][1], leaf, 64) != t:
                    tag_bad.append((t, "writes another tag"))
            except finite.NotFinite:
                tag_bad.append((t, "tag written is not self.tag"))
            rest = em[1:]
            mentions_ac = any(X.mentions_field(a, "any_constructor") for e in rest for a in e[1][1:])
            mentions_f = any(X.mentions_field(a, "fields") for e in rest for a in e[1][1:])
            if not mentions_f:
                tag_bad.append((t, "fields are not written"))
            if mentions_ac:
                general_written.add(t)
    unanalysable(res, "Constr::encode", f, uneval)
    if tag_bad:
        res.violation("Constr::encode:tag", "Constr::encode for tag %s: %s" % tag_bad[0], where=X.where(f), rule="R-DUAL")
    else:
        res.ok("Constr::encode:tag", "R-DUAL", "writes self.tag first, then the fields, for all %d valid tags" % len(spec_tags))
    if general_written == {general}:
        res.ok("Constr::encode:general-form", "R-DUAL", "the constructor index is written exactly for tag 102")
    else:
        res.violation("Constr::encode:general-form", "the constructor index is written for tags %s, the decoder reads it exactly for {102}" % sorted(general_written)[:6],
                      where=X.where(f), rule="R-DUAL")

    # ---- PlutusData::decode: head table and tag routing
    f = one_impl(P, "PlutusData", "minicbor::decode::Decode", "decode")
    paths = [p for p in tabulate(f, P, 8192) if not X.is_error_propagation(p)]
    rng, ecs, uneval = X.promoted_ranges(f, rcv), X.promoted_enum_consts(f, "minicbor::data::Type"), set()

    def datatype_cond(cond, want):
        d, c = cond[0], cond[1]
        if d[0] == "discr" and is_datatype(X.strip(d[1])) and strip_adt((d[2] if len(d) > 2 else "") or "") == "minicbor::data::Type":
            return (int(c[1]) == want) if c[0] == "eq" else (want not in [int(v) for v in c[1]])
        return None

    hp_cache = {}
    hc_cache = {}

    def helper_consts(h):
        if h.path not in hc_cache:
            hc_cache[h.path] = (X.promoted_ranges(h, rcv), X.promoted_enum_consts(h, "minicbor::data::Type"))
        return hc_cache[h.path]

    def outcome(rows, mk=None, depth=2):
        """variants a set of rows can produce; a row that returns the result of a workspace helper (`Self::decode_tagged(d, ctx)`)
        is replaced by that helper's rows under the same valuation (mk(helper) builds the leaf for the helper)."""
        out = set()
        for p in rows:
            if p.end == "return" and X.result_class(p.ret) is None and mk is not None and depth > 0:
                r_ = X.strip(p.ret)
                h = P.fns.get(r_[1]) if r_[0] == "call" else None
                if h is not None and h.kind != "Closure":
                    if h.path not in hp_cache:
                        hp_cache[h.path] = [q for q in tabulate(h, P, 4096) if not X.is_error_propagation(q)]
                    out |= outcome(X.rows_for(hp_cache[h.path], mk(h), unevaluable=uneval, is_subject=decoder_tag_subject), mk, depth - 1)
                    continue
            if p.end == "loop":
                # a decoding loop (chunk iteration) inside an arm: its continuation decides the outcome
                continue
            if p.end != "return":
                out.add("diverge")
                continue
            rc = X.result_class(p.ret)
            if rc is None:
                out.add("?")
            elif rc[0] == "err":
                out.add("Err")
            else:
                out.add(rc[2] if rc[1] == PD + "PlutusData" else "?")
        return out
    heads = spec["plutus_data_heads"]
    nh = 0
    for name, idx in sorted(tix.items(), key=lambda kv: kv[1]):
        if name in ("Tag", "Unknown"):
            continue
        rows = X.rows_for(paths, mk_leaf(lambda s_: False, 0, rng, ecs, idx), extra=lambda cond: datatype_cond(cond, idx))
        got = outcome(rows, lambda h, idx=idx: mk_leaf(lambda s_: False, 0, helper_consts(h)[0], helper_consts(h)[1], idx))
        want = {heads[name]} if name in heads else {"Err"}
        nh += 1
        if got == want:
            res.ok("PlutusData::decode:head:%s" % name, "R-DUAL", "head %s -> %s" % (name, sorted(got)))
        else:
            res.violation("PlutusData::decode:head:%s" % name, "a CBOR item with head type %s is decoded to %s, expected %s%s" %
                          (name, sorted(got), sorted(want), " (the encoder of that payload can emit this head: such values would not round-trip)" if name in heads else ""),
                          where=X.where(f), rule="R-DUAL")
    res.floor("PlutusData::decode heads", nh, 20)
    to_constr, to_bigint = set(), set()
    for t in TAG_DOMAIN:
        leaf = mk_leaf(decoder_tag_subject, t, rng, ecs, tix["Tag"])
        rows = X.rows_for(paths, leaf, extra=lambda cond: datatype_cond(cond, tix["Tag"]), unevaluable=uneval, is_subject=decoder_tag_subject)
        got = outcome(rows, lambda h, t=t: mk_leaf(decoder_tag_subject, t, helper_consts(h)[0], helper_consts(h)[1], tix["Tag"]))
        if got == {"Constr"}:
            to_constr.add(t)
        elif got == {"BigInt"}:
            to_bigint.add(t)
        elif got != {"Err"}:
            res.violation("PlutusData::decode:tag:%d" % t, "tag %d is decoded to %s" % (t, sorted(got)), where=X.where(f), rule="R-TABLE")
    unanalysable(res, "PlutusData::decode", f, uneval)
    if to_constr == spec_tags:
        res.ok("PlutusData::decode:constr-tags", "R-DUAL", "tags routed to Constr = tags Constr::decode accepts = domain of constr_index")
    else:
        res.violation("PlutusData::decode:constr-tags", "PlutusData::decode routes a different tag set to Constr than Constr::decode accepts (differs at %s)" % diff(to_constr, spec_tags),
                      where=X.where(f), rule="R-DUAL")
    want_big = set(spec["bignum"].values())
    if to_bigint == want_big:
        res.ok("PlutusData::decode:bignum-tags", "R-DUAL", "tags 2 and 3 are routed to BigInt")
    else:
        res.violation("PlutusData::decode:bignum-tags", "tags routed to BigInt are %s, expected %s" % (sorted(to_bigint)[:6], sorted(want_big)), where=X.where(f), rule="R-DUAL")

    # ---- BigInt decode / encode
    f = one_impl(P, "BigInt", "minicbor::decode::Decode", "decode")
    paths = [p for p in tabulate(f, P, 4096) if p.end == "return" and not X.is_error_propagation(p)]
    dec = {}
    rng, ecs, uneval = X.promoted_ranges(f, rcv), X.promoted_enum_consts(f, "minicbor::data::Type"), set()
    for t in TAG_DOMAIN[:64]:
        leaf = mk_leaf(decoder_tag_subject, t, rng, ecs, tix["Tag"])
        rows = X.rows_for(paths, leaf, extra=lambda cond: datatype_cond(cond, tix["Tag"]), unevaluable=uneval, is_subject=decoder_tag_subject)
        for p in rows:
            rc = X.result_class(p.ret)
            if rc and rc[0] == "ok":
                dec.setdefault(rc[2], set()).add(t)
    for name, idx in sorted(tix.items(), key=lambda kv: kv[1]):
        if name in ("Tag", "Unknown"):
            continue
        rows = X.rows_for(paths, mk_leaf(lambda s_: False, 0, rng, ecs, idx), extra=lambda cond: datatype_cond(cond, idx))
        got = set()
        for p in rows:
            rc = X.result_class(p.ret)
            got.add("Err" if rc and rc[0] == "err" else rc[2] if rc else "?")
        want = {spec["bigint_heads"][name]} if name in spec["bigint_heads"] else {"Err"}
        if got == want:
            res.ok("BigInt::decode:head:%s" % name, "R-DUAL", "head %s -> %s" % (name, sorted(got)))
        else:
            res.violation("BigInt::decode:head:%s" % name, "a CBOR item with head type %s is decoded to %s, expected %s" % (name, sorted(got), sorted(want)),
                          where=X.where(f), rule="R-DUAL")
    unanalysable(res, "BigInt::decode", f, uneval)
    g = one_impl(P, "BigInt", "minicbor::encode::Encode", "encode")
    enc = {}
    for p in tabulate(g, P, 1024):
        if p.end != "return" or X.is_error_propagation(p):
            continue
        vs = None
        for d, c in [(x[0], x[1]) for x in p.conds]:
            if d[0] == "discr" and X.roots(d[1]) == {1}:
                vn = variant_names(P, (d[2] if len(d) > 2 else "") or "") or []
                s_ = {nm for i, nm in vn if (i == int(c[1]) if c[0] == "eq" else i not in [int(v) for v in c[1]])}
                vs = s_ if vs is None else vs & s_
        em = X.emissions(p, is_enc)
        tags = [e for e in em if e[0].endswith("Encoder::tag")]
        tv = set()
        for e in tags:
            try:
                tv.add(finite.ev(e[1][1], X.tag_leaf(lambda s: False, 0, iana), 64))
            except finite.NotFinite:
                tv.add(None)
        for v in (vs or {"*"}):
            enc.setdefault(v, set()).update(tv)
            if not tags:
                enc.setdefault(v, set())
    for v, t in spec["bignum"].items():
        if enc.get(v) == {t} and dec.get(v) == {t}:
            res.ok("BigInt:tag:%s" % v, "R-DUAL", "encoder writes tag %d, decoder builds %s exactly from tag %d" % (t, v, t))
        else:
            res.violation("BigInt:tag:%s" % v, "BigInt::%s: encoder writes tag(s) %s, decoder builds it from tag(s) %s, expected %d on both sides" %
                          (v, sorted(x for x in enc.get(v, []) if x is not None) or "none", sorted(dec.get(v, [])) or "none", t), where=X.where(g), rule="R-DUAL")
    if enc.get("Int", {None}) == set():
        res.ok("BigInt:tag:Int", "R-DUAL", "small integers are written without a tag")
    else:
        res.violation("BigInt:tag:Int", "BigInt::Int is written with tag(s) %s" % sorted(map(str, enc.get("Int", []))), where=X.where(g), rule="R-DUAL")

    bounded_bytes(P, res, spec, is_enc)


APPEND = re.compile(r"(Vec::extend_from_slice|Extend::extend|Vec::append|Vec::push)$")
ITER_EACH = re.compile(r"Iterator::(try_for_each|for_each)$")
ITER_FOLD = re.compile(r"Iterator::(try_fold|fold)$")


def _enc_param(g):
    """index of the parameter that is the minicbor Encoder (by type)"""
    for i in range(1, g.argc + 1):
        if "minicbor::encode::encoder::Encoder<" in g.local_ty(i) or "minicbor::Encoder<" in g.local_ty(i):
            return i
    return None


def _closure_writes_bytes(P, cl):
    """closure passed to (try_)for_each: writes exactly `bytes(item)` on a captured encoder"""
    cl = X.strip(cl)
    if cl[0] != "agg" or cl[1] != "closure":
        return False
    k = P.fns.get(cl[2])
    if k is None:
        return False
    ok = False
    for q in tabulate(k, P, 64):
        if q.end != "return" or X.is_error_propagation(q):
            continue
        em = [(strip_generics(c[0]), c[1]) for c in q.calls if re.search(r"minicbor::encode::encoder::Encoder::\w+$", strip_generics(c[0]))]
        if len(em) == 1 and em[0][0].endswith("Encoder::bytes") and X.roots(em[0][1][0]) == {1} and X.roots(em[0][1][1]) == {2}:
            ok = True
        else:
            return False
    return ok


def flat_emissions(P, g, p, is_enc, depth=2):
    """Names of the items written to the encoder along path p of g; a workspace helper that receives the encoder is replaced by the
    emissions of its successful return path; `iter.try_for_each(|c| e.bytes(c))` counts as `bytes*`."""
    out = []
    for callee, args, bb in p.calls:
        n = strip_generics(callee)
        if args and is_enc(args[0]) and re.search(r"minicbor::encode::encoder::Encoder::\w+$", n):
            out.append(n.split("::")[-1])
            continue
        if ITER_EACH.search(n) and len(args) == 2 and _closure_writes_bytes(P, args[1]):
            out.append("bytes*")
            continue
        h = P.fns.get(callee)
        if h is not None and depth > 0 and any(is_enc(a) for a in args):
            ei = _enc_param(h)
            if ei is None:
                out.append("?" + n.split("::")[-1])
                continue
            sub_is_enc = lambda s_, ei=ei: X.strip(s_)[0] == "param" and X.strip(s_)[1] == ei
            seqs = {tuple(flat_emissions(P, h, q, sub_is_enc, depth - 1)) for q in tabulate(h, P, 512) if q.end == "return" and not X.is_error_propagation(q)}
            if len(seqs) == 1:
                out += list(seqs.pop())
            else:
                out.append("?" + n.split("::")[-1])
    return out


def chunk_sources(P, g, is_enc, bytes_ok, chunk):
    """[(ok, why)] for every place in g where chunk items are written to the encoder: an explicit loop or a (try_)for_each closure."""
    found = []

    def from_chunks(term):
        src = [sub for sub in sym_walk(term) if sub[0] == "call" and re.search(r"core::slice::(chunks|chunks_exact|rchunks|rchunks_exact)$", strip_generics(sub[1]))]
        if not src:
            return None
        c = src[0]
        if not strip_generics(c[1]).endswith("core::slice::chunks"):
            return False, "%s drops or reorders bytes" % strip_generics(c[1]).split("::")[-1]
        size = X.strip(c[2][1])
        if size[0] != "const" or int(size[1]) != chunk:
            return False, "chunk size is %s, Plutus uses %d" % (sym_str(size, 40), chunk)
        if not bytes_ok(c[2][0]):
            return False, "chunks are not taken from the byte string being encoded"
        return True, "items of chunks(bytes, %d)" % chunk

    def from_split(term):
        # `let (chunk, rest) = remaining.split_at(remaining.len().min(64)); ...; remaining = rest`
        sp = [sub for sub in sym_walk(term) if sub[0] == "call" and strip_generics(sub[1]).endswith("core::slice::split_at")]
        if not sp:
            return None
        c = sp[0]
        t = X.strip(term)
        if not (t[0] == "field" and str(t[2]) == "0"):
            return False, "the item written is not the first part of split_at"
        mid = X.strip(c[2][1])
        ok_mid = False
        if mid[0] == "call" and re.search(r"core::cmp::Ord::min$|::min$", strip_generics(mid[1])) and len(mid[2]) == 2:
            parts = [X.strip(a) for a in mid[2]]
            consts = [a for a in parts if a[0] == "const"]
            lens = [a for a in parts if a[0] == "call" and re.search(r"::len$", strip_generics(a[1])) and X.norm(X.buffer_of(a[2][0])) == X.norm(X.buffer_of(c[2][0]))]
            ok_mid = len(consts) == 1 and int(consts[0][1]) == chunk and len(lens) == 1
        if not ok_mid:
            return False, "split point is not min(remaining.len(), %d)" % chunk
        # the loop variable is re-assigned the second part
        rem = ("?",)
        for bi_, t_ in g.calls():
            if flow.callee_name(t_).endswith("core::slice::split_at") and t_["args"]:
                rem = X.strip(X.buffer_of(g.sym_operand(t_["args"][0])))      # the loop variable: a re-assigned local
        reassigned = False
        if rem[0] == "local":
            for bi, si, st in g.statements():
                if st[0] == "a" and isinstance(st[1], int) and st[1] == rem[1]:
                    v = g.sym_rvalue(st[2], 40)
                    vs = X.strip(v)
                    if vs[0] == "field" and str(vs[2]) == "1" and X.strip(vs[1])[0] == "call" and strip_generics(X.strip(vs[1])[1]).endswith("core::slice::split_at"):
                        reassigned = True
        if not reassigned:
            return False, "the remaining bytes are not advanced to the second part of split_at"
        return True, "split_at(remaining, min(len, %d)) with remaining = rest" % chunk
    paths = tabulate(g, P, 2048)
    for p in paths:
        if p.end == "loop":
            for callee, args, bb in p.calls:
                n = strip_generics(callee)
                if n.endswith("Encoder::bytes") and args and is_enc(args[0]):
                    r = from_chunks(args[1]) or from_split(args[1])
                    found.append(r if r is not None else (False, "the item written in the loop is not a chunk of the byte string (chunks(..) item or split_at part)"))
        for callee, args, bb in p.calls:
            n = strip_generics(callee)
            if ITER_EACH.search(n) and len(args) == 2 and _closure_writes_bytes(P, args[1]):
                r = from_chunks(args[0])
                found.append(r if r is not None else (False, "the iterator consumed by for_each is not chunks(bytes, %d)" % chunk))
    return found


def bounded_bytes(P, res, spec, is_enc):
    chunk = spec["bytes_chunk"]
    f = one_impl(P, "BoundedBytes", "minicbor::encode::Encode", "encode")
    allp = tabulate(f, P, 1024)

    def is_len(s):
        s = X.strip(s)
        return s[0] == "call" and re.search(r"::len$", strip_generics(s[1])) is not None and X.roots(s) == {1}
    bad = []
    uneval = set()
    for n in list(range(0, 200)) + [255, 256, 1000, 65536]:
        def leaf(s, n=n):
            if is_len(s):
                return n
            raise finite.NotFinite(s)
        rows = [p for p in X.rows_for(allp, leaf, unevaluable=uneval, is_subject=is_len) if not X.is_error_propagation(p)]
        kinds = set()
        for p in rows:
            em = flat_emissions(P, f, p, is_enc)
            if p.end == "return":
                if em == ["bytes"]:
                    kinds.add("definite")
                elif len(em) >= 2 and em[0] == "begin_bytes" and em[-1] == "end" and all(x in ("bytes", "bytes*") for x in em[1:-1]):
                    kinds.add("indefinite")
                else:
                    kinds.add("other:" + ",".join(em))
            elif p.end == "loop":
                if not (em and em[0] == "begin_bytes" and all(x in ("bytes", "bytes*") for x in em[1:])):
                    kinds.add("other-loop:" + ",".join(em))
            else:
                kinds.add("diverge")
        want = {"definite"} if n <= chunk else {"indefinite"}
        if kinds != want:
            bad.append((n, sorted(kinds)))
    unanalysable(res, "BoundedBytes::encode", f, uneval)
    if bad:
        res.violation("BoundedBytes::encode:threshold", "a byte string of length %d is written as %s; Plutus writes one definite string up to %d bytes and an indefinite "
                      "string (begin, chunks, end) above" % (bad[0][0], bad[0][1], chunk), where=X.where(f), rule="R-TABLE")
    else:
        res.ok("BoundedBytes::encode:threshold", "R-TABLE", "definite iff len <= %d; longer strings: begin_bytes, bytes*, end (lengths 0..199, 255, 256, 1000, 65536)" % chunk)
    # chunk size and source, in the encoder itself and in helpers it hands the encoder to
    found = chunk_sources(P, f, is_enc, lambda t: X.roots(t) == {1}, chunk)
    for bi, t in f.calls():
        h = P.fns.get(t.get("f") or "")
        if h is None or h.kind == "Closure":
            continue
        args = [f.sym_operand(a) for a in t["args"]]
        if not any(is_enc(a) for a in args):
            continue
        ei = _enc_param(h)
        if ei is None:
            continue
        self_args = {i + 1 for i, a in enumerate(args) if X.roots(a) == {1}}      # helper params that carry (parts of) self
        found += chunk_sources(P, h, lambda s_, ei=ei: X.strip(s_)[0] == "param" and X.strip(s_)[1] == ei,
                               lambda t_, sa=self_args: bool(X.roots(t_)) and X.roots(t_) <= sa, chunk)
    if found and all(ok for ok, _ in found):
        res.ok("BoundedBytes::encode:chunks", "R-PROV", "; ".join(sorted({w for _, w in found})))
    else:
        res.violation("BoundedBytes::encode:chunks", "chunked encoding: %s" % (next((w for ok, w in found if not ok), "no chunk loop found")), where=X.where(f), rule="R-PROV")

    # decoders: every function of the module that reads bytes_iter appends the items, in iteration order, to the buffer it returns
    nd = 0
    readers = [g for g in P.by_crate.get("pallas_primitives", []) if g.kind != "Closure" and g.path.startswith(PD.rstrip(":")) or
               (g.kind != "Closure" and PD.rstrip(":") in g.path)]
    for g in readers:
        if not any(flow.callee_name(t).endswith("Decoder::bytes_iter") for _, t in g.calls()):
            continue
        nd += 1
        paths = tabulate(g, P, 8192)
        appended, built, bad_order = False, False, False
        bufs = set()
        for p in paths:
            for callee, args, bb in p.calls:
                n = strip_generics(callee)
                if p.end == "loop" and APPEND.search(n) and len(args) == 2 and X.mentions_call(args[1], r"Decoder::bytes_iter$"):
                    appended = True
                    bufs.add(X.norm(X.strip(args[0])))
                elif re.search(r"Vec::(insert|splice)$", n) and X.mentions_call(args[-1], r"Decoder::bytes_iter$"):
                    bad_order = True
                elif ITER_FOLD.search(n) and len(args) == 3 and X.mentions_call(args[0], r"Decoder::bytes_iter$"):
                    # bytes_iter()?.try_fold(Vec::new(), |mut buf, chunk| { buf.extend_from_slice(chunk?); Ok(buf) })
                    cl = X.strip(args[2])
                    k = P.fns.get(cl[2]) if cl[0] == "agg" and cl[1] == "closure" else None
                    if k is not None:
                        good = False
                        for q in tabulate(k, P, 64):
                            if q.end != "return" or X.is_error_propagation(q):
                                continue
                            app = [c for c in q.calls if APPEND.search(strip_generics(c[0])) and X.roots(c[1][0]) == {2} and X.roots(c[1][1]) == {3}]
                            good = bool(app) and X.roots(q.ret) == {2}
                            if any(re.search(r"Vec::(insert|splice)$", strip_generics(c[0])) for c in q.calls):
                                bad_order = True
                        if good:
                            appended = True
                            bufs.add(X.norm(("call", callee, tuple(args), bb)))
        for p in paths:
            if p.end == "return" and not X.is_error_propagation(p) and any(X.norm(sub) in bufs for sub in sym_walk(p.ret)):
                built = True
        key = "%s:chunks-appended" % strip_generics(g.path).replace(PD, "").replace(" as minicbor::decode::Decode", "")
        if appended and built and not bad_order:
            res.ok(key, "R-PROV", "bytes_iter items are appended to the buffer the result is built from")
        else:
            res.violation(key, "the chunks yielded by bytes_iter are not appended in iteration order to the buffer the decoded byte string is built from",
                          where=X.where(g), rule="R-PROV")
    res.floor("decoders reading chunked byte strings", nd, 1)
    bd = one_impl(P, "BoundedBytes", "minicbor::decode::Decode", "decode")
    if X.fn_reaches(P, bd, re.compile(r"Decoder::bytes_iter$")):
        res.ok("BoundedBytes::decode:reads-chunks", "R-MPT", "BoundedBytes::decode reads through bytes_iter (definite and indefinite strings)")
    else:
        res.violation("BoundedBytes::decode:reads-chunks", "BoundedBytes::decode no longer reads through Decoder::bytes_iter: chunked (indefinite) byte strings are not re-assembled",
                      where=X.where(bd), rule="R-MPT")


def run(tier):
    res = Result("C07", tier, level="other")
    P = Program(crates=["pallas_codec", "pallas_primitives"])
    spec = json.load(open(os.path.join(VERIF, "spec", "plutus_data.json")))
    order_clauses(P, res)
    codec_clauses(P, res, spec)
    # a table that could not be evaluated is reported once (":unanalysable"); comparisons derived from its garbage rows are dropped
    und = getattr(res, "undecidable", set())
    if und:
        def derived(k):
            return any(k.startswith(p_ + ":") and not k.endswith(":unanalysable") for p_ in und)
        res.violations = [v for v in res.violations if not derived(v["key"])]
        res.obligations = [o for o in res.obligations if not derived(o["key"])]
    res.assumptions += ["std Ord for Vec/slices/tuples/integers is a lexicographic total order consistent with Eq",
                        "minicbor 0.26 `data::Type` declaration order and IanaTag::{PosBignum,NegBignum} = tags 2,3 (spec/plutus_data.json)",
                        "minicbor Decoder::bytes_iter yields the chunks of a definite or indefinite byte string in order"]
    return finish(res,
                  explanation="The comparison functions of PlutusData, BigInt, Constr and BoundedBytes are extracted as decision tables (variant pairs / sign flags -> "
                              "constant or lexicographic chain of same-key comparisons) and the order laws are checked on every cell: same key on both operands, mirrored "
                              "cells agree, no constant on the diagonal, acyclic variant rank, operands in (self, other) order, no encoding wrapper (Def/Indef) reaches a "
                              "comparison, eq/partial_cmp defined from cmp.  Codec tables (constructor tags, bignum tags, head types, 64-byte chunking) are evaluated over "
                              "the finite tag/length domain and compared with the Plutus encoding. Not decided: big-integer magnitude arithmetic, element codecs.",
                  rule_text="R-TABLE(cmp tables: symmetry, antisymmetry, reflexivity, transitive rank) + R-ORDER(operand order, index before fields) + "
                            "R-PROV(eq/partial_cmp from cmp; wrapper-free keys; chunk provenance) + R-DUAL(tag and head tables of Encode/Decode vs spec/plutus_data.json)",
                  trusted_base=["rustc MIR", "spec/plutus_data.json"])
