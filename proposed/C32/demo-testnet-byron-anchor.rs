// Demonstration for finding C32/testnet-byron-anchor.
// Place as pallas-traverse/tests/c32_wallclock_boundary.rs (integration test, public API only) and run
//   cargo test --offline -p pallas-traverse --test c32_wallclock_boundary
// Fails on the unfixed tree for testnet (time goes BACK by 10780 s from slot 1598399 to slot 1598400), passes with
// fix-testnet-byron-anchor.diff.
use pallas_traverse::wellknown::GenesisValues;

#[test]
fn wallclock_keeps_increasing_by_the_byron_slot_length_into_the_first_shelley_slot() {
    for (name, g) in [
        ("mainnet", GenesisValues::mainnet()),
        ("testnet", GenesisValues::testnet()),
        ("preview", GenesisValues::preview()),
        ("preprod", GenesisValues::preprod()),
    ] {
        if g.shelley_known_slot == 0 {
            continue; // no Byron slots
        }
        let first_shelley = g.shelley_known_slot;
        let last_byron = first_shelley - 1;
        let a = g.slot_to_wallclock(last_byron);
        let b = g.slot_to_wallclock(first_shelley);
        assert!(a < b, "{name}: wall-clock of slot {last_byron} is {a}, of the next slot {first_shelley} is {b}");
        assert_eq!(b - a, g.byron_slot_length as u64, "{name}: the last Byron slot lasts one Byron slot length");
    }
}
