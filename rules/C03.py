"""C03 — CBOR helper wrappers round-trip and preserve original encodings (pallas-codec/src/utils.rs, lib.rs).

Necessary clauses decided (not value equality):
 (a) raw capture    KeepRaw::decode: `raw` is the slice of d.input() between the decoder position taken before and the one
                    taken after the inner decode, and `inner` is what was decoded in between (decoder interpreted abstractly
                    on a one-item stream by pv/x_codec; independent of how the positions are named or hoisted).
 (b) coherence      every function of the crate that writes or mutably borrows KeepRaw.inner resets `raw` (to a value built
                    from no input) on every path through it; every construction of a KeepRaw has an empty `raw`, the slice of
                    clause (a), or raw and inner copied from the same KeepRaw; KeepRaw::encode writes `raw` verbatim iff it
                    is non-empty and otherwise encodes `inner`.
 (c) def/indef      KeyValuePairs, NonEmptyKeyValuePairs, MaybeIndefArray: the Def arm writes a definite header, the Indef arm
                    an indefinite one closed by end(), and the decoder maps Map/Array -> Def, MapIndef/ArrayIndef -> Indef;
                    Nullable: Null <-> null(), Undefined <-> undefined(), anything else <-> the inner value (R-DUAL by E4).
 (d) width table    AnyUInt, decided on the head *form*, not on the value: for every unsigned head form the decoder accepts
                    (immediate 0..=23; head 24 with values below and above 24, i.e. including the non-minimal `18 05`; 25 also with
                    a small value; 26; 27) the variant the decoder builds carries the value and is the variant whose encoder
                    writes that same head byte followed by the big-endian argument of the right width
                    (oracle: RFC 8949 additional information table; minicbor's datatype() is U8 for heads 0x00..=0x18).
 (e) verbatim       AnyCbor::decode captures input[start..end] around skip(); AnyCbor::encode writes exactly those bytes.
 (f) R-SHAPE        every hand-written Encode in utils.rs is one well-formed item per arm and dual to its Decode (E4), with the
                    generic-parameter contract of OrderPreservingProperties<P> (P = one key + one value) checked on every
                    instantiation in the workspace."""
import os
import re

from pv import facts
from pv.program import Program
from pv.report import Result, finish
from pv.mir import sym_walk, sym_str, pl_local, pl_proj
from pv.x_codec import (Model, check_types, load_table, shape_str, Arm, Tok, spec, _byte_parts, parse_type, type_str, OPTION, RESULT)

U = "pallas_codec::utils::"
FILES = ["pallas-codec/src/utils.rs", "pallas-codec/src/lib.rs"]


def _find(v, kind):
    """first nested abstract value of the given kind"""
    if not isinstance(v, tuple) or not v:
        return None
    if v[0] == kind:
        return v
    if v[0] == "var":
        a = v[3]
        for x in (a.values() if isinstance(a, dict) else a):
            r = _find(x, kind)
            if r is not None:
                return r
    if v[0] == "struct":
        for x in v[2].values():
            r = _find(x, kind)
            if r is not None:
                return r
    if v[0] == "tup":
        for x in v[1]:
            r = _find(x, kind)
            if r is not None:
                return r
    return None


def _ok_struct(v):
    if v[0] == "var" and v[1] == RESULT and v[2] == "Ok":
        a = v[3]
        x = a[0] if not isinstance(a, dict) else None
        if x is not None and x[0] == "struct":
            return x
    return None


def capture_clause(res, m, adt, field_raw, field_inner, stream_tokens, key, what):
    """(a)/(e): run the decoder on a one-item stream and inspect the value it returns"""
    dms = m.impls_of(adt, "dec")
    if len(dms) != 1:
        res.violation(key + ":anchor", "expected one hand-written Decode impl for %s, found %d" % (adt, len(dms)), rule="anchor")
        return
    dm = dms[0]
    arm = Arm()
    arm.tokens = stream_tokens
    keep = []
    try:
        leaves = m.run_decoder(dm, arm, keep)
    except Exception as e:      # Unanalysable
        res.violation(key + ":unanalysable", "%s::decode cannot be abstracted: %s" % (adt, e), where=dm.where, rule="R-PROV")
        return
    good = [(k, v, s) for (k, v, s) in keep if k == "ret" and _ok_struct(v) is not None]
    if not good or any(l[0] not in ("ok",) for l in leaves if not l[1]):
        bad = [l for l in leaves if l[0] != "ok"]
        res.violation(key + ":no-ok-path", "%s::decode has no path returning Ok(value) that consumes exactly the item%s" % (adt, (": " + bad[0][2]) if bad else ""), where=dm.where, rule="R-PROV")
        return
    for k, v, s in good:
        st = _ok_struct(v)
        raw = st[2].get(field_raw)
        sl = _find(raw, "inslice") if raw is not None else None
        n_items = len(s.streams["main"])
        if sl is None:
            res.violation(key + ":not-a-slice-of-the-input", "%s: `%s` is not a slice of d.input() bounded by two decoder positions (found %s)" % (what, field_raw, raw[0] if raw else None), where=dm.where, rule="R-PROV")
            return
        a, b = sl[1], sl[2]
        if a[1] != "main" or b[1] != "main" or a[2] != 0 or b[2] != n_items:
            res.violation(key + ":bounds=%s..%s" % (a[2], b[2]), "%s: the captured slice runs from item %s to item %s of the decoder's input, expected from just before (0) to just after (%d) the decoded item" % (what, a[2], b[2], n_items), where=dm.where, rule="R-PROV+R-ORDER")
            return
        if field_inner is not None:
            inner = st[2].get(field_inner)
            if inner is None or inner[0] != "sym" or not inner[1].startswith("read#"):
                res.violation(key + ":inner-not-decoded-in-between", "%s: `%s` is not the value decoded between the two positions" % (what, field_inner), where=dm.where, rule="R-PROV")
                return
    res.ok(key, "R-PROV+R-ORDER", "%s: `%s` = input[position before .. position after] around the only read" % (what, field_raw))


def keepraw_encode_clause(res, m):
    adt = U + "KeepRaw"
    ims = m.impls_of(adt, "enc")
    key = "b:KeepRaw::encode"
    if len(ims) != 1:
        res.violation(key + ":anchor", "expected one hand-written Encode impl for KeepRaw", rule="anchor")
        return
    arms = m.encoder_arms(ims[0])
    seen = {}
    for a in arms:
        if a.kind != "ok":
            res.violation(key + ":arm:%s" % a.label, "KeepRaw::encode arm %s is %s (%s)" % (a.label, a.kind, a.why), where=ims[0].where, rule="R-TABLE")
            return
        empty = None
        if "!is_empty(self.raw)" in a.label:
            empty = False
        elif "is_empty(self.raw)" in a.label:
            empty = True
        toks = a.tokens
        if len(toks) == 1 and toks[0].kind == "raw" and toks[0].val is not None and toks[0].val[0] == "sym" and toks[0].val[1] == "self.raw":
            what = "raw"
        elif len(toks) == 1 and toks[0].kind == "item" and toks[0].val is not None and toks[0].val[0] == "sym" and toks[0].val[1] == "self.inner":
            what = "inner"
        else:
            what = shape_str(toks) or "nothing"
        seen[empty] = what
    if seen == {True: "inner", False: "raw"}:
        res.ok(key, "R-TABLE", "raw empty -> encode_with(inner); raw non-empty -> write_all(raw) verbatim")
    else:
        res.violation(key + ":table=%s" % ",".join("%s->%s" % ({True: "empty", False: "nonempty", None: "always"}[k], str(v).replace(" ", "+")) for k, v in sorted(seen.items(), key=lambda kv: str(kv[0]))),
                      "KeepRaw::encode must write `raw` verbatim iff it is non-empty and encode `inner` otherwise; found (raw empty? -> written): %s" % seen, where=ims[0].where, rule="R-TABLE")


# ---------------------------------------------------------------------------------------------- (b) on MIR
def _base_types(f, p):
    """types along a place: yields (projection element, type of the value it is applied to)"""
    ty = f.local_ty(pl_local(p)) or ""
    for e in pl_proj(p):
        yield e, ty
        if e[0] == "deref":
            ty = re.sub(r"^(&(mut )?|\*(mut|const) |alloc::boxed::Box<)", "", ty)
        elif e[0] == "field":
            ty = e[3] or ""
        else:
            ty = ""


def _touches_field(f, p, field):
    """does the place go through field `field` of a KeepRaw — directly, or through a local reference to it
    (`let KeepRaw { raw, .. } = self; *raw = ..`)"""
    for e, ty in _base_types(f, p):
        if e[0] == "field" and e[2] == field and re.match(r"^(&(mut )?)?pallas_codec::utils::KeepRaw<", ty):
            return True
    # through a local reference: `_3 = &mut (*_1).raw; (*_3) = ..`
    q = p
    for _ in range(5):
        if isinstance(q, int) or not pl_proj(q) or pl_proj(q)[0][0] != "deref":
            break
        L = pl_local(q)
        srcs = [st_[2]["p"] for _b, _i, st_ in f.statements() if st_[0] == "a" and st_[1] == L and st_[2]["k"] in ("ref", "rawptr")]
        full = [st_ for _b, _i, st_ in f.statements() if st_[0] == "a" and st_[1] == L]
        if len(srcs) != 1 or len(full) != 1:
            break
        src = srcs[0]
        q = [pl_local(src), list(pl_proj(src)) + list(pl_proj(q)[1:])] if not isinstance(src, int) else [src, list(pl_proj(q)[1:])]
        for e, ty in _base_types(f, q):
            if e[0] == "field" and e[2] == field and re.match(r"^(&(mut )?)?pallas_codec::utils::KeepRaw<", ty):
                return True
    s = f.sym_place(p)
    while s and s[0] in ("deref", "ref", "field", "downcast", "index"):
        if s[0] == "field" and s[2] == field:
            root = s[1]
            while root and root[0] in ("deref", "ref", "field", "downcast", "index"):
                root = root[1]
            if root and root[0] == "param" and "pallas_codec::utils::KeepRaw<" in (f.local_ty(root[1]) or ""):
                return True
        s = s[1]
    return False


def _is_input_free(s):
    for x in sym_walk(s):
        if x[0] in ("param", "field", "local", "deref", "index"):
            return False
    return True


def coherence_clause(res, P):
    fns = [f for f in P.by_crate["pallas_codec"]]
    resetters = set()
    # functions that assign KeepRaw.raw a value built from no input
    for f in fns:
        for bi, si, s in f.statements():
            if s[0] == "a" and not isinstance(s[1], int) and _touches_field(f, s[1], "raw"):
                v = f.sym_rvalue(s[2], 40, (bi, si))
                if _is_input_free(v):
                    resetters.add(f.path)
        for b in f.blocks:
            t = b["term"]
            if t["k"] == "call" and not isinstance(t["dest"], int) and _touches_field(f, t["dest"], "raw") and all(_is_input_free(f.sym_operand(a)) for a in t["args"]):
                resetters.add(f.path)
    n_mut = 0
    for f in fns:
        events = []
        resets = set()
        for bi, b in enumerate(f.blocks):
            for si, s in enumerate(b["st"]):
                if s[0] != "a":
                    continue
                if not isinstance(s[1], int) and _touches_field(f, s[1], "inner"):
                    events.append((bi, "write"))
                rv = s[2]
                if rv["k"] in ("ref", "rawptr") and rv.get("mut") and not isinstance(rv["p"], int) and _touches_field(f, rv["p"], "inner"):
                    events.append((bi, "mutable borrow"))
                if not isinstance(s[1], int) and _touches_field(f, s[1], "raw") and _is_input_free(f.sym_rvalue(s[2], 40, (bi, si))):
                    resets.add(bi)
            t = b["term"]
            if t["k"] == "call" and (t.get("f") in resetters):
                resets.add(bi)
            if t["k"] == "call" and not isinstance(t["dest"], int) and _touches_field(f, t["dest"], "raw") and all(_is_input_free(f.sym_operand(a)) for a in t["args"]):
                resets.add(bi)
            if t["k"] == "call" and not isinstance(t["dest"], int) and _touches_field(f, t["dest"], "inner"):
                events.append((bi, "write"))
        if not events:
            continue
        n_mut += 1
        key = "b:inner-mutation:%s" % f.path
        bad = None
        for bm, how in events:
            if bm in resets:
                continue
            if f.can_reach(0, bm, avoid=resets) and any(f.can_reach(bm, r, avoid=resets) or bm == r for r in f.return_blocks() if r not in resets):
                bad = how
                break
        if bad:
            res.violation(key, "%s performs a %s of KeepRaw.inner on a path that never resets KeepRaw.raw: the stale original bytes would be re-emitted by encode" % (f.path, bad),
                          where="%s:%s" % (f.file, f.line), rule="R-WRITERS")
        else:
            res.ok(key, "R-WRITERS", "every path with a write / mutable borrow of inner passes through a reset of raw")
    res.count("functions writing or mutably borrowing KeepRaw.inner", n_mut)
    # constructions
    n_ctor = 0
    for f in fns:
        for bi, si, s in f.statements():
            if s[0] == "a" and s[2]["k"] == "agg" and s[2].get("ak") == "adt" and s[2]["adt"] == U + "KeepRaw":
                n_ctor += 1
                adt = P.adt(U + "KeepRaw")
                names = [x["name"] for x in adt["variants"][0]["fields"]]
                ops = dict(zip(names, s[2]["fields"]))
                raw = f.sym_operand(ops["raw"])
                inner = f.sym_operand(ops["inner"])
                key = "b:construction:%s" % f.path
                if _is_input_free(raw):
                    res.ok(key, "R-CTORS", "raw is empty at construction")
                elif (f.b.get("impl_trait") == "minicbor::decode::Decode" and f.name == "decode") or \
                        ("as minicbor::decode::Decode<" in f.path and f.path.split("::{closure")[0].endswith("::decode")):
                    res.ok(key, "R-CTORS", "the decode capture (clause a)")
                else:
                    def root_param(x):
                        ps = {y[1] for y in sym_walk(x) if y[0] == "param"}
                        return ps
                    raw_from_field = any(y[0] == "field" and y[2] == "raw" for y in sym_walk(raw))
                    inner_from_field = any(y[0] == "field" and y[2] == "inner" for y in sym_walk(inner))
                    if raw_from_field and inner_from_field and root_param(raw) == root_param(inner) and len(root_param(raw)) == 1:
                        res.ok(key, "R-CTORS", "raw and inner are both taken from the same KeepRaw")
                    else:
                        res.violation(key, "%s builds a KeepRaw whose raw bytes (%s) are neither empty, nor the decode capture, nor copied together with inner from one KeepRaw" % (f.path, sym_str(raw)),
                                      where="%s:%s" % (f.file, f.line), rule="R-CTORS")
    res.count("KeepRaw construction sites", n_ctor)
    return n_mut, n_ctor


# ---------------------------------------------------------------------------------------------- (d)
def anyuint_clause(res, m):
    adt = U + "AnyUInt"
    ai = spec()["cbor_additional_information"]
    ims, dms = m.impls_of(adt, "enc"), m.impls_of(adt, "dec")
    if len(ims) != 1 or len(dms) != 1:
        res.violation("d:anchor", "expected one hand-written Encode and Decode impl for AnyUInt", rule="anchor")
        return 0
    heads = {}
    for a in m.encoder_arms(ims[0]):
        if a.kind != "ok" or a.variant is None or not a.tokens or any(t.kind != "raw" or t.val is None for t in a.tokens):
            res.violation("d:encoder:%s:not-raw-bytes" % a.label, "AnyUInt::encode arm %s is not a sequence of bytes written through the writer that the interpreter can read (%s %s)" % (a.label, a.kind, shape_str(a.tokens)),
                          where=ims[0].where, rule="R-DUAL")
            continue
        parts = []
        for t in a.tokens:
            parts.extend(_byte_parts(t.val))
        # a bare u8 value in the buffer is its own 1-byte big-endian form (`[x]` == `x.to_be_bytes()`)
        heads[a.variant] = [("be", p_, 1) if p_[0] == "sym" else p_ for p_ in parts]
    # head forms, decided on the *head byte* (not on the value): (data::Type the decoder sees, first byte of the item or None =
    # the value itself (immediate form), sample value or None, argument width).  minicbor's datatype() is Type::U8 both for the
    # immediate form and for head 0x18, so the non-minimal items `18 00` .. `18 17` are accepted too and must be re-encoded
    # with head 0x18.
    imm = ai["immediate_max"]
    forms = [("U8", None, 0, 1), ("U8", None, imm, 1),
             ("U8", ai["one_byte"], 5, 1), ("U8", ai["one_byte"], imm, 1), ("U8", ai["one_byte"], imm + 1, 1), ("U8", ai["one_byte"], 255, 1),
             ("U16", ai["two_bytes"], None, 2), ("U16", ai["two_bytes"], 5, 2), ("U32", ai["four_bytes"], None, 4), ("U64", ai["eight_bytes"], None, 8)]
    rngs = {"U8": (0, 255), "U16": (0, 65535), "U32": (0, 2 ** 32 - 1), "U64": (0, 2 ** 64 - 1)}
    n = 0
    for kind, head, val, width in forms:
        n += 1
        key = "d:head=%s:%s%s" % ("immediate" if head is None else head, kind, "" if val is None else "=%d" % val)
        arm = Arm()
        arm.tokens = [Tok("item", kinds=frozenset([kind]), val=("c", val) if val is not None else None, how="u64", rng=rngs[kind] if val is None else (val, val), ty="u64",
                          head=("c", head) if head is not None else ("c", val))]
        keep = []
        try:
            leaves = m.run_decoder(dms[0], arm, keep)
        except Exception as e:
            res.violation(key + ":unanalysable", "AnyUInt::decode cannot be abstracted on a %s head: %s" % (kind, e), where=dms[0].where, rule="R-DUAL")
            continue
        bad = [l for l in leaves if l[0] != "ok"]
        if bad or len(keep) != 1:
            res.violation(key + ":decoder-" + (bad[0][0] if bad else "forks"), "AnyUInt::decode does not accept (or does not decide on what the analysis knows: head byte, data::Type, value) an unsigned integer with head %s%s: %s" % (
                "byte = value (immediate)" if head is None else "byte %d" % head, "" if val is None else " and value %d" % val, bad[0][2] if bad else "several outcomes"),
                          where=dms[0].where, rule="R-DUAL")
            continue
        v = keep[0][1]
        inner = v[3][0] if v[0] == "var" and v[1] == RESULT and v[3] else None
        if inner is None or inner[0] != "var" or inner[1] != adt:
            res.violation(key + ":no-variant", "AnyUInt::decode does not build an AnyUInt variant for a %s head" % kind, where=dms[0].where, rule="R-DUAL")
            continue
        variant = inner[2]
        carried = inner[3][0] if inner[3] else None
        if (val is not None and carried != ("c", val)) or (val is None and not (carried is not None and carried[0] == "sym" and carried[1].startswith("read#"))):
            res.violation(key + ":value-not-carried", "AnyUInt::decode builds %s(%s), which is not the integer it read%s" % (variant, carried[1] if carried else None, "" if val is None else " (%d)" % val), where=dms[0].where, rule="R-DUAL")
            continue
        parts = heads.get(variant)
        if parts is None:
            res.violation(key + ":=>%s:no-encoder-arm" % variant, "no analysable encoder arm for AnyUInt::%s" % variant, where=ims[0].where, rule="R-DUAL")
            continue
        consts = [p[1] for p in parts if p[0] == "c"]
        bes = [p for p in parts if p[0] == "be"]
        want_consts = [] if head is None else [head]
        ok_shape = consts == want_consts and len(bes) == 1 and bes[0][2] == width and parts[-1] == bes[0] \
            and bes[0][1][0] == "sym" and bes[0][1][1] == "self.0"
        desc = " ".join(str(p[1]) if p[0] == "c" else "be%s(%s)" % (p[2], p[1][1] if p[1][0] == "sym" else "?") for p in parts)
        hd = "immediate head" if head is None else "head byte %d" % head
        if ok_shape:
            res.ok(key, "R-DUAL", "%s (%s)%s -> AnyUInt::%s -> encoder writes [%s]" % (hd, kind, "" if val is None else ", value %d" % val, variant, desc))
        else:
            res.violation(key + ":=>%s:writes=%s" % (variant, desc.replace(" ", ",")),
                          "an unsigned integer written with %s%s (data::Type %s) decodes to AnyUInt::%s, whose encoder writes [%s] instead of %s followed by the %d-byte big-endian value: the bytes accepted are not the bytes re-encoded" % (
                              hd, "" if val is None else " and value %d" % val, kind, variant, desc, "the value itself as the head byte" if head is None else "head byte %d" % head, width),
                          where=ims[0].where, rule="R-DUAL")
    return n


def defindef_clause(res, m, reps):
    """(c): explicit table per wrapper, on top of the generic duality obligations"""
    want = {
        U + "KeyValuePairs": {"Def": "definite-map", "Indef": "indefinite-map"},
        U + "NonEmptyKeyValuePairs": {"Def": "definite-map", "Indef": "indefinite-map"},
        U + "MaybeIndefArray": {"Def": "definite-array", "Indef": "indefinite-array"},
        U + "Nullable": {"Null": "null", "Undefined": "undefined", "Some": "inner"},
    }
    n = 0
    for adt, tbl in want.items():
        r = reps.get(adt)
        if r is None:
            res.violation("c:anchor:%s" % adt, "%s has no hand-written codec any more" % adt, rule="anchor")
            continue
        got = {}
        for im, a in r.arms:
            if a.kind != "ok" or not a.tokens or a.variant is None:
                continue
            t0 = a.tokens[0]
            if t0.kind == "map":
                k = "definite-map"
            elif t0.kind == "arr":
                k = "definite-array"
            elif t0.kind == "begin":
                k = "indefinite-%s" % {"arr": "array", "map": "map"}.get(t0.ctype, t0.ctype)
            elif t0.kind == "item" and t0.kinds == frozenset(["Array"]):
                k = "definite-array"
            elif t0.kind == "item" and t0.kinds == frozenset(["Map"]):
                k = "definite-map"
            elif t0.kind == "item" and t0.kinds == frozenset(["Null"]):
                k = "null"
            elif t0.kind == "item" and t0.kinds == frozenset(["Undefined"]):
                k = "undefined"
            elif t0.kind == "item" and t0.val is not None and t0.val[0] == "sym" and t0.val[1].startswith("self."):
                k = "inner"
            else:
                k = shape_str([t0])
            got[a.variant] = k
        dual_ok = {k.split(":")[-1] for k, _ in r.ok if k.startswith("dual:")}
        for v, k in tbl.items():
            n += 1
            key = "c:%s:%s" % (adt.rsplit("::", 1)[-1], v)
            if got.get(v) != k:
                res.violation(key + ":writes=%s" % got.get(v), "%s::%s must be written as %s but its encoder arm starts with %s" % (adt, v, k, got.get(v)), where=r.enc[0].where if r.enc else None, rule="R-DUAL")
            elif v not in dual_ok:
                res.violation(key + ":not-read-back", "%s::%s (%s) is not read back as %s by the decoder (see the dual:/unanalysable: finding of this arm)" % (adt, v, k, v), where=r.dec[0].where if r.dec else None, rule="R-DUAL")
            else:
                res.ok(key, "R-DUAL", "%s <-> %s" % (v, k))
    return n


def param_contract_clause(res, m, table):
    """(f) for OrderPreservingProperties<P>: every instantiation's P encodes as exactly the reviewed number of items"""
    n = 0
    for owner, c in table.get("param_arity", {}).items():
        for pname, want in c.items():
            if not isinstance(want, int):
                continue
            insts = m.instantiations(owner)
            # also look, textually, at the type tables of crates that are not loaded (cheap: no JSON parsing)
            d = facts.facts_dir(m.config)
            for fn in sorted(os.listdir(d)):
                if fn.endswith(".hir.json") and fn[:-9] not in m.crates:
                    txt = open(os.path.join(d, fn)).read()
                    for mt in re.finditer(re.escape(owner) + r"<([^\"]*?)>\"", txt):
                        t = parse_type(owner + "<" + mt.group(1) + ">")
                        if t[0] == "adt" and t[2] and t[2][0][0] != "param":
                            insts.setdefault(type_str(t), t[2])
            if not insts:
                res.notes.append("no instantiation of %s found" % owner)
            for ts, args in sorted(insts.items()):
                n += 1
                pt = args[0]
                key = "f:contract:%s" % ts
                if pt[0] == "adt" and not m.impls_of(pt[1], "enc") and pt[1].split("::")[0] not in m.crates:
                    res.violation(key + ":not-loaded", "%s instantiates %s with a type of a crate the check does not load; add the crate to C03" % (ts, owner), rule="R-SHAPE")
                    continue
                got = m.arity(pt)
                if got == want:
                    res.ok(key, "R-SHAPE", "%s encodes as %d items, as %s requires of %s" % (type_str(pt), got, owner, pname))
                else:
                    res.violation(key + ":items=%d" % got, "%s requires its parameter %s to encode as exactly %d items, but %s encodes as %d: the map header would not match its contents" % (owner, pname, want, type_str(pt), got), rule="R-SHAPE")
    return n


def run(tier):
    res = Result("C03", tier, level="other")
    table = load_table()
    m = Model(["pallas_codec", "pallas_addresses"], table=table)
    P = Program(crates=["pallas_codec"])
    adts = [a for a in m.codec_types(file_prefixes=FILES)]
    used = set()
    reps = check_types(res, m, adts, table, used)
    res.floor("hand-written Encode impls in pallas-codec/src/utils.rs", sum(len(r.enc) for r in reps.values()), 10)
    res.floor("hand-written Decode impls in pallas-codec/src/utils.rs", sum(len(r.dec) for r in reps.values()), 10)
    res.floor("encoder arms abstracted (f)", sum(1 for r in reps.values() for _, a in r.arms if a.kind == "ok"), 20)
    # (a), (e)
    capture_clause(res, m, U + "KeepRaw", "raw", "inner", [Tok("item", kinds=None, how="encode", ty="T")], "a:KeepRaw::decode", "KeepRaw::decode")
    capture_clause(res, m, U + "AnyCbor", "inner", None, [Tok("raw", val=("sym", "any", None))], "e:AnyCbor::decode", "AnyCbor::decode")
    r = reps.get(U + "AnyCbor")
    arms = [a for _, a in r.arms] if r else []
    if len(arms) == 1 and arms[0].kind == "ok" and len(arms[0].tokens) == 1 and arms[0].tokens[0].kind == "raw" and arms[0].tokens[0].val == ("sym", "self.inner", arms[0].tokens[0].val[2] if arms[0].tokens[0].val else None):
        res.ok("e:AnyCbor::encode", "R-PROV", "writes exactly the captured bytes (self.inner) through the writer and nothing else")
    else:
        res.violation("e:AnyCbor::encode:shape=%s" % ",".join(shape_str(a.tokens).replace(" ", "+") or a.kind for a in arms),
                      "AnyCbor::encode must write exactly the captured bytes verbatim; found %s" % [shape_str(a.tokens) or a.kind for a in arms], where=r.enc[0].where if r and r.enc else None, rule="R-PROV")
    # (b)
    keepraw_encode_clause(res, m)
    n_mut, n_ctor = coherence_clause(res, P)
    res.floor("functions writing or mutably borrowing KeepRaw.inner (b)", n_mut, 1)
    res.floor("KeepRaw construction sites (b)", n_ctor, 2)
    # (c)
    res.floor("def/indef and nullable table rows (c)", defindef_clause(res, m, reps), 9)
    # (d)
    res.floor("AnyUInt head forms (d)", anyuint_clause(res, m), 9)
    # (f) contract
    res.floor("generic-parameter contracts checked on instantiations (f)", param_contract_clause(res, m, table), 1)
    for a, r in sorted(reps.items()):
        for im, arm in r.arms[:2]:
            res.sample({"type": a.rsplit("::", 1)[-1], "arm": arm.label, "shape": shape_str(arm.tokens) or arm.kind})
    res.assumptions += [
        "a payload of generic type T encodes as exactly one item whose head type is none of those a wrapper's decoder names explicitly",
        "KeepRaw's fields are private to pallas_codec::utils, so every write / mutable borrow / construction is inside the crate (all of its functions are scanned)",
        "Decoder::position/input/skip behave as documented by minicbor (position = bytes consumed so far)",
    ]
    return finish(res,
                  explanation="Decides the structural clauses (a)-(f) of C03: raw-byte capture and invalidation of KeepRaw, verbatim capture/replay of AnyCbor, the def/indef and null/undefined "
                              "tables of the wrapper enums, the AnyUInt head-byte table against the CBOR additional-information table, and well-formedness + duality of every hand-written "
                              "codec in utils.rs, by abstract interpretation of the codec bodies (HIR, pv/x_codec) and ownership/flow rules on MIR.  Does not decide equality of decoded values.",
                  rule_text="R-PROV/R-ORDER (a,e), R-WRITERS/R-CTORS/R-TABLE (b), R-DUAL (c,d), R-SHAPE+R-DUAL (f)",
                  trusted_base=["rustc HIR and MIR", "spec/minicbor_duality.json (minicbor tables, RFC 8949 additional information)", "tables/codec_opaque.json"])
