#!/bin/bash
# Apply a patch to a scratch copy of /repo (never /repo itself) and run checks against it.
# usage: tools/try_patch.sh <patch.diff> [Cnn ...]     (default: every claimed check)
# prints one line per check: "<id> rc=<rc> VIOLATION|silent" and the violation messages; scratch copy is removed.
set -u
cd "$(dirname "$0")/.."
patch=$(realpath "$1"); shift
ids="$@"; [ -z "$ids" ] && ids=$(jq -r '.checks[].property_id' MANIFEST.json)
S=$(mktemp -d /var/tmp/pallas_try_XXXXXX)
rsync -a --exclude target --exclude .git /repo/ $S/
if ! (cd $S && (git apply --unsafe-paths -p1 "$patch" 2>/dev/null || patch -p1 -s < "$patch")); then
  echo "PATCH-DOES-NOT-APPLY"; rm -rf $S; exit 2
fi
for id in $ids; do
  out=$(PALLAS_REPO=$S ./check $id 2>&1); rc=$?
  if echo "$out" | grep -q '^VIOLATION'; then
    echo "$id rc=$rc VIOLATION"; echo "$out" | grep 'violation:' | cut -c1-400 | head -8
  else
    echo "$id rc=$rc silent"; [ $rc -ne 0 ] && echo "$out" | tail -5
  fi
done
rm -rf $S
