"""C38 — each implemented ledger rule rejects transactions that break only it (R-PIPE clause).

Decided, for every era pipeline validate_<era>_tx and every ledger rule of the statement's list that the era implements
(tables/pipelines.json, entries tagged C38):
  * the rule is on every accepting path: every path from the pipeline's entry to an exit that may carry Ok passes through a call
    whose callee (transitively, through propagated calls only) constructs the rule's error variant(s) — level `always`; for rules
    that are legitimately guarded below the top level (collateral rules: only with Plutus scripts; per-input datum/script checks)
    the top-level call is unconditional and the construction reachable through propagated calls — level `conditional`;
  * the verdict is propagated at every call on the way (`?`, tail return, match/if-let whose Err side only returns errors,
    map_err(..)?): a result that is dropped (`let _ =`, `.ok()`, unused) or whose Err side continues is reported;
  * the rule has not been hollowed out: some function reachable from the pipeline still constructs each error variant.
Rules are keyed by error variants; function names are labels.  Not decided: that the predicate inside a rule is the right one."""
import re
from pv.program import Program
from pv.report import Result, finish
from pv import x_pipe

PROP = "C38"


def run(tier):
    res = Result(PROP, tier, level="other")
    P = Program(crates=["pallas_validate"])
    M = x_pipe.ErrModel(P)
    table = x_pipe.load_pipelines()
    judged = 0
    for era, spec in table["eras"].items():
        pipe = P.one("^%s$" % re.escape(spec["pipeline"]))
        judged += x_pipe.check_pipeline_rules(res, M, era, spec, PROP, (PROP,))
        keys = {V for r in spec["rules"] if r.get("property") == PROP for V in r["errors"]}
        x_pipe.check_no_discard(res, M, era, spec, keys, PROP)
        live = [s for s in M.sites(pipe) if M.site_propagated(pipe, s)[0]]
        res.count("pipeline %s: propagated top-level rule calls" % era, len(live))
        res.floor("top-level rule calls:%s" % era, len(live), 3)
        res.count("pipeline %s: functions analysed" % era, len(M.closure_fns(pipe)))
        unlisted = sorted(M.can(pipe) - {V for r in spec["rules"] for V in r["errors"]})
        if unlisted:
            res.notes.append("%s: error variants returned by the pipeline that the reviewed table does not list (not judged): %s" % (era, ", ".join(unlisted)))
        res.sample({"era": era, "pipeline": pipe.path, "rules_judged": sorted(keys)[:6], "stubs": [s["label"] for s in spec.get("stubs", [])]})
    res.count("error variants judged", judged)
    res.floor("error variants judged", judged, 40)
    res.assumptions += ["tables/pipelines.json maps error variants to the ledger rules of the statement (reviewed by hand)",
                        "an error variant constructed in a function is returned on some path of that function (the predicate itself is not decided)"]
    return finish(res,
                  explanation="R-PIPE over the MIR/HIR of the five phase-1 pipelines: for each ledger rule of the statement (keyed by the error variants it reports) every "
                              "accepting path of validate_<era>_tx passes through propagated calls to a function that still constructs the variant; dropped results and "
                              "hollowed rules are reported.  The correctness of each rule's predicate is not decided.",
                  rule_text="R-PIPE(pipeline, error variant): must-pass-through + result propagation + construction reachable",
                  trusted_base=["rustc MIR/HIR", "tables/pipelines.json"])
