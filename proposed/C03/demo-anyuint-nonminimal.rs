// Demonstration for C03 clause (d) (goes to pallas-codec/tests/c03_anyuint.rs): AnyUInt must re-encode every unsigned
// integer it accepts to exactly the bytes it was decoded from.  Without the fix the non-minimal one-byte-argument items
// `18 05` and `18 17` decode to MajorByte and come back as `05` / `17`.
use pallas_codec::minicbor;
use pallas_codec::utils::AnyUInt;

fn reencode(bytes: &[u8]) -> Vec<u8> {
    let v: AnyUInt = minicbor::decode(bytes).unwrap();
    minicbor::to_vec(v).unwrap()
}

#[test]
fn nonminimal_one_byte_argument_is_preserved() {
    assert_eq!(reencode(&[0x18, 0x05]), vec![0x18, 0x05]);
    assert_eq!(reencode(&[0x18, 0x17]), vec![0x18, 0x17]);
    assert_eq!(reencode(&[0x18, 0x00]), vec![0x18, 0x00]);
}

#[test]
fn every_other_head_form_is_preserved() {
    for bytes in [
        vec![0x00],
        vec![0x17],
        vec![0x18, 0x18],
        vec![0x18, 0xff],
        vec![0x19, 0x00, 0x05],
        vec![0x19, 0x01, 0x00],
        vec![0x1a, 0x00, 0x00, 0x00, 0x05],
        vec![0x1b, 0, 0, 0, 0, 0, 0, 0, 5],
    ] {
        assert_eq!(reencode(&bytes), bytes);
    }
    let v: AnyUInt = minicbor::decode(&[0x18, 0x05]).unwrap();
    assert_eq!(u64::from(v), 5);
}
