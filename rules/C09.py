"""C09 — ledger and network decoders never panic on untrusted bytes.

Decides (structural clause): every panic-capable construct (MIR Assert{BoundsCheck, Overflow, Div/Rem by zero,
OverflowNeg}, call to a panicking std API, panic!/todo!/unreachable!/assert!) reachable from a public decode entry
point is discharged by a CFG-verified dominating guard or by a reviewed table entry (tables/panic_C09.json) whose
checked guard spec still holds.  Entry points, in five groups (one Program each: the crate plus its workspace dependencies):

  addresses  Address::{from_bytes,from_hex,from_bech32}, FromStr / TryFrom<&[u8]> for Address, ByronAddress parse fns,
             Pointer::parse, ShelleyDelegationPart::from_pointer, varuint::read, StakeAddress: TryFrom<ShelleyAddress>,
             every minicbor Decode impl of pallas-addresses
  codec      every minicbor Decode impl of pallas-codec (utils) and pallas-crypto (hash)
  ledger     MultiEraBlock::decode*, MultiEraTx::decode*, MultiEraHeader::decode, MultiEraOutput::decode,
             MultiEraUpdate::decode_for_era, the era probe, every minicbor Decode impl of pallas-primitives
  network    every minicbor Decode impl of pallas-network, multiplexer::try_decode_message, ChannelBuffer::recv_full_msg
  network2   every minicbor Decode impl of pallas-network2, behavior::try_decode_msg, Message::from_payload impls

The call graph is pv.program's (resolved callees, CHA for unresolved trait methods, closure children, type-argument
driven call-backs from external generic functions) with one refinement, `plausible_callback`: an external generic
function can only call back into the trait impls its bounds name, so minicbor's *decode* API reaches `Decode` impls
only (not `Encode`), minicbor's encode API `Encode`/`CborLen` only, `?` reaches `From` impls of the error type only, and
std reaches `Hash`/`PartialEq`/`Ord` impls only from hashing / comparison methods or for key types of ordered / hashed
collections.  Everything else stays conservative.

Guard idioms beyond the shared engine's: pv/x_rangeidx.py (range indexing, copy_from_slice, split_at against dominating
length facts), pv/x_minicbor.py (decoder-cursor idioms + Decoder::set_position discipline), pv/x_extpre.py (third-party
decoders with a demonstrated input-size precondition: base58 0.2.0 from_base58).
"""
import re

from pv.program import Program, _adts_in_type
from pv import panic
from pv.panic import strip_generics
from pv.report import Result, finish
from pv import x_rangeidx, x_minicbor, x_extpre

# Panic-capable std API that matters on decode paths and is not on the shared list in pv/panic.py: integer `sum`/`product`
# (dev-profile overflow).  Added in-process (this check's own interpreter only).
# External crates are trusted total unless listed; pv/x_extpre.py lists third-party decoders with a demonstrated panic.
_EXTRA_PANIC_APIS = [
    (r"^core::iter::traits::iterator::Iterator::(sum|product)$", "iter-sum"),
] + x_extpre.panic_api_entries()      # third-party decoders shown to panic on some inputs (base58 0.2.0 from_base58)
_have = {rx.pattern for rx, _ in panic._PANIC_RX}
for _rx, _lab in _EXTRA_PANIC_APIS:
    if _rx not in _have:
        panic._PANIC_RX.append((re.compile(_rx), _lab))

# Appendix-B idioms 1/2/6 for range indexing, copy_from_slice and split_at (pv/x_rangeidx.py), tried after the engine's own rules.
_engine_auto = panic.auto_discharge
TABLE_NAME = "panic_C09.json"
_DERIVE_GROUPS = {(e["derive"], e["kind"], e.get("sig", "*")) for e in panic.load_table(TABLE_NAME).get("derive_groups", [])}


def _in_reviewed_derive_group(site):
    fexp = site.fn.b.get("impl_expn") or site.fn.b.get("expn") or ""
    if "Derive:" not in fexp:
        return False
    grp = panic._derive_group(fexp)
    return (grp, site.kind, site.sig) in _DERIVE_GROUPS or (grp, site.kind, "*") in _DERIVE_GROUPS


def _auto_discharge(site):
    if site.kind == "Overflow:Sub":
        r = x_minicbor.discharge(site)       # cheap (no kill analysis) and covers the derive-generated `len - 1`
        if r:
            return r
    if _in_reviewed_derive_group(site):
        return None                          # judged per generated pattern by check_sites (derive_groups of the table)
    return _engine_auto(site) or x_rangeidx.discharge(site) or x_minicbor.discharge(site) or x_extpre.discharge(site)


if getattr(panic.auto_discharge, "__name__", "") != "_auto_discharge":
    panic.auto_discharge = _auto_discharge

# group name -> crates loaded for it (the crate itself plus the workspace crates it depends on)
CRATES = {
    "addresses": ["pallas_codec", "pallas_crypto", "pallas_addresses"],
    "codec": ["pallas_codec", "pallas_crypto"],
    "ledger": ["pallas_codec", "pallas_crypto", "pallas_addresses", "pallas_primitives", "pallas_traverse"],
    "network": ["pallas_codec", "pallas_crypto", "pallas_network"],
    "network2": ["pallas_codec", "pallas_crypto", "pallas_network2"],
}

# crates whose every `impl minicbor::Decode` (selected by the impl's trait, not by path spelling) is an entry of the group
DECODE_IMPL_CRATES = {
    "addresses": ["pallas_addresses"],
    "codec": ["pallas_codec", "pallas_crypto"],
    "ledger": ["pallas_primitives", "pallas_traverse"],
    "network": ["pallas_network"],
    "network2": ["pallas_network2"],
}
DECODE_TRAIT = "minicbor::decode::Decode"

GROUPS = [
    # name, regex of the named (non-trait) entry functions, floors (entries, closure), anchors that must be inside the group's closure
    ("addresses",
     r"^pallas_addresses::Address::(from_bech32|from_bytes|from_hex)$"
     r"|^<pallas_addresses::Address as core::(str::traits::FromStr|convert::TryFrom<&\[u8\]>)>::"
     r"|^pallas_addresses::byron::ByronAddress::(from_bytes|from_base58|decode|verify_crc)$"
     r"|^pallas_addresses::(Pointer::parse|ShelleyDelegationPart::from_pointer|varuint::read)$"
     r"|^<pallas_addresses::StakeAddress as core::convert::TryFrom<pallas_addresses::ShelleyAddress>>::try_from$",
     {"entries": 12, "closure": 25},
     [r"^pallas_addresses::Address::from_bytes$", r"^pallas_addresses::Address::from_bech32$", r"^pallas_addresses::Address::from_hex$",
      r"^<pallas_addresses::Address as core::str::traits::FromStr>::from_str$", r"^pallas_addresses::byron::ByronAddress::from_bytes$",
      r"^pallas_addresses::byron::ByronAddress::from_base58$", r"^pallas_addresses::byron::ByronAddress::decode$",
      r"^pallas_addresses::bytes_to_address$", r"^pallas_addresses::varuint::read$", "adt:pallas_addresses::byron::AddressPayload", "adt:pallas_addresses::byron::ByronAddress"]),
    ("codec",
     None,
     {"entries": 12, "closure": 12},
     ["adt:pallas_codec::utils::KeepRaw", "adt:pallas_crypto::hash::hash::Hash",
      "adt:pallas_codec::utils::AnyCbor"]),
    ("ledger",
     r"^pallas_traverse::block::<impl pallas_traverse::MultiEraBlock<'b>>::decode\w*$"
     r"|^pallas_traverse::tx::<impl pallas_traverse::MultiEraTx<'b>>::decode\w*$"
     r"|^pallas_traverse::header::<impl pallas_traverse::MultiEraHeader<'b>>::decode$"
     r"|^pallas_traverse::output::<impl pallas_traverse::MultiEraOutput<'b>>::decode$"
     r"|^pallas_traverse::update::<impl pallas_traverse::MultiEraUpdate<'b>>::decode_for_era$"
     r"|^pallas_traverse::probe::",
     {"entries": 60, "closure": 150},
     [r"MultiEraBlock<'b>>::decode$", r"MultiEraBlock<'b>>::decode_conway$", r"MultiEraBlock<'b>>::decode_byron$",
      r"MultiEraTx<'b>>::decode$", r"MultiEraTx<'b>>::decode_for_era$", r"MultiEraHeader<'b>>::decode$", r"MultiEraOutput<'b>>::decode$",
      r"^pallas_traverse::probe::block_era$", "adt:pallas_primitives::plutus_data::PlutusData",
      "adt:pallas_primitives::conway::model::Block", "adt:pallas_primitives::byron::model::Block"]),
    ("network",
     r"^pallas_network::multiplexer::try_decode_message$"
     r"|^pallas_network::multiplexer::ChannelBuffer::recv_full_msg",
     {"entries": 60, "closure": 100},
     [r"^pallas_network::multiplexer::try_decode_message$",
      "adt:pallas_network::miniprotocols::handshake::protocol::Message",
      "adt:pallas_network::miniprotocols::chainsync::protocol::Message",
      "adt:pallas_network::miniprotocols::blockfetch::protocol::Message",
      "adt:pallas_network::miniprotocols::txsubmission::protocol::Message",
      "adt:pallas_network::miniprotocols::keepalive::protocol::Message",
      "adt:pallas_network::miniprotocols::peersharing::protocol::Message",
      "adt:pallas_network::miniprotocols::localstate::protocol::Message",
      "adt:pallas_network::miniprotocols::localtxsubmission::protocol::Message",
      "adt:pallas_network::miniprotocols::txmonitor::protocol::Message"]),
    ("network2",
     r"^pallas_network2::behavior::try_decode_msg$"
     r"|^<pallas_network2::.* as pallas_network2::Message>::from_payload$",
     {"entries": 12, "closure": 20},
     [r"^pallas_network2::behavior::try_decode_msg$", r"^<pallas_network2::behavior::AnyMessage as pallas_network2::Message>::from_payload$",
      "adt:pallas_network2::protocol::handshake::Message", "adt:pallas_network2::protocol::chainsync::Message",
      "adt:pallas_network2::protocol::blockfetch::Message", "adt:pallas_network2::protocol::txsubmission::Message",
      "adt:pallas_network2::protocol::keepalive::Message", "adt:pallas_network2::protocol::peersharing::Message"]),
]


def group_entries(P, name, erx):
    rx = re.compile(erx) if erx else None
    own = set(DECODE_IMPL_CRATES[name])
    out = []
    for f in P.fns.values():
        if f.crate in own and f.b.get("impl_trait") == DECODE_TRAIT and f.kind == "AssocFn":
            out.append(f)
        elif rx is not None and rx.search(f.path):
            out.append(f)
    return out


# ------------------------------------------------------------------ call-graph refinement

_MINICBOR_DECODE_TRAITS = ("minicbor::decode::Decode",)
_MINICBOR_ENCODE_TRAITS = ("minicbor::encode::Encode", "minicbor::encode::encoder::CborLen", "minicbor::encode::CborLen",
                           "minicbor::encode::write::Write", "minicbor::encode::Write")

# std comparison / hashing traits are called back by std only from these APIs (regex on the external callee path
# with generics stripped, or on its type arguments: `collect::<BTreeMap<..>>`)
_CMP_METHODS = (r"::(eq|ne|cmp|partial_cmp|lt|le|gt|ge|max|min|clamp|max_by_key|min_by_key|dedup|contains|starts_with|ends_with|"
                r"strip_prefix|strip_suffix|binary_search|is_sorted|select_nth_unstable)$|::sort|assert_failed")
_STD_CALLERS = {
    "core::hash::Hash": re.compile(r"::(hash|hash_one|hash_slice)$"),
    "core::cmp::PartialEq": re.compile(_CMP_METHODS + r"|::(split|matches|find|replace|position)$"),
    "core::cmp::Ord": re.compile(_CMP_METHODS),
}
# container methods that never compare or hash their elements even though the container type is an ordered / hashed one
_NON_COMPARING = re.compile(r"::(clone|clone_from|fmt|drop|len|is_empty|iter|iter_mut|into_iter|default|new|keys|values|values_mut|into_keys|"
                            r"into_values|clear|first_key_value|last_key_value|pop_first|pop_last|next|next_back|size_hint)$")
_STD_CALLERS["core::cmp::Eq"] = _STD_CALLERS["core::cmp::PartialEq"]
_STD_CALLERS["core::cmp::PartialOrd"] = _STD_CALLERS["core::cmp::Ord"]
# ordered / hashed collections compare or hash their *keys* (first type argument) only
_KEYED = re.compile(r"(?<![A-Za-z0-9_])(?:BTreeMap|BTreeSet|HashMap|HashSet|BinaryHeap)<")


def _key_types(tys):
    out = []
    for ty in tys:
        for m in _KEYED.finditer(ty):
            depth, j = 0, m.end() - 1
            for j in range(m.end() - 1, len(ty)):
                if ty[j] == "<":
                    depth += 1
                elif ty[j] == ">":
                    depth -= 1
                    if depth == 0:
                        break
            args = _top_level_args(ty[m.start():j + 1])
            if args:
                out.append(args[0])
    return out


def _top_level_args(ty):
    """`A<B<C>, D>` -> ["B<C>", "D"]"""
    i = ty.find("<")
    if i < 0 or not ty.endswith(">"):
        return []
    out, depth, cur = [], 0, []
    for ch in ty[i + 1:-1]:
        if ch in "<([":
            depth += 1
        elif ch in ">)]":
            depth -= 1
        if ch == "," and depth == 0:
            out.append("".join(cur).strip())
            cur = []
        else:
            cur.append(ch)
    if cur:
        out.append("".join(cur).strip())
    return out


def plausible_callback(ext_callee, targs, target):
    """May the external generic function `ext_callee` (instantiated with `targs`) call the workspace trait impl `target`?"""
    tr = target.b.get("impl_trait")
    if not tr:
        return True
    s = strip_generics(ext_callee)
    if s.startswith("minicbor::"):
        if re.match(r"^minicbor::(decode\b|Decoder)", s):
            return tr in _MINICBOR_DECODE_TRAITS
        if re.match(r"^minicbor::(encode\b|Encoder|to_vec|len\b|CborLen)", s):
            return tr in _MINICBOR_ENCODE_TRAITS
        return True
    if tr == "core::convert::From" and s.endswith("FromResidual::from_residual") and targs:
        # `?` on Result<T, F>: from_residual is `Err(From::from(e))`, the only call-back is `<F as From<E>>::from`
        parts = _top_level_args(targs[0])
        if targs[0].startswith("core::result::Result<") and len(parts) == 2:
            return (target.b.get("impl_adt") or "") in _adts_in_type(parts[1])
    if tr == "core::convert::From" and re.search(r"::(map_err|map|and_then|or_else|unwrap_or_else|ok_or_else|map_or|map_or_else)$", s):
        # closure-taking combinators call back only through the closure / fn item they are given; a `From` impl is reached
        # only when that fn item is `<X as From<Y>>::from` / `Into::into` itself (it is then one of the type arguments)
        return any(re.search(r"::(from|into)\}", t) for t in targs)
    rx = _STD_CALLERS.get(tr)
    if rx is not None and s.split("::", 1)[0] in ("core", "alloc", "std"):
        if _NON_COMPARING.search(s):
            return False
        if rx.search(s):
            return True
        adt = target.b.get("impl_adt") or ""
        return any(adt in _adts_in_type(k) for k in _key_types([ext_callee] + list(targs)))
    return True


def refined_callees(P, f):
    out = []
    for g, t, bi in P.callees(f):
        tgt = t.get("f")
        if tgt is not None and tgt not in P.fns and not t.get("local"):
            if not plausible_callback(tgt, t.get("targs") or [], g):
                continue
        out.append(g)
    return out + P.closure_children(f)


def refined_closure(P, entries):
    seen = {}
    work = []
    for e in entries:
        if e.path not in seen:
            seen[e.path] = (e, None)
            work.append(e)
    while work:
        f = work.pop()
        for g in refined_callees(P, f):
            if g.path not in seen:
                seen[g.path] = (g, f.path)
                work.append(g)
    return seen


def unloaded_local_callees(P, closure):
    """Workspace callees whose body is not in the loaded facts (would make the closure blind)."""
    out = []
    for p, (f, _) in closure.items():
        for bi, t in f.calls():
            tgt = t.get("f")
            if tgt is not None and t.get("local") and tgt not in P.fns:
                out.append((p, tgt))
    return out


RULE = ("R-PANIC: every MIR Assert{BoundsCheck,Overflow,DivisionByZero,RemainderByZero,OverflowNeg} and every call to a panicking API "
        "(unwrap/expect, slice/str indexing, copy_from_slice, split_at, Vec::drain/remove/insert, panic!/todo!/unreachable!/assert!, ...) "
        "in closure(decode entry points of pallas-addresses, -codec, -crypto, -primitives, -traverse, -network, -network2) must be discharged "
        "by a CFG-verified dominating guard or by a reviewed table entry whose checked guard spec still holds; sites generated by "
        "#[derive(Decode)] are discharged per generated pattern")


def run(tier):
    res = Result("C09", tier, level="other")
    table = panic.load_table(TABLE_NAME)
    seen_sites = set()
    seen_fns = set()
    skipped = {"unjudged_asserts": 0, "fmt_expansion": 0}
    n_sites = 0
    for name, erx, floors, anchors in GROUPS:
        P = Program(crates=CRATES[name], config="default")
        entries = group_entries(P, name, erx)
        closure = refined_closure(P, entries)
        res.count("entries[%s]" % name, len(entries))
        res.count("closure_functions[%s]" % name, len(closure))
        res.floor("decode entry points [%s]" % name, len(entries), floors["entries"])
        res.floor("closure functions [%s]" % name, len(closure), floors["closure"])
        decoded_adts = {f.b.get("impl_adt") for f, _ in closure.values() if f.b.get("impl_trait") == DECODE_TRAIT}
        for need in anchors:
            if need.startswith("adt:"):
                found = need[4:] in decoded_adts
            else:
                found = any(re.search(need, p) for p in closure)
            if not found:
                res.violation("anchor:%s:%s" % (name, need), "anchored function %s not found in the %s decode closure" % (need, name), rule="anchor")
        sites = []
        for p, (f, _) in closure.items():
            if p in seen_fns:
                continue            # already judged in an earlier group (same body, same facts)
            seen_fns.add(p)
            ss, sk = panic.enumerate_sites(f)
            sites.extend(ss)
            for k, v in sk.items():
                skipped[k] += v
            if f.b.get("unsafe"):
                res.violation("unsafe:" + p, "unsafe fn in the decode closure; the panic census does not cover UB", rule="R-PANIC/unsafe")
        for p, tgt in unloaded_local_callees(P, closure):
            res.violation("unloaded:" + tgt, "workspace callee %s of %s has no body in the loaded facts; the closure is incomplete" % (tgt, p),
                          rule="R-PANIC/closure")
        n_sp, bad_sp = x_minicbor.set_position_discipline(P)
        res.count("set_position_calls[%s]" % name, n_sp)
        for fp, where, why in bad_sp:
            res.violation("set_position:" + fp, "%s — the raw-byte capture of KeepRaw/AnyCbor (`input()[p0..p1]`) relies on the decoder "
                          "cursor never ending before where it started" % why, where=where, rule="R-PANIC/cursor")
        if not bad_sp:
            res.ok("set_position[%s]" % name, "R-PANIC/cursor", "%d Decoder::set_position calls, all local rewinds" % n_sp)
        res.count("panic_sites[%s]" % name, len(sites))
        n_sites += len(sites)
        panic.check_sites(res, P, closure, sites, table, "C09")
        for s in sites[:4]:
            res.sample({"group": name, "site": s.key(), "where": s.where(), "operands": s.detail})
    for k, v in skipped.items():
        res.count("skipped_" + k, v)
    res.floor("panic sites", n_sites, 40)
    res.assumptions += [
        "dev-profile panic semantics (overflow checks on), as in the pinned test suite",
        "minicbor, hex, bech32, crc and std APIs not on the panicking list are total (minicbor's Decoder returns errors); base58's "
        "from_base58 is total under the size precondition listed in pv/x_extpre.py (only the presence, polarity and constant of the "
        "size test are verified)",
        "an external generic function calls back only into trait impls its bounds allow (minicbor decode API -> Decode impls only; "
        "std reaches Hash/PartialEq/Ord impls only from hashing, comparison and ordered-collection APIs)",
        "inputs are shorter than 2^31 bytes (per-item counters generated by #[derive(Decode)] are i32/u64 and advance once per input item)",
        "stack exhaustion by deeply nested CBOR (recursive decoders) is an abort, not a panic, and is not judged",
    ]
    return finish(res,
                  explanation="Decides the structural clause of C09: no panic-capable construct is reachable from the public ledger / address / "
                              "mini-protocol decode entry points without a checked guard or a reviewed reason. No decoder is executed; "
                              "allocation failure, stack depth and the internals of minicbor/std are not judged.",
                  rule_text=RULE,
                  trusted_base=["rustc MIR (nightly, opt-level 0, overflow checks on)", "tables/panic_C09.json (reviewed reasons)",
                                "panicking-API list in pv/panic.py", "call-back plausibility table in rules/C09.py"])
