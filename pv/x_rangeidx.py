"""Guard rules for range indexing and length-coupled slice operations (DESIGN Appendix B, idioms 1, 2 and 6).

`discharge(site)` returns a reason string when a CFG-verified, kill-checked dominating fact proves that

  * `base[lo..hi]`, `base[lo..=hi]`, `base[lo..]`, `base[..hi]`, `base[..=hi]`, `base[..]` cannot go out of bounds:
    the bounds are constants and a dominating comparison on `base.len()` (any spelling / polarity, early return or
    nested if), a fixed array length, or a dominating successful `first()/last()/split_first()/split_last()` on the
    same base gives `len >= needed`;  or both bounds are the same symbolic value compared against the length;
  * `dst.copy_from_slice(src)` has equal lengths: `dst` is a fixed-size array `[T; N]` and a dominating fact says
    `src.len() == N` (N a constant or the same const generic); or both lengths are statically equal by type / by
    construction: fixed-size arrays (through the unsize cast), `<int>::to_{be,le,ne}_bytes()`, elements yielded by
    `chunks_exact(_mut)(N)` / `windows(N)` with constant N (seen through `zip`, `enumerate`, `rev`, `take`, ... and a
    `for` loop's iterator local);
  * `split_at(mid)` with a constant `mid` not above the proven minimum length;
  * length facts across workspace functions: a dominating *successful* call of a helper whose every `Ok`/`Some` exit is
    itself dominated by `len(param) >= bound` (`ensure_min_len(payload, K)?`), and, for a crate-private function that is
    never used as a value, the minimum over *all* its call sites of the length proven for the argument at the call
    (guard in the caller), one more level up if needed;
  * `x - c` (unsigned) under a dominating `x != 0` / `x >= c` on the value before a widening conversion
    (`usize::from(v) - 1` after `if v == 0 { return }`).

Everything is read from MIR facts (resolved callee paths, types, dominance); no names or source text.
"""
import re

from . import guards
from .panic import strip_generics, _len_of, _same_place, _is_const, _cv, _operand_ty
from .mir import pl_local, pl_proj

_UBITS = {"u8": 8, "u16": 16, "u32": 32, "u64": 64, "usize": 64, "u128": 128}
_NONEMPTY_RX = re.compile(r"^core::slice::(first|last|split_first|split_last|first_mut|last_mut)$")
_PASS_RX = re.compile(r"(::branch|::ok_or|::ok_or_else|::as_ref|::copied|::cloned|::map_err|::ok)$")


def _strip_refs(x):
    while x[0] in ("ref", "deref") or (x[0] == "cast" and "Unsize" in str(x[-1])):
        x = x[1]
    return x


def _fold(sym, depth=4):
    """Value of a compile-time constant expression (`K + 1`, `2 * K` keep their checked-arithmetic shape in opt-level-0 MIR)."""
    if sym[0] == "const":
        try:
            return int(sym[1])
        except (TypeError, ValueError):
            return None
    if depth <= 0:
        return None
    if sym[0] == "field" and str(sym[2]) == "0" and sym[1][0] == "bin" and sym[1][1].endswith("WithOverflow"):
        return _fold(("bin", sym[1][1][:-len("WithOverflow")], sym[1][2], sym[1][3]), depth)
    if sym[0] == "bin" and sym[1] in ("Add", "Sub", "Mul"):
        a, b = _fold(sym[2], depth - 1), _fold(sym[3], depth - 1)
        if a is None or b is None:
            return None
        return a + b if sym[1] == "Add" else a - b if sym[1] == "Sub" else a * b
    return None


def _same(a, b):
    """Same memory: structurally equal symbolic values, or the same place chain."""
    return a == b or _same_place(a, b)


def _array_len_of_type(ty):
    m = re.search(r"\[[^\[\];]+; ([^\[\]]+)\]\s*$", ty or "")
    if not m:
        return None
    n = m.group(1).strip()
    n = re.sub(r"_?usize$", "", n)
    return int(n) if n.isdigit() else ("constsym", n)


def _fixed_len(fn, sym):
    """Length of a value that is (a reference to) a fixed-size array: int, ("constsym", name) or None."""
    x = sym
    while True:
        if x[0] == "cast" and len(x) >= 4 and "Unsize" in str(x[-1]):
            n = _array_len_of_type(x[2])
            if n is not None:
                return n
            x = x[1]
        elif x[0] in ("ref", "deref"):
            x = x[1]
        else:
            break
    if x[0] in ("local", "param"):
        ty = fn.local_ty(x[1]) if isinstance(x[1], int) else None
        if ty:
            ty = re.sub(r"^&(?:'\w+ )?(?:mut )?", "", ty)
            m = re.match(r"^\[[^\[\];]+; ([^\[\]]+)\]$", ty)
            if m:
                return _array_len_of_type(ty)
    return None


# ------------------------------------------------------------------ lengths known by construction / by type

_CHUNKS_RX = re.compile(r"^core::slice::(chunks_exact|chunks_exact_mut|rchunks_exact|rchunks_exact_mut|array_chunks|array_windows|windows)$")
_NEXT_RX = re.compile(r" as core::iter::traits::(iterator::Iterator::next|double_ended::DoubleEndedIterator::next_back)$")
_INT_BYTES_RX = re.compile(r"^core::num::(to_be_bytes|to_le_bytes|to_ne_bytes)$")
# iterator adaptors that hand the elements of their (first) argument through unchanged
_ITER_PASS_RX = re.compile(r"(::into_iter|::iter|::iter_mut|::rev|::take|::skip|::step_by|::by_ref|::fuse|::peekable|::skip_while|::take_while|"
                           r"::filter|::inspect|::chain)$")
_ZIP_RX = re.compile(r"::zip$")
_ENUMERATE_RX = re.compile(r"::enumerate$")


def _iter_construction(fn, sym, hops=8):
    """Symbolic value an iterator was constructed from.  A named iterator local is mutably borrowed by `next`, so the
    engine does not substitute it; its *construction* (exactly one full definition, no partial writes) is still unique."""
    while hops > 0:
        hops -= 1
        x = sym
        while x[0] in ("ref", "deref"):
            x = x[1]
        if x[0] != "local" or not isinstance(x[1], int):
            return x
        ds = fn.defs().get(x[1], [])
        if len(ds) != 1 or ds[0][2] not in ("assign", "call"):
            return x
        bi, si, kind, payload = ds[0]
        if kind == "call":
            return ("call", payload.get("f") or payload.get("g") or "", tuple(fn.sym_operand(a) for a in payload.get("args", [])), bi)
        rv = payload[2]
        if rv.get("k") == "use":
            sym = fn.sym_operand(rv["x"])
            if sym == x:
                return x
            continue
        return x
    return sym


def _element_len(fn, it, path, hops=10):
    """Length (int) of the slice elements yielded by iterator value `it` at tuple position `path` (list of field indices,
    outermost first) — known when the elements come from `chunks_exact(_mut)(N)` / `windows(N)` with a constant N."""
    while hops > 0:
        hops -= 1
        it = _iter_construction(fn, it)
        if it[0] != "call":
            return None
        name = strip_generics(it[1])
        args = it[2]
        if _CHUNKS_RX.search(name) and len(args) == 2 and not path:
            n = args[1]
            if _is_const(n) and _cv(n) > 0:
                return _cv(n)
            return None
        if _ZIP_RX.search(name) and len(args) == 2 and path:
            it, path = args[path[0]] if path[0] in (0, 1) else None, path[1:]
            if it is None:
                return None
            continue
        if _ENUMERATE_RX.search(name) and len(args) == 1 and path and path[0] == 1:
            it, path = args[0], path[1:]
            continue
        if _ITER_PASS_RX.search(name) and args:
            it = args[0]
            continue
        return None
    return None


def _static_len(fn, sym):
    """Length of a slice-typed value that is fixed by its type or by construction: a fixed-size array (through the unsize
    cast), `<int>::to_{be,le,ne}_bytes()` (array by type), or an element of `chunks_exact(_mut)(N)`-style iteration."""
    n = _fixed_len(fn, sym)
    if n is not None:
        return n
    x = sym
    while x[0] in ("ref", "deref") or (x[0] == "cast" and "Unsize" in str(x[-1])):
        x = x[1]
    # element of an iterator: (downcast(next(&it), Some).0).<k>...  -> follow the tuple path back to the constructor
    path = []
    y = x
    while y[0] == "field":
        try:
            path.insert(0, int(y[2]))
        except (TypeError, ValueError):
            return None
        y = y[1]
    if y[0] == "downcast" and str(y[2]) in ("Some", "1") and path and path[0] == 0:
        c = y[1]
        if c[0] == "call" and _NEXT_RX.search(strip_generics(c[1])) and len(c[2]) == 1:
            return _element_len(fn, c[2][0], path[1:])
    return None



# ------------------------------------------------------------------ interprocedural length facts (workspace helpers)

def _program():
    from . import mir
    return mir._PROGRAM[0]


_SUMMARY_CACHE = {}


def helper_len_summary(prog, path):
    """For a workspace function H: list of (slice param index, ("p", param index, slack) | ("c", value)) such that
    *every* block of H that builds the success value (`Ok(..)` / `Some(..)` into the return place) is dominated by the
    kill-checked fact `len(param) >= bound`.  Empty when H assigns its result in any other way (call result, copy of
    another value): then nothing is known about its success."""
    key = (id(prog), path)
    if key in _SUMMARY_CACHE:
        return _SUMMARY_CACHE[key]
    _SUMMARY_CACHE[key] = []
    h = prog.fns.get(path) if prog is not None else None
    out = None
    if h is not None and len(h.blocks) <= 60:
        ok = True
        succ_blocks = []
        for bi in h.live_blocks():
            b = h.blocks[bi]
            t = b["term"]
            if t["k"] == "call" and pl_local(t["dest"]) == 0:
                ok = False
            for st in b["st"]:
                if st[0] == "a" and pl_local(st[1]) == 0:
                    rv = st[2]
                    if pl_proj(st[1]) or rv.get("k") != "agg" or rv.get("ak") != "adt":
                        ok = False
                    elif (rv.get("adt"), rv.get("variant")) in (("core::result::Result", "Ok"), ("core::option::Option", "Some")):
                        succ_blocks.append(bi)
                    elif (rv.get("adt"), rv.get("variant")) not in (("core::result::Result", "Err"), ("core::option::Option", "None")):
                        ok = False
        if ok and succ_blocks:
            for bi in succ_blocks:
                here = set()
                for f in guards.facts_at_term(h, bi):
                    for op, l, r in f.oriented():
                        lb = _len_of(l)
                        if lb is None:
                            continue
                        lb = _strip_refs(lb)
                        if lb[0] != "param" or op not in ("Ge", "Gt", "Eq"):
                            continue
                        slack = 1 if op == "Gt" else 0
                        if r[0] == "param":
                            here.add((lb[1], ("p", r[1], slack)))
                        elif _is_const(r):
                            here.add((lb[1], ("c", _cv(r) + slack)))
                out = here if out is None else (out & here)
    res = sorted(out) if out else []
    _SUMMARY_CACHE[key] = res
    return res


def _helper_success_len(fn, fact, base):
    """Constant K with len(base) >= K implied by `fact` = "workspace helper H(.., base, .., K, ..) succeeded"."""
    if fact.op != "Eq" or fact.r[0] != "const" or fact.l[0] != "discr":
        return 0
    x = fact.l[1]
    want = 0                                   # Result::Ok / ControlFlow::Continue
    if x[0] == "call" and strip_generics(x[1]).endswith("::branch") and x[2]:
        x = x[2][0]
    if x[0] != "call":
        return 0
    prog = _program()
    if prog is None or x[1] not in prog.fns:
        return 0
    h = prog.fns[x[1]]
    if "core::option::Option" in (h.b.get("sig") or "").rsplit("->", 1)[-1] and fact.l[1] is x:
        want = 1                               # Option::Some tested directly
    if int(fact.r[1]) != want:
        return 0
    k = 0
    args = x[2]
    for pi, bound in helper_len_summary(prog, x[1]):
        if not (1 <= pi <= len(args)) or not _same(_strip_refs(args[pi - 1]), base):
            continue
        if bound[0] == "c":
            k = max(k, bound[1])
        elif 1 <= bound[1] <= len(args) and _fold(args[bound[1] - 1]) is not None:
            k = max(k, _fold(args[bound[1] - 1]) + bound[2])
    return k


_FNPTR_CACHE = {}


def _address_taken(prog):
    """Paths of workspace functions used as values (fn pointers / fn items passed around) anywhere in the loaded crates."""
    key = id(prog)
    if key in _FNPTR_CACHE:
        return _FNPTR_CACHE[key]
    out = set()

    def walk(x):
        if isinstance(x, dict):
            fnv = x.get("fn")
            if isinstance(fnv, str):
                out.add(fnv)
            for v in x.values():
                walk(v)
        elif isinstance(x, (list, tuple)):
            for v in x:
                walk(v)
    for f in prog.fns.values():
        for b in f.blocks:
            walk(b["st"])
            t = b["term"]
            walk(t.get("args"))
            if t["k"] != "call":
                walk(t)
    _FNPTR_CACHE[key] = out
    return out


def caller_min_len(fn, base_sym, depth=2):
    """Largest K such that *every* call site of the crate-private function `fn` passes, for the parameter `base_sym` is
    rooted in, a slice whose length is proven >= K at the call (the callers' own guards, helper summaries, and — one more
    level — their callers).  0 when `fn` is public, a trait method, used as a value, or has no call site."""
    base = _strip_refs(base_sym)
    if base[0] != "param" or depth <= 0:
        return 0
    prog = _program()
    if prog is None or fn.kind not in ("Fn", "AssocFn") or fn.b.get("impl_trait"):
        return 0
    if not str(fn.b.get("vis") or "").startswith("Restricted"):
        return 0
    if fn.path in _address_taken(prog):
        return 0
    pi = base[1]
    ks = []
    for g in prog.fns.values():
        for bi, t in g.calls():
            if (t.get("f") or t.get("g")) != fn.path:
                continue
            args = t.get("args") or []
            if not (1 <= pi <= len(args)):
                return 0
            a = g.sym_operand(args[pi - 1])
            k, _, _ = min_len(g, guards.facts_at_term(g, bi), a)
            if k == 0:
                k = caller_min_len(g, a, depth - 1)
            ks.append(k)
    return min(ks) if ks else 0



def _success_nonempty(fact, base):
    """Does the fact say that first()/last()/split_*() of `base` returned Some (possibly seen through ok_or + `?`)?"""
    if fact.op != "Eq" or fact.r[0] != "const" or fact.l[0] != "discr":
        return False
    x = fact.l[1]
    want = None
    hops = 0
    while x[0] == "call" and hops < 6:
        hops += 1
        name = strip_generics(x[1])
        if _NONEMPTY_RX.search(name) and len(x[2]) == 1:
            b = _strip_refs(x[2][0])
            if not _same(b, base):
                return False
            if want is None:
                want = 1            # Option discriminant: Some == 1
            return int(fact.r[1]) == want
        if name.endswith("::branch") and x[2]:
            if want is None:
                want = 0            # ControlFlow::Continue == 0
            x = x[2][0]
            continue
        if _PASS_RX.search(name) and x[2]:
            x = x[2][0]
            continue
        return False
    return False


def min_len(fn, facts, base_sym):
    """Largest constant K with len(base) >= K proven by the facts (0 if none); plus the set of symbolic values S with
    len(base) >= S or len(base) == S."""
    base = _strip_refs(base_sym)
    k = 0
    sym_ge = []
    sym_eq = []
    fl = _fixed_len(fn, base_sym)
    if isinstance(fl, int):
        k = fl
    elif fl is not None:
        sym_eq.append(fl)
    for f in facts:
        if _success_nonempty(f, base):
            k = max(k, 1)
        k = max(k, _helper_success_len(fn, f, base))
        for op, l, r in f.oriented():
            lb = _len_of(l)
            if lb is None or not _same(_strip_refs(lb), base):
                continue
            if _is_const(r):
                c = _cv(r)
                if op in ("Ge", "Eq"):
                    k = max(k, c)
                elif op == "Gt":
                    k = max(k, c + 1)
                elif op == "Ne" and c == 0:
                    k = max(k, 1)
            else:
                if op in ("Ge", "Eq"):
                    sym_ge.append(r)
                if op == "Eq":
                    sym_eq.append(r)
                if op == "Gt":
                    sym_ge.append(r)
    return k, sym_ge, sym_eq


def _range_of(sym):
    """(kind, lo, hi) for a range-typed index argument; None if not a recognised range constructor."""
    if sym[0] == "agg":
        adt = sym[1]
        fs = sym[3]
        if adt.endswith("::RangeFull"):
            return ("full", None, None)
        if adt.endswith("::RangeFrom") and len(fs) == 1:
            return ("from", fs[0], None)
        if adt.endswith("::RangeTo") and len(fs) == 1:
            return ("to", None, fs[0])
        if adt.endswith("::RangeToInclusive") and len(fs) == 1:
            return ("to_incl", None, fs[0])
        if adt.endswith("::Range") and len(fs) == 2:
            return ("range", fs[0], fs[1])
    if sym[0] == "call" and strip_generics(sym[1]).endswith("RangeInclusive::new") and len(sym[2]) == 2:
        return ("incl", sym[2][0], sym[2][1])
    return None


def _is_sym_const(x):
    return x[0] == "constsym"


def discharge(site):
    fn = site.fn
    t = site.term
    args = t.get("args") or []
    if site.kind in ("call:slice-index",) and len(args) == 2:
        base = fn.sym_operand(args[0])
        rng = _range_of(fn.sym_operand(args[1]))
        if rng is None:
            return None
        kind, lo, hi = rng
        if kind == "full":
            return "full range `[..]` never goes out of bounds"
        facts = guards.facts_at_term(fn, site.bb)
        k, sym_ge, sym_eq = min_len(fn, facts, base)
        need = max([_cv(x) for x in (lo, hi) if x is not None and _is_const(x)] + [0]) + (1 if kind in ("incl", "to_incl") else 0)
        if k < need:
            k = max(k, caller_min_len(fn, base))   # guard established by every caller of this crate-private helper
        lo_c = _cv(lo) if lo is not None and _is_const(lo) else None
        hi_c = _cv(hi) if hi is not None and _is_const(hi) else None
        if kind == "from" and lo_c is not None and lo_c <= k:
            return "dominating guard: len >= %d before `[%d..]`" % (k, lo_c)
        if kind == "to" and hi_c is not None and hi_c <= k:
            return "dominating guard: len >= %d before `[..%d]`" % (k, hi_c)
        if kind == "to_incl" and hi_c is not None and hi_c < k:
            return "dominating guard: len >= %d before `[..=%d]`" % (k, hi_c)
        if kind == "range" and lo_c is not None and hi_c is not None and lo_c <= hi_c <= k:
            return "dominating guard: len >= %d before `[%d..%d]`" % (k, lo_c, hi_c)
        if kind == "incl" and lo_c is not None and hi_c is not None and lo_c <= hi_c + 1 and hi_c < k:
            return "dominating guard: len >= %d before `[%d..=%d]`" % (k, lo_c, hi_c)
        # symbolic upper bound compared against the length of the same base, constant (or absent) lower bound 0
        if kind == "to" and hi is not None and any(hi == s for s in sym_ge):
            return "dominating guard: len >= bound before `[..bound]`"
        if kind == "range" and lo_c == 0 and hi is not None and any(hi == s for s in sym_ge):
            return "dominating guard: len >= bound before `[0..bound]`"
        return None
    if site.kind == "call:copy_from_slice" and len(args) == 2:
        dst = fn.sym_operand(args[0])
        src = fn.sym_operand(args[1])
        nd, ns = _static_len(fn, dst), _static_len(fn, src)
        if nd is not None and nd == ns:
            return "source and destination lengths are statically equal (%s) by type / by construction" % (nd if isinstance(nd, int) else nd[1])
        n = _fixed_len(fn, dst)
        if n is None:
            return None
        facts = guards.facts_at_term(fn, site.bb)
        k, sym_ge, sym_eq = min_len(fn, facts, src)
        if isinstance(n, int):
            # need len(src) == n exactly
            for f in facts:
                for op, l, r in f.oriented():
                    lb = _len_of(l)
                    if lb is not None and _same(_strip_refs(lb), _strip_refs(src)) and op == "Eq" and _is_const(r) and _cv(r) == n:
                        return "dominating guard: source length == %d == destination array length" % n
            fs = _fixed_len(fn, src)
            if isinstance(fs, int) and fs == n:
                return "source and destination are arrays of the same fixed length %d" % n
            return None
        for s in sym_eq:
            if s[0] == "constsym" and (s[1] == n[1]):
                return "dominating guard: source length == const generic %s == destination array length" % n[1]
        return None
    if site.kind == "Overflow:Sub":
        a_op, b_op = t["ops"]
        a, b = fn.sym_operand(a_op), fn.sym_operand(b_op)
        aty = _operand_ty(fn, a_op) or ""
        if not (_is_const(b) and aty.startswith("u")):
            return None
        c = _cv(b)
        # look through value-preserving widenings of an unsigned value: `usize::from(x)`, `x as usize`, `x.into()`
        x = a
        for _ in range(4):
            if x[0] == "call" and re.search(r"^(u16|u32|u64|u128|usize) as core::convert::From::from$|^core::convert::num::from$|core::convert::Into::into$",
                                            strip_generics(x[1])) and len(x[2]) == 1:
                x = x[2][0]
            elif x[0] == "cast" and len(x) >= 5 and x[4] == "IntToInt" and str(x[2]).startswith("u") and str(x[3]).startswith("u") \
                    and _UBITS.get(x[2], 999) <= _UBITS.get(x[3], 0):
                x = x[1]
            else:
                break
        for f in guards.facts_at_term(fn, site.bb):
            for op, l, r in f.oriented():
                if l not in (a, x) or not _is_const(r):
                    continue
                v = _cv(r)
                if (op == "Ne" and v == 0 and c == 1) or (op == "Ge" and v >= c) or (op == "Gt" and v + 1 >= c):
                    return "dominating guard: value %s %d before - %d (seen through a widening conversion)" % (op, v, c)
        return None
    if site.kind == "call:split_at" and len(args) == 2:
        base = fn.sym_operand(args[0])
        mid = fn.sym_operand(args[1])
        facts = guards.facts_at_term(fn, site.bb)
        k, sym_ge, sym_eq = min_len(fn, facts, base)
        if _is_const(mid) and _cv(mid) <= k:
            return "dominating guard: len >= %d before split_at(%d)" % (k, _cv(mid))
        if any(mid == s for s in sym_ge):
            return "dominating guard: len >= mid before split_at(mid)"
        return None
    return None
