//! Message reassembly must not depend on where the sender cut the byte stream into segments.

use pallas_codec::minicbor;
use pallas_network::miniprotocols::{localtxsubmission, txmonitor};
use pallas_network::multiplexer::{Bearer, ChannelBuffer, Plexer};

const PROTOCOL: u16 = 9;

/// `[6, [era, #6.24(bytes)]]`
fn response_next_tx_some() -> Vec<u8> {
    let msg = txmonitor::Message::ResponseNextTx(Some((
        5,
        pallas_codec::utils::TagWrap::new(pallas_codec::utils::Bytes::from(vec![1u8, 2, 3])),
    )));
    minicbor::to_vec(&msg).unwrap()
}

async fn connected_pair() -> (Plexer, Plexer) {
    let (a, b) = tokio::net::UnixStream::pair().unwrap();
    (Plexer::new(Bearer::Unix(a)), Plexer::new(Bearer::Unix(b)))
}

#[tokio::test]
async fn txmonitor_response_split_right_after_the_label() {
    let bytes = response_next_tx_some();

    // end to end: the message delivered as two segments, cut after `82 06`
    let (mut server, mut client) = connected_pair().await;
    let mut sender = server.subscribe_server(PROTOCOL);
    let mut receiver = ChannelBuffer::new(client.subscribe_client(PROTOCOL));
    let server = server.spawn();
    let client = client.spawn();

    sender.enqueue_chunk(bytes[..2].to_vec()).await.unwrap();
    sender.enqueue_chunk(bytes[2..].to_vec()).await.unwrap();

    let msg: txmonitor::Message = receiver.recv_full_msg().await.unwrap();
    assert!(
        matches!(msg, txmonitor::Message::ResponseNextTx(Some((5, _)))),
        "got {msg:?}"
    );

    server.abort().await;
    client.abort().await;

    // decoder level: a truncated buffer asks for more bytes, it is not a message
    let partial: Result<txmonitor::Message, _> = minicbor::decode(&bytes[..2]);
    assert!(
        matches!(&partial, Err(e) if e.is_end_of_input()),
        "truncated ResponseNextTx decoded as {partial:?}"
    );
}

#[tokio::test]
async fn txmonitor_empty_response_followed_by_another_message_in_one_segment() {
    let mut bytes = minicbor::to_vec(txmonitor::Message::ResponseNextTx(None)).unwrap();
    bytes.extend(response_next_tx_some());

    let (mut server, mut client) = connected_pair().await;
    let mut sender = server.subscribe_server(PROTOCOL);
    let mut receiver = ChannelBuffer::new(client.subscribe_client(PROTOCOL));
    let server = server.spawn();
    let client = client.spawn();

    sender.enqueue_chunk(bytes).await.unwrap();

    let first: txmonitor::Message = receiver.recv_full_msg().await.unwrap();
    assert!(
        matches!(first, txmonitor::Message::ResponseNextTx(None)),
        "got {first:?}"
    );
    let second: txmonitor::Message = receiver.recv_full_msg().await.unwrap();
    assert!(
        matches!(second, txmonitor::Message::ResponseNextTx(Some((5, _)))),
        "got {second:?}"
    );

    server.abort().await;
    client.abort().await;
}

type SubmitMessage =
    localtxsubmission::Message<localtxsubmission::EraTx, localtxsubmission::TxValidationError>;

#[tokio::test]
async fn localtxsubmission_empty_segment_is_not_a_rejection() {
    // end to end: an empty segment followed by the message
    let bytes = minicbor::to_vec(SubmitMessage::AcceptTx).unwrap();

    let (mut server, mut client) = connected_pair().await;
    let mut sender = server.subscribe_server(PROTOCOL);
    let mut receiver = ChannelBuffer::new(client.subscribe_client(PROTOCOL));
    let server = server.spawn();
    let client = client.spawn();

    sender.enqueue_chunk(vec![]).await.unwrap();
    sender.enqueue_chunk(bytes).await.unwrap();

    let msg: SubmitMessage = receiver.recv_full_msg().await.unwrap();
    assert!(matches!(msg, SubmitMessage::AcceptTx), "got {msg:?}");

    server.abort().await;
    client.abort().await;

    // decoder level: nothing received yet means "need more bytes"
    let nothing: Result<SubmitMessage, _> = minicbor::decode(&[]);
    assert!(
        matches!(&nothing, Err(e) if e.is_end_of_input()),
        "empty buffer decoded as {nothing:?}"
    );
}
