"""Shared helpers of rules C07 (PlutusData order / codec tables) and C08 (script integrity hash).

Three small engines built on the tabulator (E2); nothing of pallas is executed, every value is a symbolic term of the MIR.

* comparator analysis (`analyse_cmp`): a two-argument function returning `Ordering` is read as a *decision table* whose guards are
  discriminants / one-sided boolean flags of the operands and whose results are lexicographic chains of comparisons
  `cmp(T[a], T[b])` (same key term T on both operands) or `Ordering` constants.  The table is enumerated over the finite
  guard domain and the order laws are checked on it.
* presence evaluation (`Presence`): path conditions over `Option`s (`is_some`, `is_none`, discriminants, `!`, `&&`) are evaluated
  for an assignment present/absent of named root options; `map`, `as_ref`, `clone`, ... preserve presence.
* sink segments (`segments_on_path`): the ordered writes into one buffer / encoder along a tabulated path.
"""
import itertools
import re

from .mir import sym_walk, sym_str
from functools import lru_cache

from .panic import strip_generics as _strip_generics
from .tabulate import tabulate, variant_names, strip_adt, BudgetExceeded


strip_generics = lru_cache(maxsize=None)(_strip_generics)


def memo_pred(f):
    """Memoise a predicate over (hashable) terms."""
    cache = {}

    def g(s):
        try:
            return cache[s]
        except KeyError:
            v = cache[s] = f(s)
            return v
    return g


# ---------------------------------------------------------------------------------------------- symbolic terms

def norm(s):
    """Structural normal form: drops the block index of call terms and the names of params, so that the same expression computed
    at two sites compares equal."""
    if not isinstance(s, tuple):
        return s
    if not s:
        return s
    if s[0] == "call":
        return ("call", s[1], tuple(norm(a) for a in s[2]))
    if s[0] == "param":
        return ("param", s[1])
    if s[0] == "local":
        return ("local", s[1])
    return tuple(norm(x) for x in s)


def strip(s):
    while s and s[0] in ("ref", "deref", "cast"):
        s = s[1]
    return s


def roots(s):
    return {sub[1] for sub in sym_walk(s) if sub[0] == "param"}


def subst(s, f):
    """Rebuild term s bottom-up; f(node) may return a replacement (or None to keep)."""
    if not isinstance(s, tuple) or not s:
        return s
    r = f(s)
    if r is not None:
        return r
    return tuple(subst(x, f) if isinstance(x, tuple) else x for x in s)


def canon(s, side):
    """Key term: operand parameter `side` replaced by the placeholder X, normalised."""
    def f(n):
        if n[0] == "param" and n[1] == side:
            return ("X",)
        return None
    return norm(subst(s, f))


def callee_of(s):
    return strip_generics(s[1]) if s and s[0] == "call" else None


def calls_in(s):
    return [sub for sub in sym_walk(s) if sub[0] == "call"]


def mentions_field(s, name):
    return any(sub[0] == "field" and str(sub[2]) == name for sub in sym_walk(s))


def mentions_call(s, rx):
    rx = re.compile(rx) if isinstance(rx, str) else rx
    return any(rx.search(strip_generics(sub[1])) for sub in sym_walk(s) if sub[0] == "call")


# ---------------------------------------------------------------------------------------------- Ordering values

ORD_NAMES = {-1: "Less", 255: "Less", 0: "Equal", 1: "Greater"}
FLIP = {"Less": "Greater", "Greater": "Less", "Equal": "Equal"}


def ordering_const(s):
    s = strip(s)
    if s[0] == "agg" and isinstance(s[1], str) and strip_adt(s[1]) == "core::cmp::Ordering" and isinstance(s[2], str):
        return s[2]
    if s[0] == "variant" and strip_adt(s[1]) == "core::cmp::Ordering":
        return s[2]
    if s[0] == "const" and len(s) > 2 and isinstance(s[2], str) and strip_adt(s[2]) == "core::cmp::Ordering":
        try:
            return ORD_NAMES.get(int(s[1]))
        except (TypeError, ValueError):
            return None
    return None


# trait methods are recognised on the *raw* resolved path: `<X as core::cmp::Ord>::cmp`, `core::cmp::impls::<impl core::cmp::Ord for u64>::cmp`,
# `alloc::vec::partial_eq::<impl core::cmp::PartialEq<Vec<U, A2>> for Vec<T, A1>>::eq`, or the unresolved `core::cmp::Ord::cmp`
IS_ORD_CMP = re.compile(r"core::cmp::Ord(?![A-Za-z_]).*::cmp$")
IS_PARTIAL_CMP = re.compile(r"core::cmp::PartialOrd(?![A-Za-z_]).*::partial_cmp$")
IS_EQ = re.compile(r"core::cmp::PartialEq(?![A-Za-z_]).*::(eq|ne)$")
UNWRAPS = re.compile(r"core::option::Option::(unwrap|expect|unwrap_unchecked)$")


class CmpCtx:
    """Where a comparison function is analysed: program, the function, its two operand parameters."""

    def __init__(self, P, fn, L=1, R=2, env=None):
        self.P, self.fn, self.L, self.R = P, fn, L, R
        self.env = env          # closure environment (list of parent terms) when fn is a closure
        self.notes = []


def mk_cmp(ctx, name, a, b, kind="cmp"):
    ra, rb = roots(a), roots(b)
    if ra == {ctx.L} and rb == {ctx.R}:
        sign, ka, kb = 1, canon(a, ctx.L), canon(b, ctx.R)
    elif ra == {ctx.R} and rb == {ctx.L}:
        sign, ka, kb = -1, canon(b, ctx.L), canon(a, ctx.R)
    else:
        return (kind, None, name, norm(a), False, norm(b))
    return (kind, sign, name, strip(ka), strip(ka) == strip(kb), strip(kb))


def flip(chain):
    out = []
    for e in chain:
        if e[0] == "const":
            out.append(("const", FLIP[e[1]]))
        elif e[1] is None:
            out.append(e)
        else:
            out.append((e[0], -e[1]) + tuple(e[2:]))
    return out


def parse_ordering(ctx, s, depth=4):
    """Lexicographic chain denoted by an Ordering-valued term: list of ('const', name) | ('cmp', sign, callee, key, symmetric, key2);
    None when the term is not recognised as built from comparisons of the two operands."""
    s = strip(s)
    c = ordering_const(s)
    if c:
        return [("const", c)]
    if s[0] == "discr":
        return parse_ordering(ctx, s[1], depth)
    if s[0] != "call":
        return None
    name = strip_generics(s[1])
    args = s[2]
    if name.endswith("core::cmp::Ordering::reverse") and len(args) == 1:
        inner = parse_ordering(ctx, args[0], depth)
        return flip(inner) if inner is not None else None
    if IS_ORD_CMP.search(s[1]) and len(args) == 2:
        return [mk_cmp(ctx, name, args[0], args[1])]
    if UNWRAPS.search(name) and args:
        inner = strip(args[0])
        if inner[0] == "call" and IS_PARTIAL_CMP.search(inner[1]) and len(inner[2]) == 2:
            return [mk_cmp(ctx, strip_generics(inner[1]), inner[2][0], inner[2][1])]
        return None
    if name.endswith("core::cmp::Ordering::then") and len(args) == 2:
        a, b = parse_ordering(ctx, args[0], depth), parse_ordering(ctx, args[1], depth)
        return a + b if a is not None and b is not None else None
    if name.endswith("core::cmp::Ordering::then_with") and len(args) == 2 and depth > 0:
        a = parse_ordering(ctx, args[0], depth)
        b = _parse_closure(ctx, args[1], depth - 1)
        return a + b if a is not None and b is not None else None
    g = ctx.P.fns.get(s[1])
    if g is not None and g.kind != "Closure" and len(args) == 2 and strip_adt(g.local_ty(0)) == "core::cmp::Ordering":
        # a workspace comparison helper / another type's Ord impl applied to the two operands
        return [mk_cmp(ctx, name, args[0], args[1])]
    return None


def closure_env(parent, child_path):
    for bi, si, st in parent.statements():
        if st[0] == "a" and st[2]["k"] == "agg" and st[2].get("ak") == "closure" and st[2].get("def") == child_path:
            return [parent.sym_operand(o) for o in st[2]["fields"]]
    return None


def _parse_closure(ctx, s, depth):
    """`a.then_with(|| b)`: the closure's returned chain, with captured places traced to the enclosing function."""
    s = strip(s)
    if s[0] != "agg" or s[1] != "closure":
        return None
    child = ctx.P.fns.get(s[2])
    if child is None:
        return None
    env = list(s[3])

    def back(n):
        # closure parameter 1 is the environment; its fields are the captures
        if n[0] == "field" and strip(n[1])[0] == "param" and strip(n[1])[1] == 1:
            try:
                i = int(n[2])
            except (TypeError, ValueError):
                return None
            if i < len(env):
                return env[i]
        return None
    chains = []
    for p in tabulate(child, ctx.P, 64):
        if p.end != "return" or p.conds:
            return None
        chains.append(parse_ordering(ctx, subst(p.ret, back), depth))
    if len(chains) != 1:
        return None
    return chains[0]


# ---------------------------------------------------------------------------------------------- comparator tables

class Row:
    __slots__ = ("guards", "links", "final", "unknown", "end", "path")

    def __init__(self):
        self.guards = []     # (side, key, kind, constraint) ; kind 'enum' (constraint = set of idx) | 'flag' (('eq',v)|('ne',[..]))
        self.links = []      # (chain, allowed subset of {'Less','Equal','Greater'})  or (('eqtest', key), {'eq'}|{'ne'})
        self.final = None
        self.unknown = []
        self.end = None
        self.path = None


def _ord_allowed(c):
    names = {"Less", "Equal", "Greater"}
    if c[0] == "eq":
        n = ORD_NAMES.get(int(c[1]))
        return {n} if n else set()
    return names - {ORD_NAMES.get(int(v)) for v in c[1]}


def _classify(ctx, r, d, c):
    """File one path condition of a comparison function into the row: enum/flag guard of one operand, link of the lexicographic
    chain (an intermediate comparison or an equality test of the same key of both operands), or unknown."""
    P = ctx.P
    if d[0] == "discr":
        inner, pty = d[1], (d[2] if len(d) > 2 else None) or ""
        if strip_adt(pty) == "core::cmp::Ordering":
            ch = parse_ordering(ctx, inner)
            if ch is None:
                r.unknown.append(sym_str(d, 160))
            else:
                r.links.append((ch, _ord_allowed(c)))
            return
        rt = roots(inner)
        side = ctx.L if rt == {ctx.L} else ctx.R if rt == {ctx.R} else None
        vn = variant_names(P, pty)
        if side is None or vn is None:
            r.unknown.append(sym_str(d, 160))
            return
        idxs = {i for i, _ in vn}
        allowed = {int(c[1])} if c[0] == "eq" else idxs - {int(v) for v in c[1]}
        r.guards.append((side, ("discr", canon(strip(inner), side), strip_adt(pty)), "enum", frozenset(allowed)))
        return
    sd = strip(d)
    a = b = None
    neg = False
    if sd[0] == "bin" and sd[1] in ("Eq", "Ne"):
        a, b, neg = sd[2], sd[3], sd[1] == "Ne"
    elif sd[0] == "call" and IS_EQ.search(sd[1]) and len(sd[2]) == 2:
        a, b, neg = sd[2][0], sd[2][1], sd[1].endswith("::ne")
    if roots(d) == {ctx.L, ctx.R}:
        fx = _flag_expr(ctx, sd)
        if fx is not None:
            r.guards.append((None, fx, "expr", (c[0], int(c[1])) if c[0] == "eq" else ("ne", tuple(int(v) for v in c[1]))))
            return
    if a is not None and roots(a) | roots(b) == {ctx.L, ctx.R}:
        k = mk_cmp(ctx, "eqtest", a, b, kind="eqtest")
        truth = (c[0] == "eq" and int(c[1]) != 0) or (c[0] == "ne" and 0 in [int(v) for v in c[1]])
        equal = truth != neg
        r.links.append(([k], {"Equal"} if equal else {"Less", "Greater"}))
        return
    rt = roots(d)
    if rt == {ctx.L} or rt == {ctx.R}:
        side = ctx.L if rt == {ctx.L} else ctx.R
        r.guards.append((side, ("flag", canon(sd, side)), "flag", (c[0], int(c[1])) if c[0] == "eq" else ("ne", tuple(int(v) for v in c[1]))))
        return
    r.unknown.append(sym_str(d, 160))


def _flag_expr(ctx, s):
    """A boolean combination (==, !=, &, |, ^, !) of one-sided flags of the two operands, e.g. `l_neg != r_neg`:
    tree of ('leaf', side, key) / ('const', v) / ('op', name, a, b) / ('not', a); None when some leaf is not a known flag.
    A leaf counts as a flag only if the same term (for either operand) is also branched on by itself somewhere in the function —
    this separates `l_neg != r_neg` (flags) from `l_index == r_index` (an equality test of two keys, a chain link)."""
    s = strip(s)
    if s[0] == "const":
        try:
            return ("const", int(s[1]))
        except (TypeError, ValueError):
            return None
    if s[0] == "un" and s[1] == "Not":
        a = _flag_expr(ctx, s[2])
        return ("not", a) if a is not None else None
    rt = roots(s)
    if rt == {ctx.L} or rt == {ctx.R}:
        side = ctx.L if rt == {ctx.L} else ctx.R
        key = ("flag", canon(s, side))
        if key in getattr(ctx, "flagset", ()):
            return ("leaf", side, key)
        return None
    if s[0] == "bin" and s[1] in ("Eq", "Ne", "BitAnd", "BitOr", "BitXor"):
        a, b = _flag_expr(ctx, s[2]), _flag_expr(ctx, s[3])
        if a is None or b is None:
            return None
        return ("op", s[1], a, b)
    return None


def _flag_leaves(fx, out):
    if fx[0] == "leaf":
        out.append(fx)
    elif fx[0] == "not":
        _flag_leaves(fx[1], out)
    elif fx[0] == "op":
        _flag_leaves(fx[2], out)
        _flag_leaves(fx[3], out)
    return out


def _flag_eval(fx, val):
    if fx[0] == "const":
        return fx[1]
    if fx[0] == "leaf":
        return val(fx[1], fx[2])
    if fx[0] == "not":
        return 0 if _flag_eval(fx[1], val) else 1
    a, b = _flag_eval(fx[2], val), _flag_eval(fx[3], val)
    return {"Eq": int(a == b), "Ne": int(a != b), "BitAnd": a & b, "BitOr": a | b, "BitXor": a ^ b}[fx[1]]


def _copy_row(r):
    n = Row()
    n.guards, n.links, n.final, n.unknown, n.end, n.path = list(r.guards), list(r.links), r.final, list(r.unknown), r.end, r.path
    return n


IS_CLOSURE_CALL = re.compile(r"core::ops::function::(Fn::call|FnMut::call_mut|FnOnce::call_once)$")


def _closure_of_call(ctx, s):
    """(closure Fn, captured environment terms) when term s calls a local closure."""
    if s[0] != "call" or not s[2]:
        return None
    g = ctx.P.fns.get(s[1])
    if not ((g is not None and g.kind == "Closure") or IS_CLOSURE_CALL.search(strip_generics(s[1]))):
        return None
    cl = strip(s[2][0])
    if cl[0] != "agg" or cl[1] != "closure":
        return None
    g = ctx.P.fns.get(cl[2])
    if g is None:
        return None
    return g, list(cl[3])


def _env_back(env):
    def back(n):
        if n[0] == "field" and strip(n[1])[0] == "param" and strip(n[1])[1] == 1:
            try:
                i = int(n[2])
            except (TypeError, ValueError):
                return None
            if i < len(env):
                return env[i]
        return None
    return back


def _finish(ctx, r, ret, sign, depth):
    """Rows for a returned Ordering term: recognised chains directly; a call of a local closure (a comparison hoisted into
    `let f = || ...`) is expanded path by path with its captures traced to the enclosing function."""
    ch = parse_ordering(ctx, ret)
    if ch is not None:
        r.final = ch if sign == 1 else flip(ch)
        return [r]
    s = strip(ret)
    if s[0] == "call":
        if strip_generics(s[1]).endswith("core::cmp::Ordering::reverse") and len(s[2]) == 1:
            return _finish(ctx, r, s[2][0], -sign, depth)
        cc = _closure_of_call(ctx, s) if depth > 0 else None
        if cc is not None:
            g, env = cc
            back = _env_back(env)
            out = []
            try:
                qs = tabulate(g, ctx.P, 256)
            except BudgetExceeded:
                qs = None
            if qs is not None:
                for q in qs:
                    r2 = _copy_row(r)
                    if q.end != "return":
                        r2.end = q.end
                        out.append(r2)
                        continue
                    for cond in q.conds:
                        _classify(ctx, r2, subst(cond[0], back), cond[1])
                    out += _finish(ctx, r2, subst(q.ret, back), sign, depth - 1)
                return out
    r.unknown.append("result " + sym_str(ret, 200))
    return [r]


def cmp_rows(ctx):
    """Rows of the decision table of comparison function ctx.fn."""
    rows = []
    paths = tabulate(ctx.fn, ctx.P, 4096)
    ctx.flagset = set()
    for p in paths:
        for cond in p.conds:
            d = cond[0]
            if d[0] != "discr" and roots(d) in ({ctx.L}, {ctx.R}):
                side = ctx.L if roots(d) == {ctx.L} else ctx.R
                ctx.flagset.add(("flag", canon(strip(d), side)))
    for p in paths:
        r = Row()
        r.end = p.end
        r.path = p
        for cond in p.conds:
            _classify(ctx, r, cond[0], cond[1])
        if p.end == "return":
            rows += _finish(ctx, r, p.ret, 1, 2)
        else:
            rows.append(r)
    return rows


def guard_domains(P, rows):
    """key -> sorted domain (enum indices / flag values)."""
    dom = {}
    for r in rows:
        for side, key, kind, cons in r.guards:
            if kind == "enum":
                vn = variant_names(P, key[2]) or []
                dom.setdefault(key, set()).update(i for i, _ in vn)
            elif kind == "expr":
                for lf in _flag_leaves(key, []):
                    dom.setdefault(lf[2], {0, 1})
            else:
                d = dom.setdefault(key, {0, 1})
                if cons[0] == "eq":
                    d.add(cons[1])
                else:
                    d.update(cons[1])
    return {k: sorted(v) for k, v in dom.items()}


def _sat(cons, kind, v):
    if kind == "enum":
        return v in cons
    if cons[0] == "eq":
        return v == cons[1]
    return v not in cons[1]


def _link_key(ch):
    return tuple((e[0], e[3] if len(e) > 3 else e[1]) for e in ch)


def build_chain(rows):
    """Combine the rows feasible for one guard assignment into one lexicographic chain.
    Returns (chain, None) or (None, reason)."""
    if not rows:
        return None, "no path"
    if all(not r.links for r in rows):
        finals = {repr(r.final) for r in rows}
        if len(finals) != 1:
            return None, "results differ between paths under the same guards"
        return list(rows[0].final), None
    if any(not r.links for r in rows):
        return None, "some paths test an intermediate comparison and others do not"
    first = _link_key(rows[0].links[0][0])
    if any(_link_key(r.links[0][0]) != first for r in rows):
        return None, "paths under the same guards start with different comparisons"
    head = rows[0].links[0][0]
    cont, other = [], []
    for r in rows:
        allowed = r.links[0][1]
        # the same comparison may be tested twice on a path (e.g. `==` then `cmp`): drop repeated tests of the same link
        rest = [l for l in r.links[1:]]
        nr = Row()
        nr.guards, nr.links, nr.final, nr.unknown, nr.end, nr.path = r.guards, rest, r.final, r.unknown, r.end, r.path
        if allowed == {"Equal"}:
            cont.append(nr)
        elif "Equal" in allowed:
            return None, "a path continues on both equal and unequal outcomes of an intermediate comparison"
        else:
            other.append((allowed, nr))
    if not cont or not other:
        return None, "an intermediate comparison is not split into equal / not-equal outcomes"
    # unequal outcome: the result must be that comparison (possibly reversed)
    elem = None
    per_value = {}
    for allowed, nr in other:
        nr.links = [l for l in nr.links if _link_key(l[0]) != first]
        if nr.links:
            return None, "further comparisons after an unequal outcome"
        fin = nr.final
        if head[0][0] == "eqtest":
            # `if a != b { return a.cmp(b) }`: the result must compare the same keys
            if len(fin) == 1 and fin[0][0] == "cmp" and fin[0][3] == head[0][3] and fin[0][4] and head[0][4]:
                cand = fin[0]
            else:
                return None, "result after an inequality test does not compare the tested keys"
        elif len(fin) == 1 and fin[0][0] == "const":
            for a in allowed:
                per_value[a] = fin[0][1]
            continue
        elif _link_key(fin) == first:
            cand = fin[0] if len(fin) == 1 else None
            if cand is None:
                return None, "compound intermediate comparison"
        else:
            return None, "unequal outcome of an intermediate comparison is not returned"
        if elem is not None and elem != cand:
            return None, "unequal outcomes return different comparisons"
        elem = cand
    if per_value:
        if elem is not None or set(per_value) != {"Less", "Greater"} or len(head) != 1:
            return None, "unequal outcomes are mapped inconsistently"
        if per_value == {"Less": "Less", "Greater": "Greater"}:
            elem = head[0]
        elif per_value == {"Less": "Greater", "Greater": "Less"}:
            elem = flip(head)[0]
        else:
            return None, "unequal outcomes of an intermediate comparison are mapped to %s" % per_value
    tail, why = build_chain(cont)
    if tail is None:
        return None, why
    # the equal branch may repeat the test of the same link; ignore duplicates of elem at the head of the tail
    return [elem] + tail, None


class CmpTable:
    """Decision table of a comparison function over its finite guard domain."""

    def __init__(self, ctx, max_cells=4096):
        self.ctx = ctx
        self.rows = cmp_rows(ctx)
        self.problems = []      # (key, message)
        self.dom = guard_domains(ctx.P, self.rows)
        self.keys = sorted(self.dom, key=repr)
        self.cells = {}         # ((vL...), (vR...)) -> chain | None
        self.why = {}
        for r in self.rows:
            if r.end == "loop":
                self.problems.append(("loop", "the comparison contains a loop; its table cannot be enumerated"))
            for u in r.unknown:
                self.problems.append(("unrecognised", "condition or result not built from one-sided guards and comparisons of both operands: %s" % u))
        n = 1
        for k in self.keys:
            n *= len(self.dom[k]) ** 2
        if n > max_cells:
            self.problems.append(("budget", "guard domain too large (%d cells)" % n))
            return
        doms = [self.dom[k] for k in self.keys]
        for vl in itertools.product(*doms):
            for vr in itertools.product(*doms):
                feas = []
                for r in self.rows:
                    if r.end == "loop":
                        continue
                    ok = True
                    for side, key, kind, cons in r.guards:
                        if kind == "expr":
                            v = _flag_eval(key, lambda sd_, k_: (vl if sd_ == ctx.L else vr)[self.keys.index(k_)])
                        else:
                            v = (vl if side == ctx.L else vr)[self.keys.index(key)]
                        if not _sat(cons, kind, v):
                            ok = False
                            break
                    if ok:
                        feas.append(r)
                if any(r.end != "return" for r in feas):
                    self.cells[(vl, vr)] = None
                    self.why[(vl, vr)] = "a path under these guards does not return (panics / diverges)"
                    continue
                if any(r.unknown for r in feas):
                    self.cells[(vl, vr)] = None
                    self.why[(vl, vr)] = "unrecognised condition or result"
                    continue
                ch, why = build_chain(feas)
                if ch is not None:
                    ch = self._resolve_ranks(ch, vl, vr)
                self.cells[(vl, vr)] = ch
                if ch is None:
                    self.why[(vl, vr)] = why

    # -- rank functions
    def _rank_of(self, key, v):
        """Constant value of key term `g(&X)` for an operand whose guard values are v, when g is a workspace function that maps
        each variant of X to a constant (a *rank function*); None otherwise."""
        s = strip(key)
        if s[0] != "call" or len(s[2]) != 1 or strip(s[2][0]) != ("X",):
            return None
        g = self.ctx.P.fns.get(s[1])
        if g is None:
            return None
        vk = next((k for k in self.keys if k[0] == "discr" and strip(k[1]) == ("X",)), None)
        if vk is None:
            return None
        name = dict(variant_names(self.ctx.P, vk[2]) or []).get(v[self.keys.index(vk)])
        cache = self.__dict__.setdefault("_rank_cache", {})
        if g.path not in cache:
            cache[g.path] = per_variant_returns(self.ctx.P, g)
        rets = cache[g.path].get(name)
        if not rets:
            return None
        vals = set()
        for r in rets:
            r = strip(r)
            if r[0] != "const":
                return None
            try:
                vals.add(int(r[1]))
            except (TypeError, ValueError):
                return None
        return vals.pop() if len(vals) == 1 else None

    def _resolve_ranks(self, ch, vl, vr):
        """`rank(a).cmp(&rank(b))` in a cell whose operand variants are known is the constant it evaluates to."""
        out = []
        for e in ch:
            if e[0] == "cmp" and e[1] is not None and e[4]:
                a, b = self._rank_of(e[3], vl), self._rank_of(e[3], vr)
                if a is not None and b is not None:
                    o = "Less" if a < b else "Greater" if a > b else "Equal"
                    if e[1] == -1:
                        o = FLIP[o]
                    if o == "Equal":
                        continue        # equal ranks: the chain continues with its next element
                    out.append(("const", o))
                    break               # decided: later elements are never consulted
                    
            out.append(e)
        return out or [("const", "Equal")]

    # -- rendering
    def label(self, v):
        out = []
        for k, x in zip(self.keys, v):
            if k[0] == "discr":
                names = dict(variant_names(self.ctx.P, k[2]) or [])
                out.append(str(names.get(x, x)))
            else:
                out.append("%s=%s" % (sym_str(_unX(k[1]), 44), x))
        return ",".join(out) or "*"

    def cell_str(self, ch):
        if ch is None:
            return "?"
        out = []
        for e in ch:
            if e[0] == "const":
                out.append(e[1])
            else:
                out.append("%s%s(%s)" % ("" if e[1] == 1 else "reverse " if e[1] == -1 else "mixed ", e[2].split("::")[-1] if e[0] == "cmp" else e[0], sym_str(_unX(e[3]), 80)))
        return " then ".join(out)

    # -- laws
    def check_laws(self):
        """[(key, message)] for every violated order law on the enumerated table."""
        bad = list(self.problems)
        for (vl, vr), ch in sorted(self.cells.items(), key=repr):
            tag = "%s|%s" % (self.label(vl), self.label(vr))
            if ch is None:
                bad.append(("cell:" + tag, "cell (%s) is not a comparison table entry: %s" % (tag, self.why.get((vl, vr)))))
                continue
            for e in ch:
                if e[0] in ("cmp", "eqtest") and (e[1] is None or not e[4]):
                    bad.append(("asymmetric:" + tag, "cell (%s) compares different keys of the two operands: %s vs %s — "
                                "cmp(a,a) need not be Equal and cmp(a,b) need not mirror cmp(b,a)" % (tag, sym_str(_unX(e[3]), 80), sym_str(_unX(e[5]), 80))))
            mirror = self.cells.get((vr, vl))
            if mirror is not None and _shape(mirror) != _shape(_mirror_expect(ch)):
                if (vl, vr) <= (vr, vl):
                    bad.append(("antisymmetry:" + tag, "cmp(a,b) = %s but cmp(b,a) = %s for the mirrored operands; a total order needs cmp(b,a) = cmp(a,b).reverse()"
                                % (self.cell_str(ch), self.cell_str(mirror))))
            if vl == vr:
                consts = [e[1] for e in ch if e[0] == "const" and e[1] != "Equal"]
                if consts:
                    bad.append(("reflexive:" + tag, "operands with identical guards (%s) compare as %s without looking at their contents; cmp(a,a) must be Equal" % (tag, consts[0])))
        return bad


def _mirror_expect(ch):
    """What the mirrored cell must hold.  Cell (u,v) describes cmp(a,b) for a in u, b in v as s*cmp(T[a],T[b]); the mirrored cell
    (v,u) is written over its own operands (b,a): s'*cmp(T[b],T[a]).  cmp(b,a) = cmp(a,b).reverse() holds iff s' = s for every
    comparison of the chain and the constants are flipped."""
    return [("const", FLIP[e[1]]) if e[0] == "const" else e for e in ch]


def _shape(ch):
    return [(e[0], e[1]) if e[0] == "const" else (e[0], e[1], e[3]) for e in ch]


def _unX(s):
    def f(n):
        if n == ("X",):
            return ("local", 0, "x")
        return None
    return subst(s, f) if isinstance(s, tuple) else s


def rank_transitive(tab):
    """For a table with one enum guard: the constant cells must form a transitive tournament between the variants.
    Returns (order list or None, problems)."""
    bad = []
    if len(tab.keys) != 1:
        return None, [("rank", "rank transitivity needs exactly one guard (got %d)" % len(tab.keys))]
    dom = tab.dom[tab.keys[0]]
    less = {}
    for i in dom:
        for j in dom:
            ch = tab.cells.get(((i,), (j,)))
            if i == j or ch is None:
                continue
            if len(ch) == 1 and ch[0][0] == "const" and ch[0][1] in ("Less", "Greater"):
                less[(i, j)] = ch[0][1] == "Less"
            else:
                bad.append(("rank:%s|%s" % (tab.label((i,)), tab.label((j,))), "different variants (%s, %s) are not ranked by a constant Less/Greater: %s"
                            % (tab.label((i,)), tab.label((j,)), tab.cell_str(ch))))
    for i in dom:
        for j in dom:
            for k in dom:
                if len({i, j, k}) == 3 and less.get((i, j)) and less.get((j, k)) and less.get((i, k)) is False:
                    bad.append(("transitive:%s<%s<%s" % (tab.label((i,)), tab.label((j,)), tab.label((k,))),
                                "%s < %s and %s < %s but %s > %s: the variant rank is cyclic" % (tab.label((i,)), tab.label((j,)), tab.label((j,)), tab.label((k,)), tab.label((i,)), tab.label((k,)))))
    order = sorted(dom, key=lambda i: sum(1 for j in dom if less.get((j, i))))
    return order, bad


def analyse_cmp(P, fn, L=1, R=2):
    return CmpTable(CmpCtx(P, fn, L, R))


def per_variant_returns(P, g, param=1):
    """variant name -> list of returned terms of a one-argument workspace function dispatching on its enum argument."""
    out = {}
    for p in tabulate(g, P, 256):
        if p.end != "return":
            continue
        names = None
        for d, c in [(x[0], x[1]) for x in p.conds]:
            if d[0] == "discr" and roots(d[1]) == {param}:
                vn = variant_names(P, (d[2] if len(d) > 2 else "") or "")
                if vn is None:
                    continue
                s = {n for i, n in vn if (i == int(c[1]) if c[0] == "eq" else i not in [int(v) for v in c[1]])}
                names = s if names is None else names & s
        if names is None:
            names = {"*"}
        for n in names:
            out.setdefault(n, []).append(p.ret)
    return out


# ---------------------------------------------------------------------------------------------- presence of Options

PRESERVING = re.compile(r"(core::option::Option::(as_ref|as_mut|map|cloned|copied|as_deref|as_deref_mut|inspect|take|as_slice)|"
                        r"core::option::Option as core::clone::Clone::clone|core::clone::Clone::clone|alloc::borrow::ToOwned::to_owned|"
                        r"core::option::Option as core::convert::From::from)$")


class Unknown(Exception):
    pass


class Presence:
    """Evaluate Option presence / boolean conditions for an assignment of root options.
    `roots_fn(term)` returns the name of a root option denoted by `term` (after refs/derefs were stripped) or None."""

    def __init__(self, root_of, assign):
        self.root_of = root_of
        self.assign = assign

    def present(self, s):
        s = strip(s)
        r = self.root_of(s)
        if r is not None:
            return self.assign[r]
        if s[0] == "agg" and isinstance(s[1], str) and strip_adt(s[1]) == "core::option::Option":
            return s[2] == "Some"
        if s[0] == "variant" and strip_adt(s[1]) == "core::option::Option":
            return s[2] == "Some"
        if s[0] == "call":
            n = strip_generics(s[1])
            a = s[2]
            if PRESERVING.search(n) and a:
                return self.present(a[0])
            if n.endswith("core::option::Option::or") and len(a) == 2:
                return self.present(a[0]) or self.present(a[1])
            if n.endswith("core::option::Option::and") or n.endswith("core::option::Option::zip"):
                return self.present(a[0]) and self.present(a[1])
            if n.endswith("core::option::Option::xor") and len(a) == 2:
                return self.present(a[0]) != self.present(a[1])
        raise Unknown(sym_str(s, 120))

    def value(self, s):
        """Integer value of a boolean / discriminant term."""
        s0 = s
        s = strip(s)
        if s[0] == "const":
            return int(s[1])
        if s[0] == "discr":
            return 1 if self.present(s[1]) else 0
        if s[0] == "un" and s[1] == "Not":
            return 0 if self.value(s[2]) else 1
        if s[0] == "bin":
            a, b = self.value(s[2]), self.value(s[3])
            op = s[1]
            if op == "BitAnd":
                return a & b
            if op == "BitOr":
                return a | b
            if op == "BitXor":
                return a ^ b
            if op == "Eq":
                return int(a == b)
            if op == "Ne":
                return int(a != b)
            raise Unknown(sym_str(s0, 120))
        if s[0] == "call":
            n = strip_generics(s[1])
            if n.endswith("core::option::Option::is_some"):
                return int(self.present(s[2][0]))
            if n.endswith("core::option::Option::is_none"):
                return int(not self.present(s[2][0]))
            if n.endswith("core::ops::bit::Not::not"):
                return 0 if self.value(s[2][0]) else 1
        raise Unknown(sym_str(s0, 120))

    def holds(self, cond):
        d, c = cond[0], cond[1]
        v = self.value(d)
        if c[0] == "eq":
            return v == int(c[1])
        return v not in [int(x) for x in c[1]]

    def feasible(self, path):
        """True / False, or raises Unknown when a condition is outside the presence fragment."""
        for cond in path.conds:
            if not self.holds(cond):
                return False
        return True


# ---------------------------------------------------------------------------------------------- misc

def field_root(param, chain):
    """Predicate factory: term == param.<chain...> (through refs/derefs/downcasts)."""
    chain = [str(c) for c in chain]

    def is_root(s):
        got = []
        while True:
            s = strip(s)
            if s[0] == "field":
                got.append(str(s[2]))
                s = s[1]
            elif s[0] == "downcast":
                s = s[1]
            elif s[0] == "param":
                got.reverse()
                return s[1] == param and got == chain
            else:
                return False
    return is_root


def where(f):
    return "%s:%s" % (f.file, f.line)


# ---------------------------------------------------------------------------------------------- finite tables over a CBOR tag

from . import finite as _finite  # noqa: E402


_HELPER_CACHE = {}


def promoted_ranges(fn, const_value=None):
    """promoted-constant symbol -> (lo, hi, inclusive) for range literals used as receivers of `contains`.
    MIR only shows `&promoted[n]` for `(121..=127).contains(&x)`; the bounds are read from the type-resolved HIR.  Literals and
    promoted symbols are paired in program order; if the counts differ nothing is resolved (the condition then stays unevaluable and
    the table is reported as unanalysable)."""
    from . import hirwalk
    syms = []
    for bi, t in fn.calls():
        name = strip_generics(t.get("f") or t.get("g") or "")
        if re.search(r"core::ops::range::Range(Inclusive)?::contains$", name) and t["args"]:
            a = strip(fn.sym_operand(t["args"][0]))
            if a[0] == "constsym" and a[1] not in syms:
                syms.append(a[1])
    lits = []
    h = fn.hir
    if h is not None:
        for n in hirwalk.walk(h.get("root")):
            if n.get("k") == "mcall" and re.search(r"core::ops::range::Range(Inclusive)?::<[^>]*>::contains$|core::ops::range::Range(Inclusive)?::contains$", str(n.get("def", ""))):
                r = hirwalk.strip(n.get("recv"))
                if not isinstance(r, dict):
                    continue
                if r.get("k") == "call" and str(r.get("def", "")).endswith("::new") and "RangeInclusive" in str(r.get("def", "")):
                    vals = [hirwalk.strip(a) for a in r.get("args", [])]
                    if len(vals) == 2 and all(isinstance(v, dict) and v.get("k") == "lit" and isinstance(v.get("v"), dict) and "int" in v["v"] for v in vals):
                        lits.append((int(vals[0]["v"]["int"]), int(vals[1]["v"]["int"]), True))
                elif r.get("k") == "path" and r.get("rk") == "Const" and const_value is not None:
                    # a named range constant: usable only if the facts carry its (non-scalar) value
                    lits.append(const_value(str(r.get("def", ""))))
                elif r.get("k") == "struct" and "core::ops::range::Range" in str(r.get("adt", r.get("def", ""))):
                    fl = dict((k, hirwalk.strip(v)) for k, v in r.get("fields", []) if isinstance(v, dict))
                    st, en = fl.get("start"), fl.get("end")
                    if st and en and st.get("k") == "lit" and en.get("k") == "lit" and "int" in st.get("v", {}) and "int" in en.get("v", {}):
                        lits.append((int(st["v"]["int"]), int(en["v"]["int"]), "Inclusive" in str(r.get("adt", r.get("def", "")))))
    if len(lits) != len(syms):
        return {}
    return dict((k, v) for k, v in zip(syms, lits) if v is not None)


def range_const_value(P):
    """Resolver for named range constants: (lo, hi, inclusive) from the `consts` facts when the extractor dumped a structured value
    (today it evaluates scalar constants only, so named `RangeInclusive` constants stay unresolved -> the table is unanalysable)."""
    def f(path):
        for c in P.consts():
            if c.get("path") == path:
                v = c.get("val")
                if isinstance(v, dict) and "start" in v and "end" in v:
                    return int(v["start"]), int(v["end"]), "Inclusive" in str(c.get("ty", ""))
                if isinstance(v, (list, tuple)) and len(v) >= 2 and all(isinstance(x, int) for x in v[:2]):
                    return int(v[0]), int(v[1]), "Inclusive" in str(c.get("ty", ""))
        return None
    return f


def promoted_enum_consts(fn, adt):
    """promoted-constant symbol -> variant name, for unit variants of `adt` compared with ==/!= (`x != Type::Tag`): the MIR operand is
    `&promoted[n]`, the variant is read from the resolved HIR; paired in program order."""
    from . import hirwalk
    syms = []
    for bi, t in fn.calls():
        name = t.get("f") or t.get("g") or ""
        if IS_EQ.search(name):
            for a in t["args"]:
                x = strip(fn.sym_operand(a))
                if x[0] == "constsym" and strip_adt(str(x[2])) == adt and x[1] not in syms:
                    syms.append(x[1])
    names = []
    h = fn.hir
    if h is not None:
        for n in hirwalk.walk(h.get("root")):
            if n.get("k") == "bin" and n.get("op") in ("Eq", "Ne"):
                for side in ("a", "b"):
                    x = hirwalk.strip(n.get(side))
                    if isinstance(x, dict) and x.get("k") == "path" and x.get("adt") == adt and x.get("variant"):
                        names.append(x["variant"])
    if len(names) != len(syms):
        return {}
    return dict(zip(syms, names))


def tag_leaf(is_subject, t, iana, ranges=None, P=None, dtype=None, enum_consts=None, type_index=None, depth=3):
    """Leaf valuation for pv.finite.ev: the table subject has value t; minicbor `Tag` helpers are interpreted
    (`as_u64`, `Tag::new`, `IanaTag::tag`, `Tag == Tag`); `ranges` resolves promoted range constants (see promoted_ranges).
    dtype = (predicate, index): a second subject, the `minicbor::data::Type` read from the decoder, valued by its discriminant index.
    With P, calls of workspace predicates/helpers (`wire::is_constr_tag(tag)`) are evaluated by tabulating the callee with its
    parameters replaced by the argument terms, under the same valuation."""
    ranges = ranges or {}
    enum_consts = enum_consts or {}
    type_index = type_index or {}

    def type_value(x):
        x = strip(x)
        if dtype is not None and dtype[0](x):
            return dtype[1]
        if x[0] == "agg" and isinstance(x[1], str) and strip_adt(x[1]) == "minicbor::data::Type" and x[2] in type_index:
            return type_index[x[2]]
        if x[0] == "constsym" and x[1] in enum_consts and enum_consts[x[1]] in type_index:
            return type_index[enum_consts[x[1]]]
        raise _finite.NotFinite(x)

    def leaf(s):
        s1 = strip(s)
        if is_subject(s1):
            return t
        if s1[0] == "discr" and dtype is not None and dtype[0](strip(s1[1])) and strip_adt(str(s1[2] if len(s1) > 2 else "")) == "minicbor::data::Type":
            return dtype[1]
        if s1[0] == "call" and IS_EQ.search(s1[1]) and len(s1[2]) == 2 and "minicbor::data::Tag" not in s1[1]:
            # `datatype == Type::X` / `!=` (resolved impl or the trait's default `ne`): both sides must be head-type values
            try:
                eq = type_value(s1[2][0]) == type_value(s1[2][1])
                return int(eq) if s1[1].endswith("::eq") else int(not eq)
            except _finite.NotFinite:
                pass
        if s1[0] == "call" and P is not None and depth > 0:
            g = P.fns.get(s1[1])
            if g is not None and g.kind != "Closure" and strip_adt(g.local_ty(0)) in ("bool", "u8", "u16", "u32", "u64", "usize"):
                sub = dict((i + 1, a) for i, a in enumerate(s1[2]))

                def sm(node):
                    if node[0] == "param" and node[1] in sub:
                        return sub[node[1]]
                    return None
                ck = (id(P), g.path)
                if ck not in _HELPER_CACHE:
                    _HELPER_CACHE[ck] = (promoted_ranges(g, range_const_value(P)), promoted_enum_consts(g, "minicbor::data::Type"), tabulate(g, P, 512))
                hr, he, hpaths = _HELPER_CACHE[ck]
                rg = dict(ranges)
                rg.update(hr)
                ec = dict(enum_consts)
                ec.update(he)
                inner = tag_leaf(is_subject, t, iana, rg, P, dtype, ec, type_index, depth - 1)
                vals = set()
                for q in hpaths:
                    if q.end != "return":
                        continue
                    ok = True
                    for cond in q.conds:
                        v = _finite.ev(subst(cond[0], sm), inner, 64)      # NotFinite propagates: the helper is not evaluable
                        c = cond[1]
                        if (c[0] == "eq" and v != int(c[1])) or (c[0] != "eq" and v in [int(x) for x in c[1]]):
                            ok = False
                            break
                    if ok:
                        vals.add(_finite.ev(subst(q.ret, sm), inner, 64))
                if len(vals) == 1:
                    return vals.pop()
                raise _finite.NotFinite(s)
        if s1[0] in ("const", "bin", "un", "cast") or (s1[0] == "field" and s1[1][0] == "bin"):
            return _finite.ev(s1, leaf, 64)
        if s1[0] == "agg" and isinstance(s1[1], str) and strip_adt(s1[1]) == "minicbor::data::IanaTag" and s1[2] in iana:
            return iana[s1[2]]
        if s1[0] == "call":
            n = strip_generics(s1[1])
            a = s1[2]
            if n.endswith("minicbor::data::Tag::as_u64") or n.endswith("minicbor::data::Tag::new") or n.endswith("minicbor::data::IanaTag::tag"):
                return leaf(a[0])
            if re.search(r"minicbor::data::Tag as core::cmp::PartialEq(<[^>]*>)?::eq$", n) or n.endswith("minicbor::data::Tag as core::cmp::PartialEq::eq"):
                return int(leaf(a[0]) == leaf(a[1]))
            if n.endswith("minicbor::data::Tag as core::cmp::PartialEq::ne"):
                return int(leaf(a[0]) != leaf(a[1]))
            if re.search(r"core::convert::(From::from|Into::into)$", n) and a:
                return leaf(a[0])
            if re.search(r"core::ops::range::Range(Inclusive)?::contains$", n) and len(a) == 2:
                # `(lo..=hi).contains(&x)` / `(lo..hi).contains(&x)`
                r = strip(a[0])
                x = leaf(a[1])
                if r[0] == "constsym" and r[1] in ranges:
                    lo, hi, incl = ranges[r[1]]
                    return int(lo <= x <= hi) if incl else int(lo <= x < hi)
                if r[0] == "call" and strip_generics(r[1]).endswith("core::ops::range::RangeInclusive::new") and len(r[2]) == 2:
                    return int(leaf(r[2][0]) <= x <= leaf(r[2][1]))
                if r[0] == "agg" and isinstance(r[1], str) and strip_adt(r[1]) == "core::ops::range::Range" and r[3] and len(r[3]) == 2:
                    return int(leaf(r[3][0]) <= x < leaf(r[3][1]))
                if r[0] == "agg" and isinstance(r[1], str) and strip_adt(r[1]) == "core::ops::range::RangeInclusive" and r[3] and len(r[3]) >= 2:
                    return int(leaf(r[3][0]) <= x <= leaf(r[3][1]))
            if n.endswith("core::clone::Clone::clone") and a:
                return leaf(a[0])
        raise _finite.NotFinite(s)
    return leaf


def rows_for(paths, leaf, extra=None, unevaluable=None, is_subject=None):
    """Paths whose finite conditions hold under `leaf`; discriminant conditions are prerequisites (kept) unless `extra(cond)`
    returns False.  Conditions that mention the table subject but cannot be evaluated are collected in `unevaluable` (a set of
    renderings): the table is then not decidable and the caller fails closed."""
    out = []
    for p in paths:
        ok = True
        for cond in p.conds:
            d, c = cond[0], cond[1]
            if extra is not None:
                e = extra(cond)
                if e is False:
                    ok = False
                    break
                if e is True:
                    continue
            if d[0] in ("discr", "variant"):
                continue
            try:
                v = _finite.ev(d, leaf, 64)
            except _finite.NotFinite:
                if unevaluable is not None and is_subject is not None and any(is_subject(strip(x)) for x in sym_walk(d)):
                    unevaluable.add(sym_str(d, 120))
                continue
            if (c[0] == "eq" and v != int(c[1])) or (c[0] != "eq" and v in [int(x) for x in c[1]]):
                ok = False
                break
        if ok:
            out.append(p)
    return out


def is_error_propagation(p):
    """A path that leaves through `?` on a failed inner call (not a row of the table)."""
    return p.ret is not None and any(sub[0] == "call" and strip_generics(sub[1]).endswith("FromResidual::from_residual") for sub in sym_walk(p.ret))


def result_class(sym):
    """('ok', adt, variant, fields) | ('err',) | None for a Result-valued term."""
    s = strip(sym)
    if s[0] == "call" and strip_generics(s[1]).endswith("core::result::Result::map") and len(s[2]) == 2:
        # `d.decode_with(ctx).map(Self::Variant)`: Ok(Variant(decoded)) (errors pass through)
        f = strip(s[2][1])
        if f[0] == "fnconst" and "::" in f[1]:
            adt, variant = strip_generics(f[1]).rsplit("::", 1)
            return ("ok", strip_adt(adt), variant, (s[2][0],))
        return None
    if s[0] == "agg" and isinstance(s[1], str) and strip_adt(s[1]) == "core::result::Result":
        if s[2] == "Err":
            return ("err",)
        inner = strip(s[3][0]) if s[3] else None
        if inner is not None and inner[0] == "agg" and isinstance(inner[1], str):
            return ("ok", strip_adt(inner[1]), inner[2], inner[3])
        return ("ok", None, None, (inner,))
    return None


def emissions(path, is_sink):
    """Ordered calls of a path whose first argument is the sink (an encoder / buffer), as (method name, args, bb)."""
    out = []
    for callee, args, bb in path.calls:
        if args and is_sink(args[0]):
            out.append((strip_generics(callee), args, bb))
    return out


# ---------------------------------------------------------------------------------------------- ordered writes into a buffer

READERS = re.compile(r"(core::ops::deref::Deref::deref|as core::ops::deref::Deref::deref|Vec::as_slice|Vec::len|Vec::is_empty|core::convert::AsRef::as_ref|"
                     r"core::borrow::Borrow::borrow|Vec::as_ptr|Vec::capacity|core::slice::len)$")


def buffer_of(s):
    """The buffer object behind a (re)borrowed / dereferenced view of it."""
    while True:
        s = strip(s)
        if s[0] == "call" and READERS.search(strip_generics(s[1])) and s[2]:
            s = s[2][0]
            continue
        return s


def const_bytes(s):
    """[ints] when the term is a constant byte / byte array, else None."""
    s = strip(s)
    if s[0] == "const":
        try:
            return [int(s[1])]
        except (TypeError, ValueError):
            return None
    if s[0] == "agg" and s[1] == "array" and s[3] is not None:
        out = []
        for x in s[3]:
            b = const_bytes(x)
            if b is None or len(b) != 1:
                return None
            out += b
        return out
    if s[0] == "repeat":
        b = const_bytes(s[1])
        try:
            return b * int(s[2]) if b is not None else None
        except (TypeError, ValueError):
            return None
    return None


def write_segments(P, path, sink, pres=None, submap=None, depth=2):
    """Ordered writes into the buffer `sink` (a normalised term) along `path`:
    ('value', term)   a value CBOR-encoded into the buffer (minicbor::encode / to_vec + extend)
    ('raw', term)     bytes of a KeepRaw appended as they are (raw_cbor)
    ('bytes', [ints]) constant bytes
    ('unknown', text) any other call that receives the buffer mutably
    Workspace helpers receiving the buffer are spliced (their feasible paths under the presence assignment `pres`)."""
    out = []

    def tr(s):
        return subst(s, submap) if submap else s

    def is_sink(a):
        return norm(buffer_of(tr(a))) == sink
    for callee, args, bb in path.calls:
        n = strip_generics(callee)
        hits = [i for i, a in enumerate(args) if is_sink(a)]
        if not hits:
            continue
        if READERS.search(n) or re.search(r"(hash::hasher::Hasher::hash|Hasher::hash)$", n):
            continue
        if n.endswith("minicbor::encode") and len(args) == 2 and hits == [1]:
            out.append(("value", tr(args[0])))
        elif re.search(r"alloc::vec::Vec::push$", n) and hits == [0] and const_bytes(tr(args[1])) is not None:
            out.append(("bytes", const_bytes(tr(args[1]))))
        elif re.search(r"(alloc::vec::Vec::extend_from_slice|core::iter::traits::collect::Extend::extend|alloc::vec::Vec::append)$", n) and hits == [0] and len(args) == 2:
            data = tr(args[1])
            cb = const_bytes(buffer_of(data))
            src = [c for c in calls_in(data)]
            if cb is not None:
                out.append(("bytes", cb))
            elif any(strip_generics(c[1]).endswith("KeepRaw::raw_cbor") for c in src):
                c = next(c for c in src if strip_generics(c[1]).endswith("KeepRaw::raw_cbor"))
                out.append(("raw", c[2][0]))
            elif any(strip_generics(c[1]).endswith("minicbor::to_vec") for c in src):
                c = next(c for c in src if strip_generics(c[1]).endswith("minicbor::to_vec"))
                out.append(("value", c[2][0]))
            else:
                out.append(("unknown", "%s(%s)" % (n.split("::")[-1], sym_str(data, 80))))
        else:
            g = P.fns.get(callee)
            if g is not None and depth > 0 and len(hits) == 1:
                sub = dict((i + 1, tr(a)) for i, a in enumerate(args))

                def sm(node, sub=sub):
                    if node[0] == "param" and node[1] in sub:
                        return sub[node[1]]
                    return None
                feas = []
                unknown = False
                for q in tabulate(g, P, 512):
                    try:
                        ok = True
                        for cond in q.conds:
                            c2 = (subst(cond[0], sm), cond[1])
                            if pres is not None and not pres.holds(c2):
                                ok = False
                                break
                        if ok:
                            feas.append(q)
                    except Unknown:
                        unknown = True
                segs = {repr(write_segments(P, q, sink, pres, sm, depth - 1)) for q in feas if q.end == "return"}
                if unknown or len(segs) != 1:
                    out.append(("unknown", "helper %s is not a fixed sequence of writes" % n.split("::")[-1]))
                else:
                    out += write_segments(P, [q for q in feas if q.end == "return"][0], sink, pres, sm, depth - 1)
            else:
                out.append(("unknown", "%s" % n))
    return out


# ---------------------------------------------------------------------------------------------- may-reach through helpers

def fn_reaches(P, g, rx, depth=3, seen=None):
    """Does workspace function g (or a closure of it) call something matching rx, directly or through workspace helpers?"""
    seen = seen if seen is not None else set()
    if g.path in seen:
        return False
    seen.add(g.path)
    for h in [g] + P.closure_children(g):
        for bi, t in h.calls():
            name = t.get("f") or t.get("g") or ""
            if rx.search(strip_generics(name)):
                return True
            k = P.fns.get(name)
            if k is not None and depth > 0 and fn_reaches(P, k, rx, depth - 1, seen):
                return True
    return False


def reaches_call(P, term, rx, depth=3):
    """The value `term` is computed (possibly inside a helper function or a closure it mentions) by a call matching rx."""
    rx = re.compile(rx) if isinstance(rx, str) else rx
    for sub in sym_walk(term):
        if sub[0] == "call":
            if rx.search(strip_generics(sub[1])):
                return True
            g = P.fns.get(sub[1])
            if g is not None and depth > 0 and fn_reaches(P, g, rx, depth - 1):
                return True
        elif sub[0] == "agg" and sub[1] == "closure":
            g = P.fns.get(sub[2])
            if g is not None and fn_reaches(P, g, rx, depth):
                return True
    return False
