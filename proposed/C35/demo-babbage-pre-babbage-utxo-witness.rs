// Demonstration tests for the C35 finding "Babbage demands no payment-key witness for inputs whose UTxO entry was created
// before Babbage".
//
// Where they go: inside `mod babbage_tests` of pallas-validate/tests/babbage.rs (they use that module's imports and
// helpers); run with   cargo test --offline -p pallas-validate --test babbage collateral_key_witness
//
// Scenario: successful_mainnet_tx_with_plutus_v2_script (mainnet ac96a0a2...fa36, test_data/babbage7.tx) with its collateral
// UTxO replaced by 5 ada locked by a payment key that has NOT signed the transaction.  Held as a Babbage-era output the
// validator answers VKWitnessMissing (control test, passes today); held as MultiEraOutput::AlonzoCompatible - what every
// UTxO created before the Babbage hard fork is - the unchanged tree answers Ok(()): the second test fails without
// fix-babbage-pre-babbage-utxo-witness.diff and passes with it.
// (A *spent* pre-Babbage input is currently turned away earlier, by Babbage's check_datums, with InputNotInUTxO - a false
// rejection that hides the same hole; collateral inputs are not looked at by that rule.)

    // Returns the verdict for babbage7.tx with a collateral UTxO owned by a key that did not sign.
    fn validate_babbage7_with_foreign_collateral(
        as_alonzo_era_output: bool,
    ) -> Result<(), pallas_validate::utils::ValidationError> {
        let cbor_bytes: Vec<u8> = cbor_to_bytes(include_str!("../../test_data/babbage7.tx"));
        let mtx: Tx = babbage_minted_tx_from_cbor(&cbor_bytes);
        let metx: MultiEraTx = MultiEraTx::from_babbage(&mtx);
        let tx_outs_info: &[BabbageTxOutInfo] = &[
            (
                String::from(
                    "119068A7A3F008803EDAC87AF1619860F2CDCDE40C26987325ACE138AD81728E7ED4CF324E1323135E7E6D931F01E30792D9CDF17129CB806D",
                ),
                Value::Multiasset(
                    1318860,
                    [(
                        "95ab9a125c900c14cf7d39093e3577b0c8e39c9f7548a8301a28ee2d"
                            .parse()
                            .unwrap(),
                        [(
                            Bytes::from(hex::decode("4164614964696f7431313235").unwrap()),
                            1,
                        )]
                        .into(),
                    )]
                    .into(),
                ),
                Some(DatumOption::Hash(
                    hex::decode("d75ad82787a8d45b85c156c97736d2c6525d6b3a09b5d6297d1b45c6a63bccd3")
                        .unwrap()
                        .as_slice()
                        .into(),
                )),
                None,
            ),
            (
                String::from(
                    "01A7D37F1D43D1197A994D95B3CE15D9AF3B4697CC7CDF9BCD1F81688D3499AC08066B36BC6C2D86A21243B940E84DBE5CAC3FAB5F76AB9229",
                ),
                Value::Coin(231630402),
                None,
                None,
            ),
        ];
        let mut utxos: UTxOs = mk_utxo_for_babbage_tx(&mtx.transaction_body, tx_outs_info);
        let collateral_info: &[BabbageCollateralInfo] = &[(
            String::from(
                "01a7d37f1d43d1197a994d95b3ce15d9af3b4697cc7cdf9bcd1f81688d3499ac08066b36bc6c2d86a21243b940e84dbe5cac3fab5f76ab9229",
            ),
            Value::Coin(5000000),
            None,
            None,
        )];
        add_collateral_babbage(&mtx.transaction_body, &mut utxos, collateral_info);
        // The only change with respect to successful_mainnet_tx_with_plutus_v2_script: the collateral UTxO now belongs to a
        // payment key that has not signed the transaction (the key-locked mainnet address of babbage3.tx's input), held
        // either as a Babbage-era output or as an output created in an earlier era.
        let collateral_input = mtx.transaction_body.collateral.clone().unwrap()[0].clone();
        assert!(!mtx.transaction_body.inputs.contains(&collateral_input));
        let foreign_address: Bytes = Bytes::from(
            hex::decode("011be1f490912af2fc39f8e3637a2bade2ecbebefe63e8bfef10989cd6f593309a155b0ebb45ff830747e61f98e5b77feaf7529ce9df351382")
                .unwrap(),
        );
        let legacy_output = pallas_primitives::alonzo::TransactionOutput {
            address: foreign_address,
            amount: Value::Coin(5000000),
            datum_hash: None,
        };
        let mut legacy_buf: Vec<u8> = Vec::new();
        let _ = encode(&legacy_output, &mut legacy_buf);
        let foreign_utxo: MultiEraOutput = if as_alonzo_era_output {
            MultiEraOutput::AlonzoCompatible(
                Box::new(Cow::Owned(legacy_output)),
                pallas_traverse::Era::Alonzo,
            )
        } else {
            MultiEraOutput::Babbage(Box::new(Cow::Owned(TransactionOutput::Legacy(
                Decode::decode(&mut Decoder::new(legacy_buf.as_slice()), &mut ()).unwrap(),
            ))))
        };
        utxos.insert(
            MultiEraInput::AlonzoCompatible(Box::new(Cow::Owned(collateral_input))),
            foreign_utxo,
        );
        let ref_input_info: &[BabbageRefInputInfo] = &[(
            String::from("119068a7a3f008803edac87af1619860f2cdcde40c26987325ace138ad81728e7ed4cf324e1323135e7e6d931f01e30792d9cdf17129cb806d"),
            Value::Coin(40000000),
            None,
            Some(CborWrap(ScriptRef::PlutusV2Script(PlutusScript::<2>(Bytes::from(hex::decode("5909fe010000323232323232323232323232323232323232323232323232323232323232323232323232323232323232323232323232222323232533535533357346064606a0062646464642466002008004a666ae68c0d8c0e00044c848c004008c078d5d0981b8008191baa357426ae88c0d80154ccd5cd1819981b0008991919191919191919191919191919191919191919190919999999999980080b80a8098088078068058048038028018011aba135744004666068eb88004d5d08009aba2002357420026ae88008cc0c9d71aba1001357440046ae84004d5d10011aba1001357440046ae84004d5d10011aba1001357440046ae84004d5d10011981300f1aba1001357440046ae84004d5d1181b001198111192999ab9a30353038001132321233001003002301d357426ae88c0e0008c078d5d0981b8008191baa00135742606a0020606ea8d5d0981a001817911a8011111111111111a80691919299aa99a998149aa99a80109815a481035054380022100203d00303903a03a1533501213302549101350033302330340362350012232333027303803a235001223500122533533302b0440040062153353333026303e040223500222533500321533533303104a0030062153353302b0010031303f3305722533500104c221350022253353305100200a100313304d33047002001300600300215335330370010031303f333302d04b0043370200200600409209008e60720020044266060920102313000333573466e20ccd54c0fc104c0a8cc0f1c024000400266aa608008246a00209600200809208e266ae712410231310004813357389201023132000470023335530360393501b0403501b04233355303603922533535002222253353302200800413038003042213303d001002100103f010333301c303403622350022253353303c00b002100313333020303803a235001222533533302a0210030012133330260220043355303e03f235001223303d002333500120012235002223500322330433370000800466aa608e09046a002446608c004666a0024002e008004ccc0c013400c0048004ccc09c11000c0040084cccc09408400c00800400c0040f140044cc0952410134003330233034036235001223303b00a0025001153353355303403523500122350012222302c533350021303104821001213304e2253350011303404a221350022253353304800200710011300600300c0011302a49010136002213355303603723500122350012222302e533350021303304a2100121330502253350011303604c221350022253353304a00200710011300600300e0033335530310342253353353530283500203f03d203f253353303c001330482253350011302e044221350022253353303000200a135302f001223350022303504b20011300600301003b1302c4901013300133037002001100103a00d1120011533573892010350543500165333573460640020502a666ae68c0c400409c0b8c0ccdd50019baa00133019223355301f020235001223301e002335530220232350012233021002333500137009000380233700002900000099aa980f81011a800911980f001199a800919aa981181211a8009119811001180880080091199806815001000919aa981181211a80091198110011809000800999804012801000812111919807198021a8018139a801013a99a9a80181490a99a8011099a801119a80111980400100091101711119a80210171112999ab9a3370e00c0062a666ae68cdc38028010998068020008158158120a99a80090120121a8008141119a801119a8011198128010009014119a801101411981280100091199ab9a3370e00400204604a44446666aa00866032444600660040024002006002004444466aa603803a46a0024466036004666a0024002052400266600a0080026603c66030006004046444666aa603003603866aa603403646a00244660320046010002666aa6030036446a00444a66a666aa603a03e60106603444a66a00404a200204e46a002446601400400a00c200626604000800604200266aa603403646a00244660320046605e44a66a002260160064426a00444a66a6601800401022444660040140082600c00600800446602644666a0060420040026a00204242444600600842444600200844604e44a66a0020364426a00444a66a6601000400e2602a0022600c0064466aa0046602000603600244a66a004200202e44a66a00202e266ae7000806c8c94ccd5cd180f9811000899190919800801801198079192999ab9a3022302500113232123300100300233301075c464a666ae68c094c0a00044c8cc0514cd4cc028005200110011300e4901022d330033301375c464a66a660180029000080089808249022d3200375a0026ae84d5d118140011bad35742604e0020446ea8004d5d09aba23025002300c35742604800203e6ea8004d5d09aba23022002375c6ae84c084004070dd500091199ab9a3371200400203202e46a002444400844a666ae68cdc79a80100b1a80080b0999ab9a3370e6a0040306a00203002a02e024464a666ae68c06cc0780044c8c8c8c8c8c8c8c848cccc00402401c00c008d5d09aba20045333573466e1d2004001132122230020043574260460042a666ae68c0880044c84888c004010dd71aba1302300215333573460420022244400603c60460026ea8d5d08009aba200233300a75c66014eb9d69aba100135744603c004600a6ae84c074004060dd50009299ab9c001162325333573460326038002264646424660020060046eb4d5d09aba2301d003533357346034603a00226eb8d5d0980e00080b9baa35742603600202c6ea80048c94ccd5cd180c180d80089919191909198008028012999ab9a301b00113232300953335734603c00226464646424466600200c0080066eb4d5d09aba2002375a6ae84004d5d118100019bad35742603e0042a666ae68c0740044c8488c00800cc020d5d0980f80100d180f8009baa35742603a0042a666ae68c070004044060c074004dd51aba135744603600460066ae84c068004054dd5000919192999ab9a30190011321223001003375c6ae84c06800854ccd5cd180c00089909118010019bae35742603400402a60340026ea80048488c00800c888cc06888cccd55cf800900911919807198041803980e8009803180e00098021aba2003357420040166eac0048848cc00400c00888cc05c88cccd55cf800900791980518029aba10023003357440040106eb0004c05088448894cd40044008884cc014008ccd54c01c028014010004c04c88448894cd40044d400c040884ccd4014040c010008ccd54c01c024014010004c0488844894cd4004024884cc020c010008cd54c01801c0100044800488488cc00401000cc03c8894cd40080108854cd4cc02000800c01c4cc01400400c4014400888ccd5cd19b8f0020010030051001220021001220011533573892010350543100164901022d31004901013700370e90001b874800955cf2ab9d2323001001223300330020020011").unwrap()))))),
        )];
        add_ref_input_babbage(&mtx.transaction_body, &mut utxos, ref_input_info);
        let acnt = AccountState {
            treasury: 261_254_564_000_000,
            reserves: 0,
        };

        let env: Environment = Environment {
            prot_params: MultiEraProtocolParameters::Babbage(mk_mainnet_params_epoch_380()),
            prot_magic: 764824073,
            block_slot: 78797255,
            network_id: 1,
            acnt: Some(acnt),
        };
        let mut cert_state: CertState = CertState::default();
        validate_txs(&[metx], &env, &utxos, &mut cert_state)
    }

    #[test]
    // Control: the unsigned collateral input is a Babbage-era output -> its payment key's witness is demanded.
    fn collateral_key_witness_required_for_babbage_era_utxo() {
        match validate_babbage7_with_foreign_collateral(false) {
            Err(PostAlonzo(PostAlonzoError::VKWitnessMissing)) => (),
            other => panic!("a key-locked collateral input needs a witness of its payment key, got {other:?}"),
        }
    }

    #[test]
    // The same must hold when the collateral UTxO was created before Babbage (MultiEraOutput::AlonzoCompatible).
    fn collateral_key_witness_required_for_pre_babbage_utxo() {
        match validate_babbage7_with_foreign_collateral(true) {
            Err(PostAlonzo(PostAlonzoError::VKWitnessMissing)) => (),
            other => panic!("a key-locked collateral input needs a witness of its payment key, got {other:?}"),
        }
    }
