// Demonstration for C44: Plutus integers outside the i64 range must be mapped exactly.
// Place as pallas-utxorpc/tests/plutus_bigint_exact.rs and run
//   cargo test --offline -p pallas-utxorpc --test plutus_bigint_exact
// Fails on the unfixed tree (2^63 is mapped to Int(-9223372036854775808), 2^64-1 to Int(-1),
// -2^64 to Int(0)); passes with proposed/C44/fix-plutus-bigint-exact.diff.

use pallas_codec::utils::Int;
use pallas_primitives::alonzo::{BigInt, PlutusData};
use pallas_utxorpc::{LedgerContext, TxoRef, UtxoMap};

#[derive(Clone)]
struct NoLedger;

impl LedgerContext for NoLedger {
    fn get_utxos(&self, _refs: &[TxoRef]) -> Option<UtxoMap> {
        None
    }

    fn get_slot_timestamp(&self, _slot: u64) -> Option<u64> {
        None
    }
}

fn datum(value: i128) -> PlutusData {
    // a CBOR major type 0/1 integer: any value in -2^64 ..= 2^64-1
    PlutusData::BigInt(BigInt::Int(Int::try_from(value).unwrap()))
}

/// The integer a mapped u5c BigInt stands for (`BigNInt` bytes hold n with value = -1 - n,
/// RFC 8949 section 3.4.3, the same convention as CBOR tag 3 which the mapper passes through).
macro_rules! denote {
    ($u5c:path, $mapped:expr) => {{
        use $u5c as u5c;
        let magnitude = |b: &[u8]| b.iter().fold(0i128, |acc, x| (acc << 8) | i128::from(*x));
        match $mapped.plutus_data {
            Some(u5c::plutus_data::PlutusData::BigInt(u5c::BigInt { big_int: Some(inner) })) => {
                match inner {
                    u5c::big_int::BigInt::Int(v) => i128::from(v),
                    u5c::big_int::BigInt::BigUInt(b) => magnitude(b.as_ref()),
                    u5c::big_int::BigInt::BigNInt(b) => -1 - magnitude(b.as_ref()),
                }
            }
            other => panic!("not a big int: {other:?}"),
        }
    }};
}

const SAMPLES: [i128; 12] = [
    0,
    -1,
    42,
    i64::MAX as i128,
    i64::MIN as i128,
    i64::MAX as i128 + 1,  // 2^63
    i64::MIN as i128 - 1,  // -2^63 - 1
    u64::MAX as i128,      // 2^64 - 1, largest major-type-0 integer
    -(u64::MAX as i128),
    -(u64::MAX as i128) - 1, // -2^64, smallest major-type-1 integer
    1 << 63,
    -(1 << 63) - 12345,
];

#[test]
fn v1alpha_plutus_integers_are_represented_exactly() {
    let mapper = pallas_utxorpc::v1alpha::Mapper::new(NoLedger);
    for value in SAMPLES {
        let mapped = mapper.map_plutus_datum(&datum(value));
        assert_eq!(
            denote!(utxorpc_spec::utxorpc::v1alpha::cardano, mapped),
            value,
            "v1alpha: Plutus integer {value} was not mapped exactly"
        );
    }
}

#[test]
fn v1beta_plutus_integers_are_represented_exactly() {
    let mapper = pallas_utxorpc::v1beta::Mapper::new(NoLedger);
    for value in SAMPLES {
        let mapped = mapper.map_plutus_datum(&datum(value));
        assert_eq!(
            denote!(utxorpc_spec::utxorpc::v1beta::cardano, mapped),
            value,
            "v1beta: Plutus integer {value} was not mapped exactly"
        );
    }
}

#[test]
fn small_values_stay_plain_integers_and_large_ones_use_minimal_bytes() {
    use pallas_utxorpc::v1beta::spec::cardano as u5c;
    let mapper = pallas_utxorpc::v1beta::Mapper::new(NoLedger);
    let inner = |value: i128| match mapper.map_plutus_datum(&datum(value)).plutus_data {
        Some(u5c::plutus_data::PlutusData::BigInt(u5c::BigInt { big_int: Some(x) })) => x,
        other => panic!("not a big int: {other:?}"),
    };
    assert_eq!(inner(-7), u5c::big_int::BigInt::Int(-7));
    assert_eq!(inner(i64::MAX as i128), u5c::big_int::BigInt::Int(i64::MAX));
    assert_eq!(
        inner(1 << 63),
        u5c::big_int::BigInt::BigUInt(vec![0x80, 0, 0, 0, 0, 0, 0, 0].into())
    );
    // -2^63 - 1 = -1 - 2^63
    assert_eq!(
        inner(-(1 << 63) - 1),
        u5c::big_int::BigInt::BigNInt(vec![0x80, 0, 0, 0, 0, 0, 0, 0].into())
    );
}
