"""C31 — UTxO effects of a transaction follow the phase-2 validity rule.

Decides (tables and provenance; not the sort/dedup semantics of std):
 consumes / produces / produces_at tabulated over is_valid(): valid -> inputs / outputs (enumerated) / output_at(index);
 invalid -> collateral / collateral_return paired with outputs().len() / collateral_return only when index == outputs().len();
 is_valid: Byron -> true, every other variant -> that variant's `success` flag;
 consumes filters through HashSet::insert of the output reference (each input once);
 inputs_sorted_set sorts and dedups by the same key (lexicographical_key = (tx id, index))."""
import re
from pv.program import Program
from pv.report import Result, finish
from pv.tabulate import tabulate, cond_variants
from pv.mir import sym_str, sym_walk
from pv import flow

TX = r"MultiEraTx<'b>>::"


def rows(P, f):
    out = {}
    for p in tabulate(f, P, 256):
        if p.end != "return":
            continue
        cv = [c for c in (cond_variants(P, c) for c in p.conds) if c]
        valid = next((list(v)[0] for k, v in cv if k.endswith("is_valid(&*self)") and len(v) == 1), None)
        rest = tuple((k, tuple(sorted(v))) for k, v in cv if not k.endswith("is_valid(&*self)"))
        out.setdefault(valid, []).append((rest, p))
    return out


def calls_in(sym):
    return [sub[1].split("::")[-1] for sub in sym_walk(sym) if sub[0] == "call"]


def run(tier):
    res = Result("C31", tier, level="other")
    P = Program(crates=["pallas_traverse"])

    def expect(key, cond, okmsg, badmsg, f):
        if cond:
            res.ok(key, "R-TABLE", okmsg)
        else:
            res.violation(key, badmsg, where="%s:%s" % (f.file, f.line), rule="R-TABLE")

    # is_valid
    f = P.one(TX + r"is_valid$")
    n = 0
    for p in tabulate(f, P, 64):
        if p.end != "return":
            continue
        cv = dict(c for c in (cond_variants(P, c) for c in p.conds) if c)
        for v in cv.get("*self", ()):
            n += 1
            if v == "Byron":
                expect("is_valid:Byron", p.ret[0] == "const" and int(p.ret[1]) == 1, "Byron transactions are always valid", "is_valid(Byron) is %s, expected true" % sym_str(p.ret), f)
            else:
                txt = sym_str(p.ret, 400)
                expect("is_valid:%s" % v, p.ret[0] == "field" and p.ret[2] == "success" and (" as %s)" % v) in txt,
                       "is_valid(%s) is that transaction's success flag" % v, "is_valid(%s) is %s, expected the transaction's `success` field" % (v, txt[:120]), f)
    res.floor("is_valid rows", n, 4)

    # consumes
    f = P.one(TX + r"consumes$")
    r = rows(P, f)
    for valid, want in (("true", "inputs"), ("false", "collateral")):
        ps = r.get(valid, [])
        src = [c for _, p in ps for c in calls_in(p.ret)]
        expect("consumes:%s" % valid, len(ps) == 1 and want in src and not ({"inputs", "collateral", "reference_inputs"} - {want}) & set(src),
               "consumes() of a%s transaction is its %s" % ("n invalid" if valid == "false" else " valid", want),
               "consumes() with is_valid=%s draws from %s, expected %s only" % (valid, sorted(set(src) & {"inputs", "collateral", "reference_inputs"}), want), f)
    kids = P.closure_children(f)
    dedup = any(flow.callee_name(t).endswith("HashSet::insert") for k in kids for _, t in k.calls()) and \
        any("Iterator::filter" in c[0] or c[0].endswith("::filter") for p_ in tabulate(f, P, 64) for c in p_.calls)
    keyfn = any(flow.callee_name(t).endswith("::output_ref") for k in kids for _, t in k.calls())
    expect("consumes:dedup", dedup and keyfn, "consumed inputs pass a filter keyed on HashSet::insert(output_ref): each once",
           "consumes() no longer filters inputs through HashSet::insert(output_ref): duplicates would be consumed twice", f)

    # produces
    f = P.one(TX + r"produces$")
    r = rows(P, f)
    ps = r.get("true", [])
    src = [c for _, p in ps for c in calls_in(p.ret)]
    expect("produces:true", len(ps) == 1 and "outputs" in src and "enumerate" in src and "collateral_return" not in src,
           "valid: outputs().enumerate() (indices 0..n-1)", "produces() of a valid transaction is %s, expected outputs enumerated" % src, f)
    ps = r.get("false", [])
    src = [c for _, p in ps for c in calls_in(p.ret)]
    expect("produces:false", len(ps) == 1 and "collateral_return" in src and "enumerate" not in src,
           "invalid: the collateral return only", "produces() of an invalid transaction is %s, expected the collateral return only" % src, f)
    # the index of the pair really is outputs().len(): the closure returns the tuple (len, txo); the length may be computed
    # inside the closure or captured from the enclosing function
    def is_outputs_len(x):
        while x[0] in ("ref", "deref", "cast"):
            x = x[1]
        return x[0] == "call" and x[1].endswith("::len") and any(s_[0] == "call" and s_[1].endswith("::outputs") for s_ in sym_walk(x))

    def closure_env(parent, child):
        for bi, si, st in parent.statements():
            if st[0] == "a" and st[2]["k"] == "agg" and st[2].get("ak") == "closure" and st[2].get("def") == child.path:
                return [parent.sym_operand(o) for o in st[2]["fields"]]
        return []
    n_pair = 0
    for k in P.closure_children(f):
        env = closure_env(f, k)
        ok = None
        for p in tabulate(k, P, 16):
            if p.end == "return" and p.ret is not None and p.ret[0] == "agg" and p.ret[1] == "tuple" and p.ret[3]:
                first = p.ret[3][0]
                ok = is_outputs_len(first)
                if not ok:
                    x = first
                    while x[0] in ("ref", "deref", "cast"):
                        x = x[1]
                    if x[0] == "field" and str(x[2]).isdigit() and int(x[2]) < len(env):
                        ok = is_outputs_len(env[int(x[2])])
        if ok is None:
            continue            # a closure that does not build the (index, output) pair
        n_pair += 1
        expect("produces:false:index", ok, "pair index = outputs().len()", "the collateral return is not paired with outputs().len()", k)
    if n_pair == 0:
        expect("produces:false:index", False, "", "no closure of produces() pairs the collateral return with an index", f)

    # produces_at
    f = P.one(TX + r"produces_at$")
    r = rows(P, f)
    ps = r.get("true", [])
    expect("produces_at:true", len(ps) == 1 and ps[0][1].ret[0] == "call" and ps[0][1].ret[1].endswith("::output_at") and ps[0][1].ret[2][1][0] == "param",
           "valid: output_at(index)", "produces_at() of a valid transaction is not output_at(index)", f)
    ps = r.get("false", [])
    ok = len(ps) == 2
    for rest, p in ps:
        cond = [c for c in p.conds if c[0][0] == "bin"]
        if not cond:
            ok = False
            continue
        d, c = cond[0]
        is_eq = d[1] == "Eq" and any(x[0] == "param" and x[2] == "index" for x in d[2:]) and any(x[0] == "call" and x[1].endswith("::len") and any(s[0] == "call" and s[1].endswith("::outputs") for s in sym_walk(x)) for x in d[2:])
        taken = (c[0] == "eq" and int(c[1]) == 1) or (c[0] == "ne" and 0 in c[1])
        if not is_eq:
            ok = False
        if taken:
            ok = ok and p.ret[0] == "call" and p.ret[1].endswith("::collateral_return")
        else:
            ok = ok and p.ret[0] == "agg" and p.ret[2] == "None"
    expect("produces_at:false", ok, "invalid: collateral_return iff index == outputs().len(), else None",
           "produces_at() of an invalid transaction does not return the collateral return exactly at index outputs().len()", f)

    # inputs_sorted_set
    f = P.one(TX + r"inputs_sorted_set$")
    calls = [flow.callee_name(t).split("::")[-1] for _, t in f.calls()]
    kids = P.closure_children(f)
    kid_keys = [[flow.callee_name(t).split("::")[-1] for _, t in k.calls()] for k in kids]
    ok = "sort_by_key" in calls and "dedup_by_key" in calls and calls.index("sort_by_key") < calls.index("dedup_by_key") and \
        len(kid_keys) == 2 and kid_keys[0] == kid_keys[1] == ["lexicographical_key"]
    expect("inputs_sorted_set", ok, "sort_by_key then dedup_by_key on the same lexicographical key",
           "inputs_sorted_set is not sort-then-dedup on one key (calls %s, closure keys %s)" % (calls, kid_keys), f)
    lk = P.one(r"MultiEraInput<'b>>::lexicographical_key$")
    ks = [flow.callee_name(t).split("::")[-1] for _, t in lk.calls()]
    expect("lexicographical_key", "hash" in ks and "index" in ks, "key mentions the tx hash and the output index", "lexicographical_key no longer combines hash and index (%s)" % ks, lk)
    res.assumptions += ["std sort_by_key / dedup_by_key / HashSet::insert / enumerate semantics"]
    return finish(res,
                  explanation="The validity-dependent selection of inputs/outputs is extracted as a table over is_valid() and compared with the phase-2 rule; "
                              "the index paired with the collateral return is traced to outputs().len(). Sortedness itself is std's contract.",
                  rule_text="R-TABLE(consumes, produces, produces_at, is_valid) + R-PROV(index of collateral return) + R-MPT(dedup filter)",
                  trusted_base=["rustc MIR"])
