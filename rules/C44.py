"""C44 — UTxO RPC mapping preserves ledger content (pallas-utxorpc, v1alpha and v1beta mappers).

Decides three necessary clauses over closure(Mapper::map_* of both schema versions), functions of pallas_utxorpc only:
 (1) R-CAST  every narrowing or sign-changing integer `as` cast (MIR Cast IntToInt whose target type cannot hold every value of
             the source type) is lossless: (a) a dominating range test on the same value puts it inside the target range (any
             spelling: `<=`/`<`, reversed, negated, early return, match range, a one-comparison predicate helper), or (b) the
             operand is in range by construction (constant, mask, remainder, shift), or (c) the site is justified by an entry of
             tables/casts_C44.json keyed by (function def-path with the version segment and closure ordinals normalised,
             from-type, to-type, provenance signature of the operand) with a category: "in-scope-lossless" (the ledger bounds the
             value) or "out-of-scope" (content the property statement does not name; the schema field is that narrow).
             A cast on the path of a coin / asset quantity, or inside a big-integer conversion function, is never table-justified.
 (2) R-PROV  hash provenance: at every construction of the Tx, Datum, BlockHeader and TxInput messages, every hash value
             (a call producing pallas_crypto Hash<N>) that flows into a byte-string field comes from MultiEraTx::hash,
             KeepRaw<PlutusData>::original_hash, MultiEraBlock::hash, MultiEraInput::hash respectively — never from a
             hash computed over a re-encoding — and at least one such source is present.
 (3) R-PROV  coin / asset quantities: the result of every quantity accessor (MultiEraValue::coin, MultiEraAsset::output_coin /
             mint_coin / any_coin, MultiEraTx::fee / total_collateral) reaches a big-integer conversion (a same-crate function with
             an integer parameter that builds the BigInt message from it, or a BigInt message built in place) and is never the
             operand of arithmetic on the way; every conversion function builds each BigInt variant from its parameter (no
             constant fallback) and its casts are guard-discharged (never tabled).
 (4) R-TABLE exact form of the big-integer conversions: each conversion function (integer parameter -> BigInt message, recognised by
             signature) is evaluated over exact integers (pv.x_cast.Concrete: finite-domain partial evaluation of its MIR and of the
             same-crate helpers / closures it calls, wrapping at every typed operation, following the switches the value determines)
             at the boundary points of its parameter type inside the CBOR integer range (0, +-1, 2^63-1, -2^63, 2^63, 2^64-1,
             -2^63-1, -2^64, ...): Int payload == v; BigUInt big-endian magnitude == v; BigNInt magnitude == -1 - v (CBOR tag 3 /
             u5c convention); exactly the int64 range takes the Int form.  A construct outside the evaluator's model (unknown call,
             loop, promoted constant) is reported as `bigint-form:<fn>:<variant>:unrecognised` (fail closed).
Not decided: field-by-field preservation (that each value lands in the right field, list order, completeness of the lists)."""
import json
import os
import re

from pv.program import Program
from pv.report import Result, finish
from pv.mir import sym_str, sym_walk, pl_local, pl_proj, op_place
from pv import flow
from pv import x_cast as xc

HERE = os.path.dirname(os.path.dirname(os.path.abspath(__file__)))
TABLE = os.path.join(HERE, "tables", "casts_C44.json")
CRATE = "pallas_utxorpc"
ENTRY_RX = r"^pallas_utxorpc::v1(alpha|beta)::Mapper::<C>::map_\w+$"
ANCHORS = ("map_tx", "map_block", "map_tx_output", "map_plutus_datum")
CATEGORIES = ("in-scope-lossless", "out-of-scope")

QUANT_RX = re.compile(r"^pallas_traverse::(value::<impl [^>]*MultiEraValue<.*>>::coin|assets::<impl [^>]*MultiEraAsset<.*>>::(output_coin|mint_coin|any_coin)"
                      r"|tx::<impl [^>]*MultiEraTx<.*>>::(fee|total_collateral))$")
BIGINT_ONEOF = r"^utxorpc_spec::utxorpc::v1(alpha|beta)::cardano::big_int::BigInt$"
HASH_TY = re.compile(r"pallas_crypto::hash::hash::Hash<\d+>")
BYTES_TY = re.compile(r"^(core::option::Option<)?&?(bytes::bytes::Bytes|alloc::vec::Vec<u8>|pallas_crypto::hash::hash::Hash<\d+>|\[u8)")
# message -> (allowed hash source, human name)
HASH_SOURCES = {
    "Tx": (r"^pallas_traverse::tx::<impl [^>]*MultiEraTx<.*>>::hash$", "MultiEraTx::hash"),
    "Datum": (r"OriginalHash<32> for pallas_codec::utils::KeepRaw<'_, pallas_primitives::plutus_data::PlutusData>>::original_hash$",
              "KeepRaw<PlutusData>::original_hash"),
    "BlockHeader": (r"^pallas_traverse::block::<impl [^>]*MultiEraBlock<.*>>::hash$", "MultiEraBlock::hash"),
    "TxInput": (r"^pallas_traverse::input::<impl [^>]*MultiEraInput<.*>>::hash$", "MultiEraInput::hash"),
}
MSG_RX = re.compile(r"^utxorpc_spec::utxorpc::v1(alpha|beta)::cardano::(Tx|Datum|BlockHeader|TxInput)$")
INT_PARAM = {"u8", "u16", "u32", "u64", "u128", "usize", "i8", "i16", "i32", "i64", "i128", "isize"}


def where_of(f, line=None):
    w = "%s:%s" % (f.file, line if line is not None else f.line)
    if f.b.get("expn") or f.b.get("impl_expn"):
        w += " (expansion of %s, fn %s)" % ((f.b.get("expn") or f.b.get("impl_expn")).split(":", 1)[-1], f.name or f.path.split("::")[-1])
    return w


def load_table(res):
    try:
        with open(TABLE) as fh:
            entries = json.load(fh)["entries"]
    except (OSError, ValueError, KeyError) as e:
        res.violation("table:unreadable", "tables/casts_C44.json cannot be read (%s): tabled casts cannot be discharged" % e, rule="R-CAST")
        return {}
    out = {}
    for e in entries:
        k = (e.get("fn"), e.get("from"), e.get("to"), e.get("sig"))
        if e.get("category") not in CATEGORIES or not e.get("reason") or None in k:
            res.violation("table:bad-entry:%s" % (e.get("fn"),), "table entry %s lacks fn/from/to/sig, a reason or a category in %s" % (k, CATEGORIES,), rule="R-CAST")
            continue
        out[k] = dict(e, used={})
    return out


def expand_derives(f, sym, pred, _seen=None):
    """Does `pred` hold for some sub-expression of sym, looking through multi-definition locals (all definitions)?"""
    seen = _seen if _seen is not None else set()
    for sub in sym_walk(sym):
        if pred(sub):
            return True
        if sub[0] == "local" and len(sub) > 1 and sub[1] not in seen:
            seen.add(sub[1])
            for d in xc._defs_syms(f, sub[1]):
                if expand_derives(f, d, pred, seen):
                    return True
    return False


def conversion_functions(fns):
    """Same-crate functions with an integer parameter whose result carries the BigInt message: (Fn, param index)."""
    out = []
    for f in fns:
        if f.kind not in ("Fn", "AssocFn"):
            continue
        if not re.search(r"cardano::(big_int::)?BigInt\b", f.locals[0]["ty"]):
            continue
        for i in range(1, f.argc + 1):
            if f.local_ty(i) in INT_PARAM:
                out.append((f, i))
                break
    return out


def run(tier):
    res = Result("C44", tier, level="other")
    P = Program(crates=[CRATE])
    for ver in ("v1alpha", "v1beta"):
        for a in ANCHORS:
            P.one(r"^pallas_utxorpc::%s::Mapper::<C>::%s$" % (ver, a))
    entries = P.find(ENTRY_RX)
    res.floor("mapper entry points (map_* of both versions)", len(entries), 40)
    cl = P.closure_of(entries)
    fns = sorted((f for f, _ in cl.values() if f.crate == CRATE), key=lambda f: f.path)
    res.count("functions and closures in closure(map_*)", len(fns))
    table = load_table(res)

    conv = conversion_functions(fns)
    conv_paths = {f.path: i for f, i in conv}

    def quantity_calls(f):
        return [(bi, t) for bi, t in f.calls() if QUANT_RX.search(t.get("f") or "")]

    # ------------------------------------------------------------------ (1) R-CAST
    n_int = n_narrow = 0
    groups = {}      # key -> dict(status per version)
    for f in fns:
        qcalls = quantity_calls(f)
        for bi, si, s, rv in xc.int_casts(f):
            n_int += 1
            frm, to = rv["from"], rv["to"]
            nar = xc.is_narrowing(frm, to)
            if nar is False:
                continue
            n_narrow += 1
            operand = f.sym_operand(rv["x"])
            sig = xc.prov_sig(operand)
            nf = xc.norm_fn(f.path)
            key = "cast:%s:%s->%s:%s" % (nf.replace("pallas_utxorpc::", ""), frm, to, sig)
            g = groups.setdefault(key, {"sites": [], "fn": nf, "from": frm, "to": to, "sig": sig})
            site = {"f": f, "line": s[3][0] if len(s) > 3 and s[3] else None, "ver": xc.version_of(f.path), "operand": operand}
            g["sites"].append(site)
            if nar is None:
                site["status"] = ("bad", "cast between types the range table does not know (%s -> %s)" % (frm, to))
                continue
            iv = xc.guarded_interval(P, f, bi, si, operand, frm)
            if iv is not None and xc.fits(iv[0], iv[1], to):
                site["status"] = ("guard", "operand in [%d, %d] by dominating test(s) %s" % (iv[0], iv[1], ", ".join(iv[2]))) if iv[2] else \
                    ("shape", "operand in [%d, %d] by construction" % (iv[0], iv[1]))
                continue
            on_quantity = any(expand_derives(f, operand, lambda sub, qb=qb: sub[0] == "call" and len(sub) > 3 and sub[3] == qb and QUANT_RX.search(sub[1] or ""))
                              for qb, _ in qcalls)
            in_conv = f.path in conv_paths or (f.b.get("root") in conv_paths)
            if on_quantity or in_conv:
                site["status"] = ("bad", "unguarded %s -> %s cast %s; it cannot be table-justified" % (
                    frm, to, "of a coin/asset quantity" if on_quantity else "inside a big-integer conversion function"))
                continue
            e = table.get((nf, frm, to, sig))
            if e is not None:
                u = e["used"].get(site["ver"], 0)
                if u < int(e.get("max", 1)):
                    e["used"][site["ver"]] = u + 1
                    site["status"] = ("table:" + e["category"], e["reason"])
                    continue
                site["status"] = ("bad", "more sites than the table entry allows (max %s)" % e.get("max", 1))
                continue
            site["status"] = ("bad", "no dominating range test makes it lossless (operand range [%s, %s]) and no table entry justifies it" % (
                iv[0] if iv else "?", iv[1] if iv else "?"))
    res.count("integer casts (IntToInt) analysed", n_int)
    res.count("narrowing or sign-changing casts", n_narrow)
    res.floor("integer casts analysed", n_int, 20)
    tallies = {}
    for key, g in sorted(groups.items()):
        bad = [s for s in g["sites"] if s["status"][0] == "bad"]
        for s in g["sites"]:
            tallies[s["status"][0]] = tallies.get(s["status"][0], 0) + 1
        vers = sorted({s["ver"] for s in g["sites"]})
        if bad:
            b = bad[0]
            res.violation(key, "`%s as %s` (%s -> %s) in %s [%d site(s), %s] can truncate or change sign: %s" % (
                sym_str(b["operand"], 100), g["to"], g["from"], g["to"], g["fn"], len(bad), "/".join(sorted({s["ver"] for s in bad})),
                b["status"][1]), where=where_of(b["f"], b["line"]), rule="R-CAST")
        else:
            kinds = sorted({s["status"][0] for s in g["sites"]})
            res.ok(key, "R-CAST", "%d site(s) [%s] %s: %s" % (len(g["sites"]), "/".join(vers), "+".join(kinds), g["sites"][0]["status"][1][:160]))
            res.sample({"cast": key, "sites": len(g["sites"]), "discharge": kinds, "why": g["sites"][0]["status"][1][:200]})
    for k in ("guard", "shape", "table:in-scope-lossless", "table:out-of-scope", "bad"):
        res.count("casts: %s" % {"guard": "discharged by a dominating range test", "shape": "in range by construction (constant/mask)",
                                 "table:in-scope-lossless": "tabled, ledger bound (in-scope-lossless)", "table:out-of-scope": "tabled, content not named by the property (out-of-scope)",
                                 "bad": "NOT discharged"}[k], tallies.get(k, 0))
    for k, e in sorted(table.items(), key=lambda kv: str(kv[0])):
        if not e["used"]:
            res.notes.append("table entry matches no cast any more (stale, harmless): %s %s->%s %s" % (k[0], k[1], k[2], k[3]))

    # ------------------------------------------------------------------ (3) conversions and quantity paths
    n_conv = 0
    tc_bad = {}
    for f, pi in conv:
        aggs = flow.aggregates(f, BIGINT_ONEOF)
        if not aggs:
            continue
        n_conv += 1
        for bi, si, rv in aggs:
            key = "total-conv:%s:%s" % (xc.norm_fn(f.path).replace("pallas_utxorpc::", ""), rv["variant"])
            payload = f.sym_operand(rv["fields"][0]) if rv["fields"] else ("unknown",)
            if expand_derives(f, payload, lambda sub: sub[0] == "param" and sub[1] == pi):
                res.ok(key + ":" + xc.version_of(f.path), "R-PROV", "BigInt::%s payload derives from the integer parameter: %s" % (rv["variant"], sym_str(payload, 80)))
            else:
                tc_bad.setdefault(key, []).append((f, rv, payload))
    for key, lst in sorted(tc_bad.items()):
        f, rv, payload = lst[0]
        res.violation(key, "%s [%s] builds BigInt::%s from %s, which does not derive from its integer parameter: some values are not represented exactly" % (
            xc.norm_fn(f.path), "/".join(sorted({xc.version_of(g.path) for g, _, _ in lst})), rv["variant"], sym_str(payload, 80)), where=where_of(f), rule="R-PROV")
    res.count("big-integer conversion functions (integer parameter -> BigInt message)", n_conv)

    # ------------------------------------------------------------------ (4) exact form of every BigInt variant
    I64 = xc.INT_RANGE["i64"]
    form_bad, form_ok, n_pts = {}, {}, 0
    for f, pi in conv:
        if not flow.aggregates(f, BIGINT_ONEOF) or f.argc != 1:
            continue
        ty = f.local_ty(pi)
        nf = xc.norm_fn(f.path).replace("pallas_utxorpc::", "")
        reached = set()
        for v in xc.bigint_sample_points(ty):
            n_pts += 1
            want = "Int" if I64[0] <= v <= I64[1] else ("BigUInt" if v > 0 else "BigNInt")
            try:
                out = xc.find_adt(xc.Concrete(P).run(f, [xc.I(v, ty)]), BIGINT_ONEOF)
                if out is None:
                    raise xc.Unrecognised("no BigInt variant in the result")
            except xc.Unrecognised as e:
                form_bad.setdefault("bigint-form:%s:%s:unrecognised" % (nf, want), (f, "the value built for %d cannot be evaluated (%s): the byte form is not decided (fail closed)" % (v, e)))
                continue
            except xc.Panics as e:
                form_bad.setdefault("bigint-form:%s:%s:panics" % (nf, want), (f, "panics (%s) for the value %d instead of representing it" % (e, v)))
                continue
            got, payload = out[2], (out[4][0] if out[4] else ("none",))
            reached.add(got)
            key = "bigint-form:%s:%s" % (nf, got)
            if got == "Int":
                ok = payload[0] == "int" and payload[1] == v
                have, need = "Int(%s)" % (payload[1] if payload[0] == "int" else "?"), "Int(%d)" % v if want == "Int" else "%s with magnitude %d" % (want, v if v > 0 else -1 - v)
            elif got in ("BigUInt", "BigNInt"):
                req = v if got == "BigUInt" else -1 - v
                ok = payload[0] == "bytes" and payload[1] == req and req >= 0
                have, need = "%s bytes of magnitude %s" % (got, payload[1] if payload[0] == "bytes" else "?"), "magnitude %d (%s)" % (req, "= v" if got == "BigUInt" else "= -1 - v, the CBOR tag-3 / u5c convention")
            else:
                ok, have, need = False, got, want
            if not ok:
                form_bad.setdefault(key, (f, "the value %d is mapped to %s; required: %s" % (v, have, need)))
            elif got != want:
                form_bad.setdefault(key + ":range", (f, "the value %d %s but is emitted as %s: exactly the int64 range must use the plain integer form" % (
                    v, "fits int64" if want == "Int" else "is outside int64", got)))
            else:
                form_ok.setdefault((key, xc.version_of(f.path)), []).append(v)
        for bi, si, rv in flow.aggregates(f, BIGINT_ONEOF):
            if rv["variant"] not in reached and not any(k.startswith("bigint-form:%s:" % nf) for k in form_bad):
                res.notes.append("%s: variant %s is built but reached by no sample point of the CBOR integer range (not evaluated)" % (f.path, rv["variant"]))
    for (key, ver), pts in sorted(form_ok.items()):
        if key not in form_bad:
            res.ok(key + ":" + ver, "R-TABLE", "exact at %d boundary points (%s)" % (len(pts), ", ".join(str(x) for x in pts[:4]) + (" ..." if len(pts) > 4 else "")))
    for key, (f, text) in sorted(form_bad.items()):
        res.violation(key, "%s: %s" % (xc.norm_fn(f.path), text), where=where_of(f), rule="R-TABLE")
    res.count("boundary points evaluated through the big-integer conversion functions", n_pts)
    res.floor("boundary points evaluated through the big-integer conversion functions", n_pts, 20)

    n_q = 0
    qgroups = {}
    for f in fns:
        for qb, qt in quantity_calls(f):
            n_q += 1
            acc = (qt.get("f") or "").split("::")[-1]
            key = "quantity:%s:%s" % (xc.norm_fn(f.path).replace("pallas_utxorpc::", ""), acc)
            from_q = lambda sym, qb=qb: expand_derives(f, sym, lambda sub: sub[0] == "call" and len(sub) > 3 and sub[3] == qb and QUANT_RX.search(sub[1] or ""))
            reach = None
            for bj, u in f.calls():
                tgt = u.get("f") or ""
                args = [f.sym_operand(a) for a in u["args"]]
                if tgt in conv_paths and any(from_q(a) for a in args):
                    reach = "%s(..)" % tgt.split("::")[-1]
                elif any(a[0] == "fnconst" and a[1] in conv_paths for a in args) and any(from_q(a) for a in args):
                    reach = "%s via %s" % ([a[1] for a in args if a[0] == "fnconst"][0].split("::")[-1], tgt.split("::")[-1])
            for bi, si, rv in flow.aggregates(f, BIGINT_ONEOF):
                if rv["fields"] and from_q(f.sym_operand(rv["fields"][0])):
                    reach = "BigInt::%s built in place" % rv["variant"]
            arith = None
            for bi, si, s in f.statements():
                if s[0] != "a":
                    continue
                rv = s[2]
                if rv["k"] == "bin" and rv["op"] not in xc.CMP and (from_q(f.sym_operand(rv["l"])) or from_q(f.sym_operand(rv["r"]))):
                    arith = (rv["op"], s[3][0] if len(s) > 3 and s[3] else None)
                elif rv["k"] == "un" and from_q(f.sym_operand(rv["x"])):
                    arith = (rv["op"], s[3][0] if len(s) > 3 and s[3] else None)
            qgroups.setdefault(key, []).append((f, qt, reach, arith))
    res.count("coin / asset quantity accessor call sites", n_q)
    res.floor("coin / asset quantity accessor call sites", n_q, 4)
    for key, sites in sorted(qgroups.items()):
        bad = [(f, qt, r, a) for f, qt, r, a in sites if r is None or a is not None]
        if bad:
            f, qt, r, a = bad[0]
            what = ("is the operand of `%s` before it is mapped" % a[0]) if a else "does not reach a big-integer conversion (an integer -> BigInt function of this crate or a BigInt message built from it)"
            res.violation(key, "%s: the quantity returned by %s %s: it is not carried over exactly" % (f.path, (qt.get("f") or "").split("::")[-1], what),
                          where=where_of(f, (a[1] if a else None) or qt["s"][0]), rule="R-PROV")
        else:
            res.ok(key, "R-PROV", "%d site(s) [%s]: reaches %s, no arithmetic on the way" % (len(sites), "/".join(sorted({xc.version_of(f.path) for f, _, _, _ in sites})), sites[0][2]))

    # ------------------------------------------------------------------ (2) hash provenance
    n_msg = {}
    hash_bad = {}
    for f in fns:
        for bi, si, s in f.statements():
            if s[0] != "a" or s[2]["k"] != "agg" or s[2].get("ak") != "adt":
                continue
            m = MSG_RX.search(s[2]["adt"])
            if not m:
                continue
            msg, ver = m.group(2), "v1" + m.group(1)
            allowed_rx, human = HASH_SOURCES[msg]
            n_msg[(msg, ver)] = n_msg.get((msg, ver), 0) + 1
            good, badc = [], []
            # first the provenance inside this function (and same-crate helpers / closures it calls); only when the
            # required source is not found there, also what the callers pass for this function's parameters
            for callers in (0, 1):
                for fo in s[2]["fields"]:
                    p = op_place(fo)
                    if p is None:
                        continue
                    ty = f.local_ty(pl_local(p)) if not pl_proj(p) else ""
                    if ty and not BYTES_TY.search(ty):
                        continue
                    for g, node in xc.contributing(P, f, f.sym_operand(fo), same_crate=CRATE, depth=3, callers=callers):
                        callee = node[1] or ""
                        if re.search(allowed_rx, callee):
                            good.append((g, node))
                        elif HASH_TY.search(xc.call_dest_ty(g, node)) or re.search(r"ComputeHash<\d+> for .*::compute_hash$|pallas_crypto::hash::hasher::Hasher", callee):
                            badc.append((g, node))
                if good or badc:
                    break
            key = "hash-src:%s:%s" % (msg, xc.norm_fn(f.path).replace("pallas_utxorpc::", ""))
            line = s[3][0] if len(s) > 3 and s[3] else None
            if badc:
                g, node = badc[0]
                hash_bad.setdefault(key, ("%s builds the %s message with a hash obtained from %s instead of %s: the mapped hash is not the ledger identity of the original bytes" % (
                    f.path, msg, xc.short_path(node[1]), human), where_of(f, line)))
            elif not good:
                hash_bad.setdefault(key, ("%s builds the %s message but no byte-string field derives from %s: the hash of the mapped %s is not carried over" % (
                    f.path, msg, human, msg), where_of(f, line)))
            else:
                res.ok(key + ":" + ver, "R-PROV", "hash bytes of %s come from %s" % (msg, human))
    for key, (text, where) in sorted(hash_bad.items()):
        res.violation(key, text, where=where, rule="R-PROV")
    for msg in HASH_SOURCES:
        for ver in ("v1alpha", "v1beta"):
            if not n_msg.get((msg, ver)):
                res.violation("hash-src:%s:%s:no-construction" % (msg, ver), "no construction of the %s %s message found in closure(map_*): anchor lost" % (ver, msg), rule="R-PROV")
    res.count("constructions of Tx/Datum/BlockHeader/TxInput messages", sum(n_msg.values()))

    res.assumptions += ["usize/isize are 64 bit", "pallas_traverse accessors (coin, output_coin, mint_coin, fee, hash, index ...) return the ledger value (C30/C05)",
                        "tables/casts_C44.json: each entry's reason (ledger bound or out-of-scope) was reviewed by hand; table keys carry no positions or local names",
                        "prost/bytes conversions (to_vec, into, to_be_bytes) are value-preserving"]
    return finish(res,
                  explanation="Narrowing-cast census with a range argument per cast over both UTxO RPC mappers (the shared macro body is analysed once per expansion), hash provenance "
                              "at the construction sites of the Tx/Datum/BlockHeader/TxInput messages, and integrity of the coin/asset quantity path up to the total big-integer "
                              "conversion. Decided: no integer of the named content is truncated or sign-changed by an `as` cast (tabled casts are justified by a ledger bound or "
                              "concern content the property does not name), mapped hashes are the original-bytes hashes, quantities reach a conversion that represents every value. "
                              "The big-integer conversion functions are evaluated exactly at the boundary points of the CBOR integer range: plain integer for exactly the int64 range, "
                              "BigUInt magnitude = v, BigNInt magnitude = -1 - v. "
                              "NOT decided: field-by-field preservation (right value in the right field, list order and completeness), lossy conversions that are not `as` casts "
                              "(try_from(..).unwrap_or, saturating/clamping calls) outside the quantity path and outside the conversion functions, the byte form at points other "
                              "than the sampled boundary points, minimality of the byte strings.",
                  rule_text="R-CAST(closure(map_*), guards | construction | tables/casts_C44.json) + R-PROV(hash sources of Tx/Datum/BlockHeader/TxInput) + R-PROV(quantity path, total conversions) + R-TABLE(conversion functions evaluated at boundary points: Int / BigUInt / BigNInt form)",
                  trusted_base=["rustc MIR", "tables/casts_C44.json (reviewed reasons)"])

