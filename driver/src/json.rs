// Minimal JSON value + serializer (the driver has zero cargo dependencies).
pub enum J {
    Null,
    Bool(bool),
    Int(i128),
    Str(String),
    Arr(Vec<J>),
    Obj(Vec<(&'static str, J)>),
}

impl J {
    pub fn s<T: Into<String>>(t: T) -> J {
        J::Str(t.into())
    }
    pub fn opt_s(t: Option<String>) -> J {
        match t {
            Some(s) => J::Str(s),
            None => J::Null,
        }
    }
    pub fn write(&self, out: &mut String) {
        match self {
            J::Null => out.push_str("null"),
            J::Bool(b) => out.push_str(if *b { "true" } else { "false" }),
            J::Int(i) => out.push_str(&i.to_string()),
            J::Str(s) => esc(s, out),
            J::Arr(v) => {
                out.push('[');
                for (i, x) in v.iter().enumerate() {
                    if i > 0 {
                        out.push(',');
                    }
                    x.write(out);
                }
                out.push(']');
            }
            J::Obj(v) => {
                out.push('{');
                let mut first = true;
                for (k, x) in v.iter() {
                    if let J::Null = x {
                        continue;
                    }
                    if !first {
                        out.push(',');
                    }
                    first = false;
                    esc(k, out);
                    out.push(':');
                    x.write(out);
                }
                out.push('}');
            }
        }
    }
}

fn esc(s: &str, out: &mut String) {
    out.push('"');
    for c in s.chars() {
        match c {
            '"' => out.push_str("\\\""),
            '\\' => out.push_str("\\\\"),
            '\n' => out.push_str("\\n"),
            '\r' => out.push_str("\\r"),
            '\t' => out.push_str("\\t"),
            c if (c as u32) < 0x20 => out.push_str(&format!("\\u{:04x}", c as u32)),
            c => out.push(c),
        }
    }
    out.push('"');
}
