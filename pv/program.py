"""Whole-workspace view: function index, call graph (engine E1)."""
import re
from . import facts
from .mir import Fn

ALL_CRATES = facts.EXPECTED_CRATES["default"]


class Program:
    def __init__(self, crates=None, config="default"):
        self.config = config
        self.crates = crates or ALL_CRATES
        self.fns = {}          # path -> Fn (first wins; duplicates get #n suffix)
        self.by_crate = {}
        self.items = {}
        self.children = {}     # parent path -> [closure Fn]
        self.impl_index = {}   # (trait path, method name) -> [Fn]
        for c in self.crates:
            data = facts.load_crate(c, config)
            self.items[c] = data["items"]
            lst = []
            for b in data["bodies"]:
                f = Fn(b, c)
                f.config = config
                p = f.path
                if p in self.fns:
                    n = 2
                    while "%s#%d" % (p, n) in self.fns:
                        n += 1
                    p = "%s#%d" % (p, n)
                    f.path = p
                self.fns[p] = f
                lst.append(f)
                if f.kind in ("Closure", "SyntheticCoroutineBody"):
                    self.children.setdefault(b.get("parent"), []).append(f)
                    self.children.setdefault(b.get("root"), [])
                tr = b.get("impl_trait")
                if tr:
                    self.impl_index.setdefault((tr, f.name), []).append(f)
            self.by_crate[c] = lst
        self._cg = None
        from . import mir as _mir
        _mir.set_program(self)

    # ---------------------------------------------------------------- lookup
    def find(self, pattern, crate=None):
        """All functions whose path matches the regex `pattern` (search)."""
        rx = re.compile(pattern)
        src = self.by_crate.get(crate, []) if crate else self.fns.values()
        return [f for f in src if rx.search(f.path)]

    def get(self, path):
        return self.fns.get(path)

    def one(self, pattern, crate=None):
        r = self.find(pattern, crate)
        if len(r) != 1:
            raise AnchorLost("expected exactly one function matching %r, found %d: %s" % (pattern, len(r), [f.path for f in r][:6]))
        return r[0]

    def adts(self, crate=None):
        for c, it in self.items.items():
            if crate and c != crate:
                continue
            for a in it["adts"]:
                yield a

    def adt(self, path):
        for a in self.adts():
            if a["path"] == path:
                return a
        return None

    def consts(self):
        for c, it in self.items.items():
            for a in it["consts"]:
                yield a

    def impls(self):
        for c, it in self.items.items():
            for a in it["impls"]:
                yield c, a

    # ---------------------------------------------------------------- call graph
    def callees(self, f):
        """Resolved workspace callees of f: list of (Fn, call terminator, bb). Includes CHA expansion
        of unresolved trait-method calls, closure children, and trait impls reached through external
        generic calls (type-argument driven)."""
        out = []
        for bi, t in f.calls():
            tgt = t.get("f")
            if tgt is not None:
                g = self.fns.get(tgt)
                if g is not None:
                    out.append((g, t, bi))
                    continue
                # external callee: type-argument driven edges for traits of the same external crate
                if not t.get("local"):
                    ext_crate = tgt.split("::", 1)[0].lstrip("<")
                    for ta in t.get("targs", []):
                        for adt in _adts_in_type(ta):
                            for (tr, name), fl in self.impl_index.items():
                                if tr.split("::", 1)[0] != ext_crate and not (ext_crate in ("core", "alloc", "std") and tr.split("::", 1)[0] in ("core", "alloc", "std")):
                                    continue
                                if not _plausible_callback(tgt, tr):
                                    continue
                                for g in fl:
                                    if g.b.get("impl_adt") == adt:
                                        out.append((g, t, bi))
            else:
                gm = t.get("g")
                tr = t.get("trait")
                if gm and tr:
                    name = gm.rsplit("::", 1)[-1]
                    for g in self.impl_index.get((tr, name), []):
                        out.append((g, t, bi))
        return out

    def closure_children(self, f):
        return self.children.get(f.path, [])

    def closure_of(self, entries, stop=None):
        """Transitive closure over calls + closure children. Returns dict path -> (Fn, parent path)."""
        seen = {}
        work = []
        for e in entries:
            if e.path not in seen:
                seen[e.path] = (e, None)
                work.append(e)
        while work:
            f = work.pop()
            nxt = [g for g, _, _ in self.callees(f)] + self.closure_children(f)
            for g in nxt:
                if g.path in seen:
                    continue
                if stop and stop(g):
                    continue
                seen[g.path] = (g, f.path)
                work.append(g)
        return seen

    def call_path(self, closure, path):
        chain = []
        cur = path
        while cur is not None:
            chain.append(cur)
            cur = closure[cur][1]
        chain.reverse()
        return chain

    def callers_of(self, pattern):
        rx = re.compile(pattern)
        out = []
        for f in self.fns.values():
            for bi, t in f.calls():
                tgt = t.get("f") or t.get("g") or ""
                if rx.search(tgt):
                    out.append((f, bi, t))
        return out


_CONVERSION_TRAITS = {
    "core::str::traits::FromStr": ("parse",),
    "core::fmt::Display": ("to_string", "fmt", "format", "write_fmt"),
    "core::fmt::Debug": ("fmt", "format", "write_fmt", "unwrap", "expect", "unwrap_err", "expect_err"),
    "core::convert::TryFrom": ("try_into", "try_from"),
    "core::convert::From": ("into", "from", "map_err", "from_residual"),
    "core::convert::Into": ("into",),
}


def _plausible_callback(ext_callee, trait):
    """An external std/core function only calls back into conversion/formatting trait impls of its type
    arguments when it is the matching entry point (parse -> FromStr, to_string -> Display, ...)."""
    names = _CONVERSION_TRAITS.get(trait)
    if names is None:
        return True
    last = ext_callee.rsplit("::", 1)[-1]
    return last in names


def _adts_in_type(ts):
    """Workspace ADT paths mentioned in a type string."""
    return set(re.findall(r"pallas_[a-z0-9_]+(?:::[A-Za-z_][A-Za-z0-9_]*)+", ts))


class AnchorLost(Exception):
    pass
