"""C41 — signing keeps the witness set in step with the signature map.

Decides (structural clauses): (a) sign/add_signature/remove_signature never write the transaction id and never
write or mutably borrow the decoded transaction's body (whose original bytes are replayed on re-encoding);
(b) R-PANIC over the three methods; (c) every push of a VKeyWitness is preceded on all paths by a removal of
witnesses for that key (retain/dedup idiom) on the same vector, so at most one witness per key exists."""
import re
from pv import panic, flow
from pv.program import Program, AnchorLost
from pv.report import Result, finish
from pv.guards import place_chain, overlaps
from pv.mir import sym_str

METHODS = ["sign", "add_signature", "remove_signature"]
DEDUP_IDIOMS = r"(alloc::vec::Vec::retain|alloc::vec::Vec::retain_mut|alloc::vec::Vec::dedup_by_key|alloc::vec::Vec::dedup_by|::position$|::remove$|::swap_remove$|::extract_if$|::contains$|::any$)"


def run(tier):
    res = Result("C41", tier, level="other")
    P = Program(crates=["pallas_txbuilder"])
    fns = []
    for m in METHODS:
        fns.append(P.one(r"^pallas_txbuilder::transaction::model::BuiltTransaction::%s$" % m))
    res.floor("signing methods", len(fns), 3)

    # (a) frame conditions
    for f in fns:
        self_l = 1
        tx_locals = [i for i, l in enumerate(f.locals) if re.match(r"^pallas_primitives::conway::model::Tx<", l["ty"])]
        if not tx_locals:
            res.violation("anchor:%s:tx" % f.name, "no local of type conway::Tx in %s — cannot check that the body is untouched" % f.name, rule="anchor")
            continue
        n_w = 0
        for pos, wsym, how in f.writes():
            wc = place_chain(wsym)
            if wc is None:
                continue
            root, chain = wc
            n_w += 1
            if root in (("param", self_l), ("local", self_l)):
                if not chain:
                    if how != "call-dest":
                        res.violation("%s:self-overwritten" % f.name, "whole `self` is overwritten/mutably lent in %s (%s): tx_hash may change" % (f.name, how),
                                      where="%s:%s" % (f.file, f.line), rule="R-FRAME")
                elif chain[0] == "tx_hash":
                    res.violation("%s:tx_hash-written" % f.name, "`self.tx_hash` is written in %s (%s)" % (f.name, how),
                                  where="%s:%s" % (f.file, f.line), rule="R-FRAME")
            if root[0] == "local" and root[1] in tx_locals:
                if chain and chain[0] == "transaction_body":
                    res.violation("%s:body-mutated" % f.name, "decoded transaction body is written or mutably borrowed in %s (%s %s): its bytes and hence the id may change" % (f.name, how, sym_str(wsym)),
                                  where="%s:%s" % (f.file, f.line), rule="R-FRAME")
                elif not chain and how == "mutref-arg":
                    res.violation("%s:tx-mutably-lent" % f.name, "whole decoded transaction is lent mutably in %s" % f.name,
                                  where="%s:%s" % (f.file, f.line), rule="R-FRAME")
        res.ok("%s:frame" % f.name, "R-FRAME", "%d writes inspected; none touches self.tx_hash or tx.transaction_body" % n_w)
        res.count("writes_inspected", n_w)
        # the re-encoded bytes come from the same decoded tx
        enc = flow.calls_matching(f, r"Fragment::encode_fragment$")
        dec = flow.calls_matching(f, r"Fragment::decode_fragment$")
        if len(enc) != 1 or len(dec) != 1:
            res.violation("%s:codec-shape" % f.name, "expected exactly one decode_fragment and one encode_fragment in %s, found %d/%d" % (f.name, len(dec), len(enc)), rule="R-PROV")
        else:
            ch = flow.arg_chain(f, enc[0][1], 0)
            if ch is None or ch[0][0] != "local" or ch[0][1] not in tx_locals or ch[1]:
                res.violation("%s:encode-source" % f.name, "tx_bytes are not re-encoded from the decoded transaction (encode_fragment argument: %s)" % sym_str(f.sym_operand(enc[0][1]["args"][0])), rule="R-PROV")
            else:
                res.ok("%s:encode-source" % f.name, "R-PROV", "encode_fragment(&tx) where tx is the decode_fragment result local")

    # (c) at most one witness per key: push of a VKeyWitness preceded by a dedup idiom on the same vector
    n_push = 0
    for f in fns:
        for bi, t in flow.calls_matching(f, r"^alloc::vec::Vec::push$"):
            ty = " ".join(t.get("targs", []))
            if "VKeyWitness" not in ty:
                continue
            n_push += 1
            vec = flow.arg_chain(f, t, 0)
            ok = False
            for bj, u in flow.calls_matching(f, DEDUP_IDIOMS):
                if bj == bi or not flow.dominates(f, bj, bi):
                    continue
                ch = flow.arg_chain(f, u, 0)
                if ch is not None and vec is not None and ch[0] == vec[0]:
                    ok = True
                    break
            key = "%s:push-without-dedup" % f.name
            if ok:
                res.ok(key, "R-ORDER", "push of VKeyWitness dominated by a removal/lookup of that key on the same vector")
            else:
                res.violation(key, "%s pushes a VKeyWitness without first removing/looking up an existing witness for the same key: "
                              "signing twice with one key leaves two witnesses" % f.name, where="%s:%s" % (f.file, t["s"][0]), rule="R-ORDER")
    res.floor("VKeyWitness pushes", n_push, 1)   # 2 today; sign/add_signature may share a helper

    # (d) the signature map and the witness vector are updated with the same key and signature
    def leaves(sym):
        out = set()
        from pv.mir import sym_walk
        for sub in sym_walk(sym):
            if sub[0] == "param":
                out.add(("param", sub[1]))
            elif sub[0] == "local" and f.local_name(sub[1]):
                out.add(("local", f.local_name(sub[1])))
        return out
    for f in fns:
        maps = [i for i, l in enumerate(f.locals) if l["ty"].startswith("std::collections::hash::map::HashMap<") and l.get("name")]
        stored = None
        for bi, si, st in f.statements():
            if st[0] == "a" and not isinstance(st[1], int):
                from pv.panic import place_field_steps
                steps = place_field_steps(f, st[1])
                if steps and steps[-1][1] == "signatures":
                    v = f.sym_rvalue(st[2], 8)
                    if v[0] == "agg" and v[2] == "Some" and v[3] and v[3][0][0] == "local":
                        stored = v[3][0][1]
        key = "%s:signature-map-stored" % f.name
        if stored is not None and stored in maps:
            res.ok(key, "R-PROV", "self.signatures = Some(<updated map>)")
        else:
            res.violation(key, "%s does not store the updated signature map back into self.signatures" % f.name, where="%s:%s" % (f.file, f.line), rule="R-PROV")
            continue
        if f.name in ("sign", "add_signature"):
            ins = [(bi, t) for bi, t in flow.calls_matching(f, r"^std::collections::hash::map::HashMap::insert$")
                   if (flow.arg_chain(f, t, 0) or (None,))[0] == ("local", stored)]
            others = [flow.callee_name(t) for bi, t in f.calls()
                      if (flow.arg_chain(f, t, 0) or (None,))[0] == ("local", stored) and flow.callee_name(t).startswith("std::collections::hash::map::HashMap::")
                      and not re.search(r"::(insert|len|get|contains_key|iter|is_empty)$", flow.callee_name(t))]
            wit = flow.aggregates(f, r"VKeyWitness$")
            key = "%s:map-and-witness-agree" % f.name
            if len(ins) != 1 or others or len(wit) != 1:
                res.violation(key, "%s must overwrite the map entry with exactly one HashMap::insert and build one witness (found %d insert, other map mutators %s, %d witnesses): "
                              "otherwise the map and the embedded witness can hold different signatures for a key" % (f.name, len(ins), others, len(wit)),
                              where="%s:%s" % (f.file, f.line), rule="R-PROV")
            else:
                t = ins[0][1]
                k_l, v_l = leaves(f.sym_operand(t["args"][1], 40)), leaves(f.sym_operand(t["args"][2], 40))
                rv = wit[0][2]
                wk_l, ws_l = leaves(f.sym_operand(rv["fields"][0], 40)), leaves(f.sym_operand(rv["fields"][1], 40))
                if k_l and k_l == wk_l and v_l and v_l == ws_l:
                    res.ok(key, "R-PROV", "map key/value and witness vkey/signature derive from the same values %s / %s" % (sorted(k_l), sorted(v_l)))
                else:
                    res.violation(key, "%s inserts (%s -> %s) into the map but embeds a witness built from (%s, %s)" % (f.name, sorted(k_l), sorted(v_l), sorted(wk_l), sorted(ws_l)),
                                  where="%s:%s" % (f.file, f.line), rule="R-PROV")
        else:
            rem = [(bi, t) for bi, t in flow.calls_matching(f, r"^std::collections::hash::map::HashMap::remove$")
                   if (flow.arg_chain(f, t, 0) or (None,))[0] == ("local", stored)]
            ret = flow.calls_matching(f, r"^alloc::vec::Vec::retain")
            key = "%s:map-and-witness-agree" % f.name
            if len(rem) == 1 and len(ret) == 1:
                k_l = leaves(f.sym_operand(rem[0][1]["args"][1], 40))
                r_l = leaves(f.sym_operand(ret[0][1]["args"][1], 40))
                if k_l and k_l == r_l:
                    res.ok(key, "R-PROV", "map removal and witness retain use the same key %s" % sorted(k_l))
                else:
                    res.violation(key, "remove_signature removes key %s from the map but filters witnesses by %s" % (sorted(k_l), sorted(r_l)), where="%s:%s" % (f.file, f.line), rule="R-PROV")
            else:
                res.violation(key, "remove_signature must remove the key from the map and retain the other witnesses (found %d remove, %d retain)" % (len(rem), len(ret)), where="%s:%s" % (f.file, f.line), rule="R-PROV")

    # (e) the map and the embedded witnesses move together: on every path from the store of the updated signature map to an
    # accepting return, the witness set of the decoded transaction is written and tx_bytes is re-encoded from it.  (A write-back
    # that is skipped on some path — e.g. when the last witness was removed — leaves a witness the map no longer lists.)
    from pv.panic import place_field_steps
    for f in fns:
        sig_w, wit_w, bytes_w = [], [], []
        for bi, si, st in f.statements():
            if st[0] == "a" and not isinstance(st[1], int):
                steps = place_field_steps(f, st[1])
                names = [n for _, n in steps]
                if names and names[-1] == "signatures":
                    sig_w.append(bi)
                if "vkeywitness" in names:
                    wit_w.append(bi)
                if names and names[-1] == "tx_bytes":
                    bytes_w.append(bi)
        for bi, t in f.calls():
            d = t.get("dest")
            if d is not None and not isinstance(d, int):
                names = [n for _, n in place_field_steps(f, d)]
                if names and names[-1] == "tx_bytes":
                    bytes_w.append(bi)
                if "vkeywitness" in names:
                    wit_w.append(bi)
                if names and names[-1] == "signatures":
                    sig_w.append(bi)
        oks = [bi for bi, si, rv in flow.aggregates(f, r"^core::result::Result$", variant="Ok")]
        key = "%s:map-and-bytes-move-together" % f.name
        if not sig_w or not bytes_w or not wit_w or not oks:
            res.violation(key, "%s: cannot find the stores of self.signatures (%d), the witness set (%d), self.tx_bytes (%d) or an Ok return (%d)" % (
                f.name, len(sig_w), len(wit_w), len(bytes_w), len(oks)), where="%s:%s" % (f.file, f.line), rule="R-MPT")
            continue
        bad = None
        for s_ in sig_w:
            for o in oks:
                if s_ not in bytes_w and f.can_reach(s_, o, avoid=set(bytes_w)):
                    bad = "an accepting return is reachable after the signature map was updated without re-encoding tx_bytes"
                if s_ not in wit_w and f.can_reach(s_, o, avoid=set(wit_w)):
                    bad = "an accepting return is reachable after the signature map was updated without rewriting the witness set"
        # the other order: bytes rewritten, map not (the store may come first or last)
        for b_ in bytes_w:
            for o in oks:
                if not any(flow.dominates(f, s_, o) for s_ in sig_w):
                    bad = "an accepting return is not dominated by the store of the updated signature map"
        if bad:
            res.violation(key, "%s: %s: the signature map and the witnesses embedded in tx_bytes get out of step" % (f.name, bad), where="%s:%s" % (f.file, f.line), rule="R-MPT")
        else:
            res.ok(key, "R-MPT", "every accepting path stores the map, rewrites the witness set and re-encodes tx_bytes")

    # (b) panic census
    table = panic.load_table("panic_C41.json")
    closure, sites, skipped = panic.census(P, fns)
    res.count("closure_functions", len(closure))
    res.count("panic_sites", len(sites))
    panic.check_sites(res, P, closure, sites, table, "C41")
    for s in sites[:6]:
        res.sample({"site": s.key(), "where": s.where(), "operands": s.detail})
    res.assumptions += ["library calls into pallas-primitives/codec (decode_fragment, encode_fragment) are total: decoding is covered by C09, "
                        "encoding into a Vec cannot fail", "KeepRaw re-encodes its original bytes unless mutably dereferenced (C03(b))"]
    return finish(res,
                  explanation="Decides three necessary structural clauses of C41 (frame conditions on tx_hash and the body, de-duplication before "
                              "each witness push, no unguarded panic site); it does not execute signing and does not check signature validity.",
                  rule_text="R-FRAME(self.tx_hash, tx.transaction_body) + R-ORDER(dedup dominates push) + R-PANIC(sign, add_signature, remove_signature)",
                  trusted_base=["rustc MIR", "tables/panic_C41.json", "Rust aliasing rules (no write without a &mut path)"])
