"""C36 — fee and size limits use the ledger's transaction size.

Decides, for each post-Byron era pipeline (validate_shelley_ma_tx, validate_alonzo_tx, validate_babbage_tx, validate_conway_tx):

 (a) R-CDEP  the minimum-fee comparison: some function reachable from the pipeline compares the transaction body's `fee` with
             `minfee_a * size + minfee_b` (fields of the era's protocol parameters; recognised as a polynomial identity, any
             spelling / operand order / let-binding / checked_* form).  Every Ok-capable return of that function holds
             `fee >= minfee_a*size + minfee_b` (so a fee one lovelace lower is rejected) and no Err of that function is built on
             the `>=` side (so a fee of exactly the minimum is accepted by this rule).
 (b) R-CDEP  the maximum-size comparison: every Ok-capable return of the comparing function holds `size <= max_transaction_size`
             and no Err is built on that side (the limit is enforced at exactly that size).
 (c) R-PROV  the `size` that reaches both comparisons originates — through parameters, `&`, `?`, `ok_or`, casts — from
             MultiEraTx::size of a MultiEraTx built from the validated transaction, or from a helper whose every return value is
             that call or has, per presence of the auxiliary data, the ledger's linear shape (Σ len(raw_cbor(part)) + constant)
             given by the independent oracle spec/tx_size.json.  A size taken from a re-encoding (minicbor::encode of the
             transaction, which includes the phase-2 validity flag) or any other shape is reported.
 (c') R-TABLE MultiEraTx::size itself — tabulated per MultiEraTx variant and per presence of auxiliary data, with body_size /
             witness_set_size / aux_data_size spliced in — equals the oracle for every post-Byron variant: coefficient 1 on the
             raw length of the body, of the witness set and (when present) of the auxiliary data, constant term 1 (array header)
             resp. 2 (header + null); nothing for the validity flag.  The oracle is hand-written from the ledger (CDDL + the
             Alonzo size computation), not from pallas, so a slip inside size.rs (header counted twice, null forgotten, flag
             counted) is reported even though the validator delegates to it.  A variant the oracle does not name fails closed.
 (d) sibling agreement: within an era both comparisons receive the same value; across eras the source has the same class.

Not decided: that raw_cbor() of each part is its on-wire bytes (C03/C05); Byron (the traversal size of a Byron transaction is
its body only, the property does not name it); the integer range of minfee_a*size+minfee_b (C33)."""
import re

from pv.program import Program, AnchorLost
from pv.report import Result, finish
from pv.mir import sym_str, sym_walk, short_path
from pv.tabulate import tabulate, cond_variants
from pv import flow, guards
from pv import x_value as X
from pv.panic import strip_generics

ERAS = {
    "shelley_ma": r"^pallas_validate::phase1::shelley_ma::validate_shelley_ma_tx$",
    "alonzo": r"^pallas_validate::phase1::alonzo::validate_alonzo_tx$",
    "babbage": r"^pallas_validate::phase1::babbage::validate_babbage_tx$",
    "conway": r"^pallas_validate::phase1::conway::validate_conway_tx$",
}
TRAVERSAL_SIZE = r"^pallas_traverse::size::<impl pallas_traverse::MultiEraTx<'_>>::size$"
RAW_FIELDS = ("transaction_body", "transaction_witness_set", "auxiliary_data")


# ------------------------------------------------------------------------------------------------ leaves

def role_leaf(fn, prog=None):
    """Leaf classifier for the comparison polynomials of one function.  A call to a small pure workspace helper
    (`fn min_fee(size, pps) -> u64 { .. }`) is expanded in place."""
    def leaf(s):
        if s[0] == "call" and prog is not None and prog.get(s[1]) is not None:
            inl = X.inline_pure(prog, s)
            if inl is not None:
                return X.poly(inl, leaf)
        oc = flow.origin_chain(s)
        if oc is not None:
            root, fields = oc
            named = [f for f in fields if not f.isdigit() and f != "[]"]
            if named and root[0] == "param":
                ty = fn.local_ty(root[1]) or ""
                last = named[-1]
                if last == "fee" and "TransactionBody" in ty:
                    return "FEE"
                if last in ("minfee_a", "minfee_b", "max_transaction_size") and "ProtParams" in ty:
                    return last.upper()
        return ("V", X.strip_refs(s))
    return leaf


def raw_len_leaf(s):
    """len(raw_cbor(<place ending in one of the three transaction parts>)) -> 'RAW:<field>'."""
    if s[0] == "call" and re.search(r"::len$", strip_generics(s[1])) and len(s[2]) == 1:
        for sub in sym_walk(s[2][0]):
            if sub[0] == "call" and strip_generics(sub[1]).endswith("KeepRaw::raw_cbor") and sub[2]:
                names = [x[2] for x in sym_walk(sub[2][0]) if x[0] == "field" and x[2] in RAW_FIELDS]
                # the outermost field is the last projection applied
                inner = sub[2][0]
                while inner[0] in ("ref", "deref", "downcast") or (inner[0] == "field" and inner[2] not in RAW_FIELDS):
                    inner = inner[1]
                if inner[0] == "field" and inner[2] in RAW_FIELDS:
                    return "RAW:" + inner[2]
                if names:
                    return "RAW:" + names[0]
    return ("X", sym_str(s, 200))


def aux_state(P, conds):
    """'Some' / 'absent' / None (path does not depend on the auxiliary data) / 'other' (depends on something else)."""
    st = None
    for c in conds:
        d = c[0]
        if d[0] == "discr" and any(x[0] == "field" and x[2] == "auxiliary_data" for x in sym_walk(d[1])):
            cv = cond_variants(P, c)
            if cv is None:
                return "other"
            names = cv[1]
            st = "Some" if names == {"Some"} else ("absent" if "Some" not in names else "other")
        elif d[0] == "discr" and X.strip_refs(d[1])[0] in ("deref", "param") and X.strip_refs(d[1]) in (("param", 1, "self"), ("deref", ("param", 1, "self"))):
            continue
        else:
            cv = cond_variants(P, c)
            # conditions on the MultiEraTx variant itself are handled by the caller
            if d[0] == "discr" and sym_str(d[1], 50) in ("*self",):
                continue
            return "other"
    return st


# ------------------------------------------------------------------------------------------------ oracle from size.rs

def traversal_shapes(P):
    """{variant name: {aux_state: poly}} of MultiEraTx::size, tabulated with every pallas-traverse helper it calls inlined
    (conditions conjoined, contradictory combinations dropped), so the split into helper functions does not matter."""
    size_fn = P.one(TRAVERSAL_SIZE)
    adt = P.adt("pallas_traverse::MultiEraTx")
    if adt is None:
        raise AnchorLost("ADT pallas_traverse::MultiEraTx not found")
    vnames = {v["idx"]: v["name"] for v in adt["variants"]}
    vtypes = {v["name"]: " ".join(f["ty"] for f in v["fields"]) for v in adt["variants"]}
    rows = X.tabulate_inlined(P, size_fn, depth=3, inline=lambda g: g.crate == "pallas_traverse")
    shapes = {}
    for conds, ret in rows:
        vs = set(vnames.values())
        rest = []
        for d, c in conds:
            if d[0] == "discr" and sym_str(d[1], 50) == "*self":
                if c[0] == "eq":
                    vs &= {vnames.get(c[1], "?")}
                else:
                    vs -= {vnames.get(i, "?") for i in c[1]}
            else:
                rest.append((d, c))
        st = aux_state(P, rest)
        pl = X.poly(ret, raw_len_leaf)
        for v in vs:
            slot = shapes.setdefault(v, {})
            if st in slot and slot[st] != pl:
                slot["other"] = pl          # two different sizes under the same auxiliary-data state: not a function of it
            else:
                slot[st] = pl
    return shapes, vtypes


# ------------------------------------------------------------------------------------------------ independent oracle

def oracle_shapes():
    """{variant: {'Some': poly, 'absent': poly}} from spec/tx_size.json (hand-written from the ledger, not from pallas)."""
    import json
    import os
    from pv.facts import VERIF
    sp = json.load(open(os.path.join(VERIF, "spec", "tx_size.json")))
    hdr, null = int(sp["array_header_bytes"]), int(sp["null_bytes"])
    parts = {("RAW:" + p,): 1 for p in sp["parts"]}
    some = dict(parts)
    some[("RAW:" + sp["optional_part"],)] = 1
    some[()] = hdr
    absent = dict(parts)
    absent[()] = hdr + null
    return {v: {"Some": dict(some), "absent": dict(absent)} for v in sp["variants"]}, set(sp.get("unspecified_variants", {}))


def check_traversal_against_oracle(res, P, shapes, oracle, unspecified):
    """The tabulated MultiEraTx::size (helpers spliced) must be, for every post-Byron variant and both auxiliary-data states,
    exactly the ledger's linear form: coefficient 1 on each raw length, constant = header (+ null)."""
    size_fn = P.one(TRAVERSAL_SIZE)
    where = "%s:%s" % (size_fn.file, size_fn.line)
    adt = P.adt("pallas_traverse::MultiEraTx")
    for v in adt["variants"]:
        name = v["name"]
        if name in unspecified:
            continue
        if name not in oracle:
            res.violation("oracle:size.rs:%s:unspecified" % name, "MultiEraTx::%s is not covered by spec/tx_size.json: its size cannot be judged (extend the oracle)" % name,
                          where=where, rule="R-TABLE")
            continue
        got = shapes.get(name, {})
        odd = [k for k in got if k not in ("Some", "absent", None)]
        if odd:
            res.violation("oracle:size.rs:%s:not-a-function-of-aux" % name, "MultiEraTx::size of a %s transaction depends on something other than the presence of its "
                          "auxiliary data (or cannot be tabulated): %s" % (name, X.poly_str(got[odd[0]])), where=where, rule="R-TABLE")
            continue
        for st in ("Some", "absent"):
            key = "oracle:size.rs:%s:aux-%s" % (name, "present" if st == "Some" else "absent")
            pl = got.get(st, got.get(None))
            if pl is None:
                res.violation(key, "MultiEraTx::size has no analysable return for variant %s with auxiliary data %s" % (name, "present" if st == "Some" else "absent"),
                              where=where, rule="R-TABLE")
            elif pl != oracle[name][st]:
                res.violation(key, "MultiEraTx::size of a %s transaction with auxiliary data %s is %s; the ledger measures %s (spec/tx_size.json: 1-byte array header + body + "
                              "witness set + auxiliary data or 1-byte null, validity flag not counted)" % (
                                  name, "present" if st == "Some" else "absent", X.poly_str(pl), X.poly_str(oracle[name][st])), where=where, rule="R-TABLE")
            else:
                res.ok(key, "R-TABLE", "size.rs = %s" % X.poly_str(pl))


# ------------------------------------------------------------------------------------------------ size source classes

def classify_source(P, fn, sym, shapes, vtypes, depth=2):
    """Classify the origin of a size value.  Returns (class, detail): class in
    'traversal' | 'shape' | 're-encoding' | 'shape-mismatch' | 'unknown'."""
    s = X.unwrap_chain(sym)
    if s[0] != "call":
        pl = X.poly(s, raw_len_leaf)
        if pl and all(isinstance(k, str) for m in pl for k in m):
            return "shape-mismatch", "the size is computed in place as %s, which is not the ledger size (%s); call MultiEraTx::size or a helper" % (
                X.poly_str(pl), " | ".join(sorted({X.poly_str(p_) for sh in shapes.values() for st, p_ in sh.items() if st is not None})))
        return "unknown", "the size is %s, not the result of a size computation" % sym_str(s, 120)
    name = s[1]
    if re.search(TRAVERSAL_SIZE, name):
        recv = s[2][0] if s[2] else ("unknown",)
        from_tx = any(x[0] == "param" and re.search(r"::Tx<|::Tx$|MultiEraTx", fn.local_ty(x[1]) or "") for x in sym_walk(recv))
        if from_tx:
            return "traversal", "MultiEraTx::size of a MultiEraTx built from the validated transaction"
        return "unknown", "MultiEraTx::size of %s, which is not derived from the validated transaction" % sym_str(recv, 100)
    g = P.get(name)
    if g is None or depth <= 0:
        if re.search(r"minicbor::encode|Encoder::encode|::to_vec$", strip_generics(name)):
            return "re-encoding", "the size is taken from a re-encoding (%s)" % short_path(name)
        return "unknown", "size produced by %s, which is not analysable" % short_path(name)
    # helper: every returned value must be traversal / the size.rs shape
    ptys = [g.local_ty(i) or "" for i in range(1, g.argc + 1)]
    variant = None
    for v, ty in vtypes.items():
        m = re.search(r"pallas_primitives::\w+::model::Tx(?:Payload)?", ty)
        if m and any(m.group(0) + "<" in pt or pt.endswith(m.group(0)) for pt in ptys):
            variant = v
    rows = []
    try:
        paths = tabulate(g, P, 256)
    except Exception as e:
        return "unknown", "%s cannot be tabulated (%s)" % (g.path, e)
    classes = []
    for p in paths:
        if p.end != "return" or p.ret is None:
            continue
        r = p.ret
        if r[0] == "agg" and r[1] == "core::option::Option" and r[2] == "None":
            continue            # "size unknown": the pipeline turns it into an error
        u = X.unwrap_chain(r)
        if u[0] == "call" and (re.search(TRAVERSAL_SIZE, u[1]) or P.get(u[1]) is not None):
            classes.append(classify_source(P, g, u, shapes, vtypes, depth - 1))
            continue
        if any(x[0] == "call" and re.search(r"minicbor::encode$|Encoder::encode$|minicbor::to_vec$", strip_generics(x[1])) for x in sym_walk(r)) or \
                any(c[0][0] == "discr" and any(x[0] == "call" and re.search(r"minicbor::encode$|minicbor::to_vec$", strip_generics(x[1])) for x in sym_walk(c[0])) for c in p.conds):
            classes.append(("re-encoding", "%s measures a re-encoding of the whole transaction (minicbor::encode), which includes the phase-2 validity flag" % g.path))
            continue
        st = aux_state(P, p.conds)
        pl = X.poly(u, raw_len_leaf)
        rows.append((st, pl))
    if rows:
        if variant is None or variant not in shapes:
            classes.append(("unknown", "%s: cannot tell which MultiEraTx variant its parameter corresponds to" % g.path))
        else:
            want = shapes[variant]
            for st, pl in rows:
                if st == "other":
                    classes.append(("shape-mismatch", "%s: the size depends on something other than the presence of auxiliary data" % g.path))
                    continue
                for wst, wpl in want.items():
                    if st is not None and wst is not None and st != wst:
                        continue
                    if pl != wpl:
                        classes.append(("shape-mismatch", "%s computes %s when the auxiliary data is %s; the ledger size (spec/tx_size.json) is %s" % (
                            g.path, X.poly_str(pl), wst or "anything", X.poly_str(wpl))))
                    else:
                        classes.append(("shape", "%s has the ledger shape %s (aux %s)" % (g.name, X.poly_str(pl), wst)))
    if not classes:
        return "unknown", "%s returns no analysable size" % g.path
    for bad in ("re-encoding", "shape-mismatch", "unknown"):
        for c, d in classes:
            if c == bad:
                return c, d
    if all(c == "traversal" for c, _ in classes):
        return "traversal", "%s returns MultiEraTx::size of the validated transaction" % g.name
    return "shape", "; ".join(sorted({d for _, d in classes}))


# ------------------------------------------------------------------------------------------------ comparators

def find_comparators(P, entry, era):
    """Functions of pallas-validate reachable from the pipeline that compare against minfee_a / max_transaction_size."""
    closure = P.closure_of([entry], stop=lambda g: g.crate != "pallas_validate" or "::phase2::" in g.path)
    fee, size = [], []
    for path, (f, _) in closure.items():
        leaf = role_leaf(f, P)
        for bi in f.live_blocks():
            t = f.blocks[bi]["term"]
            if t["k"] != "switch":
                continue
            c = f.sym_operand(t["d"])
            while c[0] == "un" and c[1] == "Not":
                c = c[2]
            if c[0] != "bin" or c[1] not in guards.NEG:
                continue
            d = X._padd(X.poly(c[2], leaf), X.poly(c[3], leaf), -1)
            keys = {k for m in d for k in m}
            if "MINFEE_A" in keys or "MINFEE_B" in keys:
                fee.append((f, bi, d))
            elif "MAX_TRANSACTION_SIZE" in keys:
                size.append((f, bi, d))
    return fee, size


def fee_target(d):
    """If d == ±(FEE - MINFEE_A*S - MINFEE_B) return (target polynomial oriented as FEE - min, S leaf) else None."""
    s_leaves = {k for m in d for k in m if isinstance(k, tuple) and k[0] == "V"}
    if len(s_leaves) != 1:
        return None
    s = next(iter(s_leaves))
    want = {("FEE",): 1, ("MINFEE_B",): -1, tuple(sorted(("MINFEE_A", s), key=repr)): -1}
    if X._proportional(d, want) in (1, -1):
        return want, s
    return None


def size_target(d):
    s_leaves = {k for m in d for k in m if isinstance(k, tuple) and k[0] == "V"}
    if len(s_leaves) != 1:
        return None
    s = next(iter(s_leaves))
    want = {(s,): 1, ("MAX_TRANSACTION_SIZE",): -1}
    if X._proportional(d, want) in (1, -1):
        return want, s
    return None


def check_comparator(res, era, f, bi, target, leaf, kind):
    """Ok-capable returns must hold target>=0 (fee) / target<=0 (size); Errs controlled by the comparison must be on the
    other side."""
    good, strict_bad, label = ("Ge", "Gt", "fee >= minfee_a*size + minfee_b") if kind == "fee" else ("Le", "Lt", "size <= max_transaction_size")
    where = "%s:%s" % (f.file, f.blocks[bi]["term"]["s"][0])
    key = "%s:%s-comparison" % (era, kind)
    srcs = X.ok_sources(f)
    if not srcs:
        res.violation(key + ":no-ok", "%s has no Ok-capable return" % f.path, where=where, rule="R-CDEP")
        return
    okall = True
    inconclusive = []
    n_before = len(res.violations)
    for sb, how in srcs:
        rels = X.relations_at(f, sb, target, leaf)
        if good in rels or "Eq" in rels:
            continue
        okall = False
        if rels == {"Ne"}:
            # an equality special case says nothing about the ordering; the Err it guards is judged below
            inconclusive.append((sb, how))
            continue
        if strict_bad in rels:
            msg = ("%s accepts only when the fee is strictly above the minimum: a fee of exactly minfee_a*size+minfee_b is rejected" if kind == "fee"
                   else "%s accepts only when the size is strictly below max_transaction_size: a transaction of exactly the maximum size is rejected") % f.path
            res.violation(key + ":strictness", msg, where=where, rule="R-CDEP")
        elif rels:
            res.violation(key + ":polarity", "%s returns Ok on the side where %s does NOT hold (known there: %s)" % (f.path, label, sorted(rels)), where=where, rule="R-CDEP")
        else:
            res.violation(key + ":unguarded-ok", "%s has an Ok-capable return (%s) that is not control dependent on %s" % (f.path, how, label), where=where, rule="R-CDEP")
    # Err on the accepting side
    for ebb, si, rv in flow.aggregates(f, r"^core::result::Result$", variant="Err"):
        rels = X.relations_at(f, ebb, target, leaf)
        if good in rels or "Eq" in rels:
            okall = False
            res.violation(key + ":err-on-accepting-side", "%s builds an Err where %s holds: a %s is rejected" % (
                f.path, label, "sufficient fee" if kind == "fee" else "transaction within the size limit"), where=where, rule="R-CDEP")
    if inconclusive and len(res.violations) == n_before:
        sb, how = inconclusive[0]
        res.violation(key + ":unguarded-ok", "%s has an Ok-capable return (%s) that only excludes equality with the bound, not the wrong side of %s" % (f.path, how, label),
                      where=where, rule="R-CDEP")
    if okall:
        res.ok(key, "R-CDEP", "%s: every Ok-capable return holds %s and no Err is built on that side" % (f.name, label))


def run(tier):
    res = Result("C36", tier, level="other")
    P = Program(crates=["pallas_validate", "pallas_traverse", "pallas_codec"])
    tshapes, vtypes = traversal_shapes(P)
    oracle, unspecified = oracle_shapes()
    res.count("size.rs shapes (variant x aux state)", sum(len(v) for v in tshapes.values()))
    res.floor("size.rs shapes extracted", sum(len(v) for k, v in tshapes.items() if k != "Byron"), 4)
    for v, sh in sorted(tshapes.items()):
        for st, pl in sorted(sh.items(), key=lambda x: str(x[0])):
            res.sample({"size.rs": v, "aux": st, "size": X.poly_str(pl)})
    check_traversal_against_oracle(res, P, tshapes, oracle, unspecified)
    # helpers that compute a size themselves are compared with the oracle, not with size.rs
    shapes = oracle
    classes = {}
    for era, rx in ERAS.items():
        entry = P.one(rx)
        fee, size = find_comparators(P, entry, era)
        res.count("%s: min-fee comparisons" % era, len(fee))
        res.count("%s: max-size comparisons" % era, len(size))
        if not fee:
            res.violation("%s:no-min-fee-comparison" % era, "no function reachable from %s compares the fee with minfee_a/minfee_b: the minimum fee is not enforced (or the rule lost its anchor)" % entry.path,
                          where="%s:%s" % (entry.file, entry.line), rule="R-PIPE")
        if not size:
            res.violation("%s:no-max-size-comparison" % era, "no function reachable from %s compares the size with max_transaction_size" % entry.path,
                          where="%s:%s" % (entry.file, entry.line), rule="R-PIPE")
        origins = {}
        for kind, lst, mk in (("fee", fee, fee_target), ("size", size, size_target)):
            for f, bi, d in lst:
                leaf = role_leaf(f, P)
                tg = mk(d)
                where = "%s:%s" % (f.file, f.blocks[bi]["term"]["s"][0])
                if tg is None:
                    res.violation("%s:%s-comparison:shape" % (era, kind), "%s compares %s — not %s" % (
                        f.path, X.poly_str(d), "fee against minfee_a*size + minfee_b" if kind == "fee" else "size against max_transaction_size"),
                        where=where, rule="R-CDEP")
                    continue
                target, s_leaf = tg
                check_comparator(res, era, f, bi, target, leaf, kind)
                # the comparing function must be on the pipeline's success path
                ok, why = X.must_succeed(P, entry, {f.path}, depth=3)
                if ok:
                    res.ok("%s:%s-comparison:in-pipeline" % (era, kind), "R-PIPE", "%s: %s" % (f.name, why))
                else:
                    res.violation("%s:%s-comparison:in-pipeline" % (era, kind), "%s can return Ok without %s having returned Ok (%s)" % (entry.path, f.path, why),
                                  where="%s:%s" % (entry.file, entry.line), rule="R-PIPE")
                # provenance of the size
                outs = X.trace_origins(P, f, s_leaf[1])
                cl = set()
                for g, osym in outs:
                    c, detail = classify_source(P, g, osym, shapes, vtypes)
                    cl.add((c, detail, repr(X.unwrap_chain(osym))[:400], g.path))
                origins[kind] = cl
                for c, detail, _, gpath in sorted(cl):
                    key = "%s:%s-size-source" % (era, kind)
                    if c in ("traversal", "shape"):
                        res.ok(key, "R-PROV", detail)
                    else:
                        res.violation(key + ":" + c, "the size used by the %s check of %s does not come from the traversal size: %s" % (
                            "minimum-fee" if kind == "fee" else "maximum-size", era, detail), where="%s:%s" % (entry.file, entry.line), rule="R-PROV")
        if "fee" in origins and "size" in origins:
            a = {(x[2], x[3]) for x in origins["fee"]}
            b = {(x[2], x[3]) for x in origins["size"]}
            if a == b:
                res.ok("%s:same-size-for-both" % era, "R-PROV", "the minimum-fee and maximum-size checks receive the same size value")
            else:
                res.violation("%s:same-size-for-both" % era, "the minimum-fee check and the maximum-size check of %s measure the transaction differently" % era,
                              where="%s:%s" % (entry.file, entry.line), rule="R-PROV")
        classes[era] = {x[0] for k in origins.values() for x in k}
    good = [e for e, c in classes.items() if c and c <= {"traversal", "shape"}]
    if len(good) == len(ERAS):
        res.ok("sibling-agreement", "R-PROV", "all four post-Byron eras take the size from the traversal size")
    elif good:
        res.violation("sibling-agreement", "eras disagree on how a transaction is measured: %s use the traversal size, %s do not" % (
            sorted(good), sorted(set(ERAS) - set(good))), rule="R-PROV")
    res.assumptions += ["the ledger measures [body, wits, aux / null] with the original bytes of each part (spec/tx_size.json)",
                        "KeepRaw::raw_cbor returns the original bytes of the decoded part (C03/C05)"]
    return finish(res,
                  explanation="Provenance of the size that reaches the minimum-fee and maximum-size comparisons of each post-Byron pipeline (must be the traversal "
                              "size or a helper with the ledger's linear shape, never a re-encoding), MultiEraTx::size itself compared per variant and auxiliary-data state with a "
                              "hand-written ledger oracle (spec/tx_size.json), plus polarity and strictness of both comparisons "
                              "read as polynomial (in)equalities from the branch facts that hold at every Ok-capable return. Does not decide Byron nor "
                              "that raw_cbor() is the on-wire encoding of each part.",
                  rule_text="R-CDEP(fee >= minfee_a*size+minfee_b at every Ok; size <= max_transaction_size at every Ok; no Err on those sides) + "
                            "R-PROV(size originates from MultiEraTx::size or a ledger-shaped helper; same value for both checks; all eras agree) + "
                            "R-TABLE(MultiEraTx::size == spec/tx_size.json per variant x aux state) + R-PIPE",
                  trusted_base=["rustc MIR", "spec/tx_size.json (hand-written from the ledger CDDL and the Alonzo size computation)"])
