// Exhibit for the C44 *known finding* (no small repair: the u5c Metadatum schema has no carrier wider
// than int64).  Place as pallas-utxorpc/tests/metadatum_int_exhibit.rs and run
//   cargo test --offline -p pallas-utxorpc --test metadatum_int_exhibit
// The test states the expected behaviour (the mapped integer equals the ledger integer) and FAILS on
// the current tree: metadatum 2^63 is mapped to Int(-9223372036854775808), 2^64-1 to Int(-1).

use pallas_codec::utils::Int;
use pallas_primitives::alonzo::Metadatum;
use pallas_utxorpc::v1beta::spec::cardano as u5c;

#[derive(Clone)]
struct NoLedger;

impl pallas_utxorpc::LedgerContext for NoLedger {
    fn get_utxos(&self, _refs: &[pallas_utxorpc::TxoRef]) -> Option<pallas_utxorpc::UtxoMap> {
        None
    }

    fn get_slot_timestamp(&self, _slot: u64) -> Option<u64> {
        None
    }
}

#[test]
fn metadatum_integers_outside_i64_are_not_preserved() {
    for value in [1i128 << 63, u64::MAX as i128, -(1i128 << 63) - 1] {
        let datum = Metadatum::Int(Int::try_from(value).unwrap());
        let mapped = pallas_utxorpc::v1beta::Mapper::<NoLedger>::map_metadatum(&datum);
        match mapped.metadatum {
            Some(u5c::metadatum::Metadatum::Int(v)) => {
                assert_eq!(i128::from(v), value, "metadatum integer {value} was mapped to {v}")
            }
            other => panic!("unexpected mapping {other:?}"),
        }
    }
}
