#!/bin/bash
# Like tools/variants_check.sh, for properties whose variants are written against /repo *with the proposed fixes applied*
# (C35, C37, C38: the unchanged tree carries genuine findings, so a behaviour-preserving variant of it is not silent).
# For each variant a scratch copy of /repo is made, every proposed/C35|C37/fix-*.diff that still applies is applied (in name
# order; once the coordinator has committed the fixes to /repo they no longer apply and are skipped), then the variant.
# usage: tools/variants_check_fixed.sh [Cnn ...]     (default: C35 C37 C38)   exit 0 iff every variant behaved as its name says
# env:   VARIANTS_CARGO_CHECK=1  also run `cargo check --offline -p pallas-validate` on each variant (CARGO_TARGET_DIR required)
set -u
cd "$(dirname "$0")/.."
ids="$@"; [ -z "$ids" ] && ids="C35 C37 C38"
fail=0
for id in $ids; do
  for v in variants/$id/*.diff; do
    [ -f "$v" ] || continue
    name=$(basename $v .diff)
    S=$(mktemp -d /var/tmp/pallas_varf_XXXXXX)
    rsync -a --exclude target --exclude .git /repo/ $S/
    for fx in $(ls proposed/C35/fix-*.diff proposed/C37/fix-*.diff 2>/dev/null | sort); do
      if (cd $S && patch -p1 -s --dry-run < /verif/$fx >/dev/null 2>&1); then (cd $S && patch -p1 -s < /verif/$fx); fi
    done
    if ! (cd $S && patch -p1 -s < /verif/$v); then
      echo "$id/$name: PATCH-DOES-NOT-APPLY"; fail=1; rm -rf $S; continue
    fi
    if [ "${VARIANTS_CARGO_CHECK:-0}" = "1" ]; then
      if ! (cd $S && cargo check --offline -p pallas-validate >/dev/null 2>&1); then echo "$id/$name: DOES-NOT-COMPILE"; fail=1; rm -rf $S; continue; fi
    fi
    out=$(PALLAS_REPO=$S ./check $id 2>&1); rc=$?
    nv=$(echo "$out" | grep -c '^VIOLATION')
    case $name in
      break-*)  if [ $rc -ne 0 ] && [ $nv -ge 1 ]; then echo "$id/$name: reported (ok) $(echo "$out" | grep -c 'violation:') violation(s): $(echo "$out" | grep 'violation:' | head -1 | cut -d: -f2-3 | cut -c1-90)"; else echo "$id/$name: MISSED"; fail=1; fi ;;
      benign-*) if [ $rc -eq 0 ] && [ $nv -eq 0 ]; then echo "$id/$name: silent (ok)"; else echo "$id/$name: FALSE-ALARM"; echo "$out" | grep 'violation:' | head -5; fail=1; fi ;;
      *) echo "$id/$name: unknown prefix" ;;
    esac
    rm -rf $S
  done
done
exit $fail
