#!/bin/bash
# Run every claimed check against each behaviour-preserving refactoring patch in <dir>/{A,B,C,D}/patch.diff.
# Any VIOLATION is a false alarm to triage.  usage: tools/try_refactors.sh <refactor-dir> [Cnn ...]
cd "$(dirname "$0")/.."
d=$1; shift
for m in A B C D; do
  [ -f $d/$m/patch.diff ] || continue
  echo "== $d/$m"
  tools/try_patch.sh $d/$m/patch.diff "$@" 2>&1 | grep -v conda | grep -v " silent$" | cut -c1-300
done
