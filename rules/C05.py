"""C05 — ledger identity hashes are taken over the original on-wire bytes.

Decides the provenance clause: wherever the library holds the original bytes (KeepRaw<T>), the bytes that are hashed come from them.
 (a) every `impl OriginalHash for KeepRaw<T>`: the hashed data is `self.raw_cbor()` (or `hash_cbor` of a value that *contains* the
     KeepRaw, whose Encode replays the raw bytes), with the era prefix / script tag constant the ledger prescribes and the digest size
     matching the Hash<N> returned;
 (b) deref-then-rehash: in the crates that work on decoded data (traverse, validate incl. phase2, utxorpc, hardano) no call to a
     re-encoding hasher (ComputeHash::compute_hash of a T with an OriginalHash counterpart, hash_cbor / hash_tagged_cbor, or a
     workspace helper that encodes its argument and hashes it) receives a value obtained by dereferencing / unwrapping a KeepRaw<T>;
 (c) MultiEraTx::hash / MultiEraHeader::hash dispatch every variant to an original_hash impl; MultiEraBlock::hash = header().hash()."""
import re
from pv.program import Program
from pv.report import Result, finish
from pv.tabulate import tabulate, cond_variants
from pv.mir import sym_str, sym_walk
from pv import flow
from pv.panic import strip_generics

PREFIX = {"EbbHead": 0, "BlockHead": 1}       # Byron header hash prefixes
SCRIPT_TAG = {"NativeScript": 0}
DIGEST_BITS = {"28": 224, "32": 256}


def keepraw_target(path):
    m = re.search(r"OriginalHash<(\d+)> for pallas_codec::utils::KeepRaw<'_, (.*)>>::original_hash$", path)
    if not m:
        return None
    ty = m.group(2)
    return m.group(1), ty, re.sub(r"<.*$", "", ty).split("::")[-1]


def derives_from_keepraw_deref(sym):
    for sub in sym_walk(sym):
        if sub[0] == "call":
            n = strip_generics(sub[1])
            if re.search(r"KeepRaw as core::ops::deref::Deref::deref$|pallas_codec::utils::KeepRaw::unwrap$|KeepRaw as core::ops::deref::DerefMut::deref_mut$", n):
                return n
        if sub[0] == "field" and sub[2] == "inner":
            return "field .inner"
    return None


def run(tier):
    res = Result("C05", tier, level="other")
    P = Program(crates=["pallas_codec", "pallas_traverse", "pallas_validate", "pallas_utxorpc", "pallas_hardano"])
    # (a)
    originals = {}
    n = 0
    for f in P.find(r"OriginalHash<\d+> for pallas_codec::utils::KeepRaw<.*>>::original_hash$"):
        kt = keepraw_target(f.path)
        if not kt:
            continue
        size, ty, short = kt
        originals[short] = f
        n += 1
        key = "original:%s" % re.sub(r"pallas_primitives::", "", re.sub(r"<.*$", "", ty))
        hcalls = [(bi, t) for bi, t in f.calls() if re.search(r"pallas_crypto::hash::hasher::Hasher::(hash|hash_tagged|hash_cbor|hash_tagged_cbor)$", flow.callee_name(t))]
        if len(hcalls) != 1:
            res.violation(key, "original_hash for KeepRaw<%s> does not consist of exactly one Hasher call (%d)" % (short, len(hcalls)), where="%s:%s" % (f.file, f.line), rule="R-PROV")
            continue
        bi, t = hcalls[0]
        name = flow.callee_name(t).split("::")[-1]
        bits = re.search(r"Hasher::<(\d+)>", t.get("ffull") or t.get("gfull") or "")
        problems = []
        if not bits or int(bits.group(1)) != DIGEST_BITS[size]:
            problems.append("digest size %s bits for Hash<%s>" % (bits.group(1) if bits else "?", size))
        data = f.sym_operand(t["args"][0])
        if name in ("hash", "hash_tagged"):
            if not any(sub[0] == "call" and strip_generics(sub[1]).endswith("KeepRaw::raw_cbor") for sub in sym_walk(data)):
                problems.append("hashed bytes are %s, not self.raw_cbor()" % sym_str(data, 80))
            if derives_from_keepraw_deref(data):
                problems.append("hashed bytes derive from the dereferenced value")
        else:
            targ = " ".join(t.get("targs", []))
            if "KeepRaw<" not in targ:
                problems.append("hash_cbor over %s re-encodes the value instead of replaying the KeepRaw bytes" % targ[:80])
        if name in ("hash_tagged", "hash_tagged_cbor"):
            tag = f.sym_operand(t["args"][1])
            want = SCRIPT_TAG.get(short)
            if want is None or tag[0] != "const" or int(tag[1]) != want:
                problems.append("script tag %s (expected %s)" % (sym_str(tag), want))
        if short in PREFIX:
            consts = [int(sub[1]) for sub in sym_walk(data) if sub[0] == "const"]
            if PREFIX[short] not in consts or name != "hash_cbor":
                problems.append("Byron header prefix %s not found in the hashed tuple (%s)" % (PREFIX[short], consts))
        if problems:
            res.violation(key + "=>" + ";".join(p.split(" ")[0] for p in problems), "original_hash for KeepRaw<%s>: %s" % (short, "; ".join(problems)), where="%s:%s" % (f.file, f.line), rule="R-PROV")
        else:
            res.ok(key, "R-PROV", "%s(%s) over the original bytes" % (name, sym_str(data, 60)))
            res.sample({"impl": short, "hasher": name, "data": sym_str(data, 100)})
    res.floor("OriginalHash impls for KeepRaw<T>", n, 10)

    # (b) deref-then-rehash in decode-side crates, default + phase2 configuration
    def scan(prog, tag):
        cnt = 0
        for f in prog.fns.values():
            if f.crate not in ("pallas_traverse", "pallas_validate", "pallas_utxorpc", "pallas_hardano") or "::tests::" in f.path:
                continue
            # the ComputeHash impls themselves legitimately re-encode their (plain) receiver
            for bi, t in f.calls():
                name = flow.callee_name(t)
                target = t.get("f") or ""
                rehash = None
                if re.search(r"ComputeHash<\d+> for .*::compute_hash$", target) or (t.get("g") or "").endswith("ComputeHash::compute_hash"):
                    m = re.search(r"ComputeHash<\d+> for ([^>]*?)(<.*)?>::compute_hash$", target)
                    short = m.group(1).split("::")[-1] if m else None
                    if short in originals or m is None:
                        rehash = "compute_hash of %s" % (short or "?")
                elif re.search(r"Hasher::(hash_cbor|hash_tagged_cbor)$", name):
                    targ = " ".join(t.get("targs", []))
                    if "KeepRaw<" not in targ:
                        rehash = name.split("::")[-1]
                elif re.search(r"pallas_validate::utils::compute_native_script_hash$", name):
                    rehash = "compute_native_script_hash (encodes, then hashes)"
                if rehash is None or not t["args"]:
                    continue
                cnt += 1
                src = derives_from_keepraw_deref(f.sym_operand(t["args"][0], 30))
                if src:
                    key = "rehash[%s]:%s:%s" % (tag, f.path.split("pallas_")[-1], rehash.split(" ")[0])
                    res.violation(key, "%s hashes a re-encoding: %s is applied to a value obtained through %s although the original bytes are at hand (use original_hash / hash the KeepRaw)" % (
                        f.path, rehash, src), where="%s:%s" % (f.file, t["s"][0]), rule="R-PROV")
        return cnt
    cnt = scan(P, "default")
    P2 = Program(crates=["pallas_validate"], config="phase2")
    cnt2 = scan(P2, "phase2")
    res.count("re-encoding hash call sites inspected (default)", cnt)
    res.count("re-encoding hash call sites inspected (phase2)", cnt2)
    res.floor("re-encoding hash call sites inspected", cnt + cnt2, 8)
    if not any(v["key"].startswith("rehash") for v in res.violations):
        res.ok("no-deref-then-rehash", "R-PROV", "%d re-encoding hash call sites: none receives a dereferenced/unwrapped KeepRaw" % (cnt + cnt2))

    # (c) dispatch tables
    for rx, floor_ in ((r"MultiEraTx<'b>>::hash$", 4), (r"MultiEraHeader<'b>>::hash$", 4)):
        f = P.one(rx)
        rows = 0
        for p in tabulate(f, P, 64):
            if p.end != "return":
                continue
            cv = dict(c for c in (cond_variants(P, c) for c in p.conds) if c)
            for v in cv.get("*self", ()):
                rows += 1
                key = "%s:%s" % (f.name if f.name else "hash", f.path.split("MultiEra")[1].split("<")[0] + ":" + v)
                ok = p.ret is not None and p.ret[0] == "call" and re.search(r"OriginalHash<\d+> for pallas_codec::utils::KeepRaw<.*>>::original_hash$", p.ret[1])
                if ok:
                    res.ok(key, "R-TABLE", "variant %s -> %s" % (v, p.ret[1].split(" for ")[-1][:60]))
                else:
                    res.violation(key, "%s for variant %s is %s, not an original_hash over the kept bytes" % (f.path, v, sym_str(p.ret, 120) if p.ret else None), where="%s:%s" % (f.file, f.line), rule="R-TABLE")
        res.floor("%s rows" % f.path.split("::")[-2], rows, floor_)
    f = P.one(r"MultiEraBlock<'b>>::hash$")
    rows = [p for p in tabulate(f, P, 8) if p.end == "return"]
    ok = len(rows) == 1 and rows[0].ret[0] == "call" and rows[0].ret[1].endswith("::hash") and any(s[0] == "call" and s[1].endswith("::header") for s in sym_walk(rows[0].ret))
    if ok:
        res.ok("block-hash", "R-TABLE", "MultiEraBlock::hash = header().hash()")
    else:
        res.violation("block-hash", "MultiEraBlock::hash is not header().hash()", where="%s:%s" % (f.file, f.line), rule="R-TABLE")
    res.assumptions += ["KeepRaw::encode replays the original bytes when present (C03(b))", "Blake2b itself (cryptoxide) is correct (C10)",
                        "values unwrapped from KeepRaw in one function and hashed in another (alonzo phase-1 native scripts) are beyond the intraprocedural provenance"]
    return finish(res,
                  explanation="Provenance of the hashed bytes at every identity-hash site: OriginalHash impls read raw_cbor(); decode-side code never feeds a dereferenced "
                              "KeepRaw into a re-encoding hasher; the multi-era dispatchers select original_hash for every variant. Digest values are not computed.",
                  rule_text="R-PROV(original_hash data = raw_cbor, constants) + R-PROV(no deref-then-rehash, default+phase2) + R-TABLE(hash dispatch)",
                  trusted_base=["rustc MIR", "era prefix/tag constants (ledger spec)"])
