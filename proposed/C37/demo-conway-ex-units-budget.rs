// Demonstration tests for the C37 findings (Conway execution-unit budget).
//
// Where they go: paste the two #[test] functions into `mod conway_tests` of
// pallas-validate/tests/conway.rs (they use that module's imports and its
// `mk_preview_params_epoch_380` helper), then run
//     cargo test --offline -p pallas-validate --test conway ex_units_budget
//
// Both start from the accepted preview transaction b41ebebf...d36f (test_data/conway4.tx, one Plutus V3
// spend redeemer in the map encoding, ex_units mem=19728 steps=6218182) and only lower the
// protocol parameter max_tx_ex_units to {mem: 1, steps: 1}: the redeemer's budget now exceeds the
// per-transaction maximum, so phase-1 must answer TxExUnitsExceeded.
//
//  * ex_units_budget_enforced_with_witness_script   — fails without fix-1-conway-ex-units-sum.diff
//        (the Plutus script is also put into the witness set, so the budget rule is entered; the sums stay 0
//        because the `.map(..)` adaptors are never consumed)
//  * ex_units_budget_enforced_with_reference_script — fails without fix-2-ex-units-reference-scripts.diff
//        (the script is only available through a reference input; the budget rule is skipped altogether)

    // Builds the accepted conway4.tx scenario; `with_witness_script` additionally copies the reference
    // script into the witness set.  Returns the validation verdict under a {1, 1} execution-unit maximum.
    fn run_conway4_with_tiny_ex_unit_budget(
        with_witness_script: bool,
    ) -> Result<(), pallas_validate::utils::ValidationError> {
        let cbor_bytes: Vec<u8> = cbor_to_bytes(include_str!("../../test_data/conway4.tx"));
        let mut mtx: Tx = conway_minted_tx_from_cbor(&cbor_bytes);
        let script_bytes = hex::decode("58a701010032323232323225333002323232323253330073370e900118041baa0011323322533300a3370e900018059baa00513232533300f30110021533300c3370e900018069baa00313371e6eb8c040c038dd50039bae3010300e37546020601c6ea800c5858dd7180780098061baa00516300c001300c300d001300937540022c6014601600660120046010004601000260086ea8004526136565734aae7555cf2ab9f5742ae89").unwrap();
        let mut wits_buf: Vec<u8> = Vec::new();
        if with_witness_script {
            let mut tx_wits = (*mtx.transaction_witness_set).clone();
            tx_wits.plutus_v3_script = Some(
                pallas_codec::utils::NonEmptySet::from_vec(vec![PlutusScript::<3>(Bytes::from(
                    script_bytes.clone(),
                ))])
                .unwrap(),
            );
            let _ = encode(tx_wits, &mut wits_buf);
            mtx.transaction_witness_set =
                Decode::decode(&mut Decoder::new(wits_buf.as_slice()), &mut ()).unwrap();
        }
        let metx: MultiEraTx = MultiEraTx::from_conway(&mtx);
        let datum_bytes = cbor_to_bytes("d8799f4568656c6c6fff");
        let datum_option = DatumOption::Data(CborWrap(minicbor::decode(&datum_bytes).unwrap()));
        let datum_option = minicbor::to_vec(datum_option).unwrap();
        let datum_option: KeepRaw<'_, DatumOption> = minicbor::decode(&datum_option).unwrap();
        let mut tx_outs_info: Vec<ConwayTxOutInfoMut> = vec![
            (
                String::from(
                    "005c5c318d01f729e205c95eb1b02d623dd10e78ea58f72d0c13f892b2e8904edc699e2f0ce7b72be7cec991df651a222e2ae9244eb5975cba",
                ),
                Value::Coin(2554710123),
                None,
                None,
                Vec::new(),
            ),
            (
                String::from("70faae60072c45d121b6e58ae35c624693ee3dad9ea8ed765eb6f76f9f"),
                // 100 ada: with the spent key UTxO (which is also the collateral input) at its full value
                // of 2554710123 the transaction balances exactly
                Value::Coin(100000000),
                Some(datum_option),
                None,
                Vec::new(),
            ),
        ];
        let mut utxos: UTxOs =
            mk_codec_safe_utxo_for_conway_tx(&mtx.transaction_body, &mut tx_outs_info);
        let mut ref_info: Vec<ConwayRefInputInfoMut> = vec![(
            String::from("70faae60072c45d121b6e58ae35c624693ee3dad9ea8ed765eb6f76f9f"),
            Value::Coin(1624870),
            None,
            Some(CborWrap(ScriptRef::PlutusV3Script(PlutusScript::<3>(Bytes::from(
                script_bytes,
            ))))),
            Vec::new(),
        )];
        add_codec_safe_ref_input_conway(&mtx.transaction_body, &mut utxos, &mut ref_info);
        let mut collateral_info: Vec<ConwayCollateralInfoMut> = vec![(
            String::from(
                "005c5c318d01f729e205c95eb1b02d623dd10e78ea58f72d0c13f892b2e8904edc699e2f0ce7b72be7cec991df651a222e2ae9244eb5975cba",
            ),
            // the collateral input is the first spent input: collateral return (2554439518) + annotated total
            // collateral (270605), so the collateral rules (which run once a Plutus script is in the witness
            // set) are satisfied
            Value::Coin(2554710123),
            None,
            None,
            Vec::new(),
        )];
        add_codec_safe_collateral_conway(&mtx.transaction_body, &mut utxos, &mut collateral_info);
        let mut params: ConwayProtParams = mk_preview_params_epoch_380();
        // The only change with respect to the accepted scenario: a per-transaction budget that the
        // transaction's single redeemer exceeds in both dimensions.
        params.max_tx_ex_units = ExUnits { mem: 1, steps: 1 };
        // Keep the (unrelated) linear fee rule out of the way of the variant that enlarges the witness set.
        params.minfee_a = 0;
        let env: Environment = Environment {
            prot_params: MultiEraProtocolParameters::Conway(params),
            prot_magic: 2,
            block_slot: 74735000,
            network_id: 0,
            acnt: Some(AccountState {
                treasury: 261_254_564_000_000,
                reserves: 0,
            }),
        };
        let mut cert_state: CertState = CertState::default();
        validate_txs(std::slice::from_ref(&metx), &env, &utxos, &mut cert_state)
    }

    #[test]
    // The redeemers' execution units are summed and compared with max_tx_ex_units when the Plutus script
    // is part of the witness set.
    fn ex_units_budget_enforced_with_witness_script() {
        match run_conway4_with_tiny_ex_unit_budget(true) {
            Err(PostAlonzo(PostAlonzoError::TxExUnitsExceeded)) => (),
            other => panic!("execution units above max_tx_ex_units must be rejected, got {other:?}"),
        }
    }

    #[test]
    // The same holds when the Plutus script is only supplied through a reference input.
    fn ex_units_budget_enforced_with_reference_script() {
        match run_conway4_with_tiny_ex_unit_budget(false) {
            Err(PostAlonzo(PostAlonzoError::TxExUnitsExceeded)) => (),
            other => panic!("execution units above max_tx_ex_units must be rejected, got {other:?}"),
        }
    }
