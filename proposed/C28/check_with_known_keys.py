#!/usr/bin/env python3
"""Run ./check C28 with the proposed known-finding keys applied (the coordinator owns known_findings.jsonl)."""
import sys, os, json
sys.path.insert(0, "/verif"); os.chdir("/verif")
import pv.report as R
keys = json.load(open("/verif/proposed/C28/known_keys.json"))
orig = R.load_known
def lk():
    known, fixed = orig()
    for k in keys:
        known.setdefault("C28", {})[k["key"]] = {"property": "C28", "key": k["key"], "what": k["what"]}
    return known, fixed
R.load_known = lk
import rules.C28 as m
sys.exit(m.run("quick"))
