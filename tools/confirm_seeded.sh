#!/bin/bash
# Re-confirm every seeded mutation in a scratch worktree: demo fails with the patch, passes without, existing crate tests pass with it.
# usage: tools/confirm_seeded.sh [ids...]
set -u
WT=/tmp/confirm_wt
TGT=/tmp/confirm_target
export CARGO_NET_OFFLINE=true
ids="$@"
[ -z "$ids" ] && ids=$(ls /verif/seeded)
git -C /repo worktree remove --force $WT 2>/dev/null
git -C /repo worktree add -q --detach $WT HEAD || exit 1
for id in $ids; do
  d=/verif/seeded/$id
  [ -f $d/patch.diff ] || continue
  crate_dir=$(grep -m1 '^diff --git a/' $d/patch.diff | sed 's#diff --git a/\([^/]*\)/.*#\1#')
  demo=$(ls $d/*.rs 2>/dev/null | head -1)
  name=$(basename "$demo" .rs)
  out=$d/confirm.json
  cd $WT && git checkout -q -- . && git clean -fdq -e target
  if ! git apply --check $d/patch.diff 2>/dev/null; then
    echo "{\"id\":\"$id\",\"status\":\"patch does not apply to current HEAD\"}" > $out; echo "$id: patch does not apply"; continue
  fi
  mkdir -p $WT/$crate_dir/tests && cp "$demo" $WT/$crate_dir/tests/$name.rs
  # original: demo must pass
  CARGO_TARGET_DIR=$TGT cargo test --offline -p $crate_dir --test $name > /tmp/confirm_orig.log 2>&1; orig=$?
  git apply $d/patch.diff
  CARGO_TARGET_DIR=$TGT cargo test --offline -p $crate_dir --test $name > /tmp/confirm_mut.log 2>&1; mut=$?
  rm -f $WT/$crate_dir/tests/$name.rs
  CARGO_TARGET_DIR=$TGT cargo test --offline -p $crate_dir > /tmp/confirm_suite.log 2>&1; suite=$?
  echo "{\"id\":\"$id\",\"crate\":\"$crate_dir\",\"demo\":\"$name\",\"demo_on_original_exit\":$orig,\"demo_on_mutant_exit\":$mut,\"existing_tests_on_mutant_exit\":$suite,\"confirmed\":$([ $orig -eq 0 ] && [ $mut -ne 0 ] && [ $suite -eq 0 ] && echo true || echo false)}" > $out
  cat $out
done
cd /; git -C /repo worktree remove --force $WT; rm -rf $TGT
