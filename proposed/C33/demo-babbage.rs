// Goes into pallas-validate/tests/babbage.rs, inside `mod babbage_tests` (before the first `#[test]`).
// All three tests fail before the fixes, pass with them:
//  * ex_units_total_does_not_fit_in_64_bits    - panic: attempt to add with overflow in babbage::check_tx_ex_units
//                                                (fix-ex-units-sum.diff; same loop in alonzo.rs)
//  * conway_era_utxo_spent_by_a_babbage_tx      - panic: not implemented, babbage::val_from_multi_era_output
//                                                (fix-babbage-output-value.diff)
//  * consumed_asset_total_does_not_fit_in_i64   - panic: attempt to add with overflow in utils::add_same_policy_assets
//                                                (fix-multiasset-arith.diff)

    // Spent outputs of babbage4.tx (see tx_ex_units_exceeded), with the given value for both of them when provided.
    fn babbage4_tx_outs_info(value: Option<Value>) -> Vec<BabbageTxOutInfo<'static>> {
        let script_input_value = value.clone().unwrap_or(Value::Coin(25000000));
        let key_input_value = value.unwrap_or(Value::Multiasset(
            1795660,
            [(
                "787f0c946b98153500edc0a753e65457250544da8486b17c85708135"
                    .parse()
                    .unwrap(),
                [(
                    Bytes::from(
                        hex::decode("506572666563744c6567656e64617279446572705365616c").unwrap(),
                    ),
                    1,
                )]
                .into(),
            )]
            .into(),
        ));
        vec![
            (
                String::from(
                    "11a55f409501bf65805bb0dc76f6f9ae90b61e19ed870bc0025681360881728e7ed4cf324e1323135e7e6d931f01e30792d9cdf17129cb806d",
                ),
                script_input_value,
                Some(DatumOption::Hash(
                    hex::decode("3E8C4B1D396BB8132E5097F5A2F012D97900CBC496A3745DB4226CEA4CB66465")
                        .unwrap()
                        .as_slice()
                        .into(),
                )),
                None,
            ),
            (
                String::from(
                    "01f1e126304308006938d2e8571842ff87302fff95a037b3fd838451b8b3c9396d0680d912487139cb7fc85aa279ea70e8cdacee4c6cae40fd",
                ),
                key_input_value,
                None,
                None,
            ),
        ]
    }

    fn babbage4_collateral_info() -> Vec<BabbageCollateralInfo<'static>> {
        vec![(
            String::from(
                "01f1e126304308006938d2e8571842ff87302fff95a037b3fd838451b8b3c9396d0680d912487139cb7fc85aa279ea70e8cdacee4c6cae40fd",
            ),
            Value::Coin(5000000),
            None,
            None,
        )]
    }

    fn babbage4_env() -> Environment {
        Environment {
            prot_params: MultiEraProtocolParameters::Babbage(mk_mainnet_params_epoch_365()),
            prot_magic: 764824073,
            block_slot: 72317003,
            network_id: 1,
            acnt: Some(AccountState {
                treasury: 261_254_564_000_000,
                reserves: 0,
            }),
        }
    }

    #[test]
    // Same as tx_ex_units_exceeded (with the real protocol limits), except that the redeemer of the
    // transaction is duplicated and each copy declares 2^63 memory units and steps.
    fn ex_units_total_does_not_fit_in_64_bits() {
        let cbor_bytes: Vec<u8> = cbor_to_bytes(include_str!("../../test_data/babbage4.tx"));
        let mut mtx: Tx = babbage_minted_tx_from_cbor(&cbor_bytes);
        let (tx_outs_info, collateral_info) = (babbage4_tx_outs_info(None), babbage4_collateral_info());
        let mut utxos: UTxOs = mk_utxo_for_babbage_tx(&mtx.transaction_body, &tx_outs_info);
        add_collateral_babbage(&mtx.transaction_body, &mut utxos, &collateral_info);
        let mut tx_wits: WitnessSet = mtx.transaction_witness_set.deref().clone();
        let mut redeemer = tx_wits.redeemer.clone().unwrap()[0].clone();
        redeemer.ex_units.mem = 1 << 63;
        redeemer.ex_units.steps = 1 << 63;
        tx_wits.redeemer = Some(vec![redeemer.clone(), redeemer]);
        let mut tx_buf: Vec<u8> = Vec::new();
        let _ = encode(tx_wits, &mut tx_buf);
        mtx.transaction_witness_set =
            Decode::decode(&mut Decoder::new(tx_buf.as_slice()), &mut ()).unwrap();
        let metx: MultiEraTx = MultiEraTx::from_babbage(&mtx);
        let mut env: Environment = babbage4_env();
        if let MultiEraProtocolParameters::Babbage(pps) = &mut env.prot_params {
            pps.minfee_b -= 44 * 64; // the second redeemer makes the transaction about 40 bytes longer
        }
        let mut cert_state: CertState = CertState::default();
        match validate_txs(&[metx], &env, &utxos, &mut cert_state) {
            Ok(()) => panic!("Transaction ex units should be below maximum"),
            Err(err) => match err {
                PostAlonzo(PostAlonzoError::TxExUnitsExceeded) => (),
                _ => panic!("Unexpected error ({err:?})"),
            },
        }
    }

    #[test]
    // Same as successful_mainnet_tx, except that the UTxO set holds the spent output as a
    // Conway-era output.
    fn conway_era_utxo_spent_by_a_babbage_tx() {
        let cbor_bytes: Vec<u8> = cbor_to_bytes(include_str!("../../test_data/babbage3.tx"));
        let mtx: Tx = babbage_minted_tx_from_cbor(&cbor_bytes);
        let metx: MultiEraTx = MultiEraTx::from_babbage(&mtx);
        let address_bytes: Bytes = Bytes::from(
            hex::decode("011be1f490912af2fc39f8e3637a2bade2ecbebefe63e8bfef10989cd6f593309a155b0ebb45ff830747e61f98e5b77feaf7529ce9df351382")
                .unwrap(),
        );
        let tx_out = pallas_primitives::conway::TransactionOutput::PostAlonzo(
            pallas_primitives::conway::PostAlonzoTransactionOutput {
                address: address_bytes,
                value: pallas_primitives::conway::Value::Coin(103324335),
                datum_option: None,
                script_ref: None,
            }
            .into(),
        );
        let mut utxos: UTxOs = UTxOs::new();
        utxos.insert(
            MultiEraInput::AlonzoCompatible(Box::new(Cow::Owned(
                mtx.transaction_body.inputs[0].clone(),
            ))),
            MultiEraOutput::Conway(Box::new(Cow::Owned(tx_out))),
        );
        let env: Environment = Environment {
            prot_params: MultiEraProtocolParameters::Babbage(mk_mainnet_params_epoch_365()),
            prot_magic: 764824073,
            block_slot: 72316896,
            network_id: 1,
            acnt: Some(AccountState {
                treasury: 261_254_564_000_000,
                reserves: 0,
            }),
        };
        let mut cert_state: CertState = CertState::default();
        // The value of the Conway-era output is counted like any other; the witness checks, which only
        // know pre-Conway outputs, then report the input as unusable.
        match validate_txs(&[metx], &env, &utxos, &mut cert_state) {
            Ok(()) => panic!("A Babbage transaction cannot spend a Conway-era output"),
            Err(err) => match err {
                PostAlonzo(PostAlonzoError::InputNotInUTxO) => (),
                _ => panic!("Unexpected error ({err:?})"),
            },
        }
    }

    #[test]
    // Same as successful_mainnet_tx_with_plutus_v1_script (babbage4.tx), except that both spent UTxOs
    // hold 2^62 units of the same asset.
    fn consumed_asset_total_does_not_fit_in_i64() {
        let cbor_bytes: Vec<u8> = cbor_to_bytes(include_str!("../../test_data/babbage4.tx"));
        let mtx: Tx = babbage_minted_tx_from_cbor(&cbor_bytes);
        let big_value = Value::Multiasset(
            25000000,
            [(
                "787f0c946b98153500edc0a753e65457250544da8486b17c85708135"
                    .parse()
                    .unwrap(),
                [(Bytes::from(vec![0x61]), 1u64 << 62)].into(),
            )]
            .into(),
        );
        let (tx_outs_info, collateral_info) =
            (babbage4_tx_outs_info(Some(big_value)), babbage4_collateral_info());
        let mut utxos: UTxOs = mk_utxo_for_babbage_tx(&mtx.transaction_body, &tx_outs_info);
        add_collateral_babbage(&mtx.transaction_body, &mut utxos, &collateral_info);
        let metx: MultiEraTx = MultiEraTx::from_babbage(&mtx);
        let env: Environment = babbage4_env();
        let mut cert_state: CertState = CertState::default();
        match validate_txs(&[metx], &env, &utxos, &mut cert_state) {
            Ok(()) => panic!("The consumed value cannot be represented"),
            Err(err) => match err {
                PostAlonzo(PostAlonzoError::NegativeValue) => (),
                _ => panic!("Unexpected error ({err:?})"),
            },
        }
    }
