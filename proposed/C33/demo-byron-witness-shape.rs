// Goes into pallas-validate/tests/byron.rs, inside `mod byron_tests` (before the first `#[test]`).
// Both tests fail before the fix (panics: `copy_from_slice` length mismatch in byron::get_signature;
// `entered unreachable code` in byron::mk_spending_data), pass with proposed/C33/fix-byron-witness-shape.diff.

    #[test]
    // Same as wrong_signature, except that the signature is 10 bytes long.
    fn short_signature_is_rejected() {
        let cbor_bytes: Vec<u8> = cbor_to_bytes(include_str!("../../test_data/byron1.tx"));
        let mut mtxp: TxPayload = minted_tx_payload_from_cbor(&cbor_bytes);
        let new_wit: Twit = match mtxp.witness[0].clone() {
            Twit::PkWitness(CborWrap((pk, _))) => {
                Twit::PkWitness(CborWrap((pk, [0u8; 10].to_vec().into())))
            }
            _ => unreachable!(),
        };
        let new_witnesses: Witnesses = MaybeIndefArray::Def(vec![new_wit]);
        let mut tx_buf: Vec<u8> = Vec::new();
        encode(new_witnesses, &mut tx_buf).unwrap();
        mtxp.witness = Decode::decode(&mut Decoder::new(tx_buf.as_slice()), &mut ()).unwrap();
        let metx: MultiEraTx = MultiEraTx::from_byron(&mtxp);
        let utxos: UTxOs = mk_utxo_for_byron_tx(
            &mtxp.transaction,
            &[(
                String::from(
                    "83581cff66e7549ee0706abe5ce63ba325f792f2c1145d918baf563db2b457a101581e581cca3e553c9c63c5927480e7434620200eb3a162ef0b6cf6f671ba925100",
                ),
                19999000000,
            )],
        );
        let env: Environment = hardcoded_environment_values!();
        let mut cert_state: CertState = CertState::default();
        match validate_txs(&[metx], &env, &utxos, &mut cert_state) {
            Ok(()) => panic!("A 10-byte signature cannot verify"),
            Err(err) => match err {
                Byron(ByronError::UnableToProcessWitness) => (),
                _ => panic!("Unexpected error ({err:?})"),
            },
        }
    }

    #[test]
    // Same as successful_mainnet_tx, except that the spent UTxO sits at a Byron address
    // of type `Script` (last byte of the address payload: 01 instead of 00).
    fn script_address_input_is_rejected() {
        let cbor_bytes: Vec<u8> = cbor_to_bytes(include_str!("../../test_data/byron1.tx"));
        let mtxp: TxPayload = minted_tx_payload_from_cbor(&cbor_bytes);
        let metx: MultiEraTx = MultiEraTx::from_byron(&mtxp);
        let utxos: UTxOs = mk_utxo_for_byron_tx(
            &mtxp.transaction,
            &[(
                String::from(
                    "83581cff66e7549ee0706abe5ce63ba325f792f2c1145d918baf563db2b457a101581e581cca3e553c9c63c5927480e7434620200eb3a162ef0b6cf6f671ba925101",
                ),
                19999000000,
            )],
        );
        let env: Environment = hardcoded_environment_values!();
        let mut cert_state: CertState = CertState::default();
        match validate_txs(&[metx], &env, &utxos, &mut cert_state) {
            Ok(()) => panic!("A key witness cannot spend a script address"),
            Err(err) => match err {
                Byron(ByronError::MissingWitness) => (),
                _ => panic!("Unexpected error ({err:?})"),
            },
        }
    }
