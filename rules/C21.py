"""C21 — message reassembly is independent of segment boundaries (both networking stacks).

Reassembly works by *retrying*: the receiving side appends every chunk to a per-channel buffer, runs the mini-protocol
message decoder over the buffer, and tells "the message is not complete yet" from "the bytes are wrong" by one bit only: the
decoder's error is `minicbor::decode::Error::is_end_of_input()`.  The check decides the clauses this discipline rests on:

 R-EOI   In the closure of every mini-protocol `Message` decoder of both stacks (everything they call in the workspace:
         payload types, pallas-codec utils, pallas-crypto hashes) a `Result<_, minicbor::decode::Error>` is only *propagated*.
         Stated over paths, not spellings: on every path on which such a result is `Err`, the function returns a value that
         still carries that very error (`?`, `match … Err(e) => return Err(e)`, `if r.is_err() { return r }`, `map`, `and_then`,
         `map_err(|e| e.with_message(..))` …), except on the `false` side of an `is_end_of_input()` test on that error.
         Testing (`is_err`/`is_ok`/`if let Ok`/`Err(_) =>`), defaulting (`ok()`, `unwrap_or*`, `map_or*`), discarding
         (`let _ =`), replacing by a fresh error, or panicking on it turns a truncated buffer into a wrong message or a hard
         failure and is reported.
 RETRY   Every function of the two stacks that runs a decoder over a byte buffer (`Decoder::new`, the retry sites): on the
         `Ok` path the buffer is consumed by exactly `Decoder::position()` of the decoder that produced the message, read
         after the decode, and the message is returned; on `Err` the buffer is untouched; on `Err ∧ end-of-input` "no message"
         is returned (`Ok(None)` / `None`); a `Result`-returning site must consult `is_end_of_input()` on every Err path and
         return `Err` for the other errors (a site returning `Option` may answer "no message" to every failure).
 BUF-1   original stack, `ChannelBuffer`: every chunk taken from the demuxer is appended to the one buffer that is handed to
         the retry site; nothing else mutates that buffer; after every append a decode attempt lies on every path to the next
         `dequeue_chunk` or return (a complete message is never left waiting for a further chunk).
 BUF-2   P2P stack, `BearerReadHalf::read_full_msgs`: the leftover removed from the per-channel map is extended with the new
         chunk (in that order), decoded in place, and what is left is re-inserted under the same key it was removed with
         (and dispatched with), the insertion depending on nothing but the buffer's emptiness; once the segment is joined to
         the buffer, `from_payload` is attempted on every path to the return / next `read_segment`; every `from_payload`
         implementation hands the very payload it was given to the retry site.
"""
import re

from pv.program import Program
from pv.report import Result, finish
from pv.mir import pl_local, pl_proj, op_place, sym_str
from pv.panic import strip_generics
from pv import x_net as X
from pv.x_net import cname, where

CRATES = ["pallas_network", "pallas_network2", "pallas_codec", "pallas_crypto"]
MSG_ADT = re.compile(r"^pallas_network::miniprotocols::\w+::(\w+::)?Message$|^pallas_network2::protocol::(\w+::)+Message$")

TRY_BRANCH = "core::result::Result as core::ops::try_trait::Try::branch"
FROM_RESIDUAL = "core::result::Result as core::ops::try_trait::FromResidual::from_residual"
CHAIN_OK = re.compile(r"^core::result::Result::(map|and_then|inspect)$")
TESTS = {"core::result::Result::is_err": True, "core::result::Result::is_ok": False}


def is_test_code(f):
    return bool(re.search(r"::tests?::|::test_|#\[test\]", f.path)) or "/tests/" in (f.file or "")


# --------------------------------------------------------------------------------------------------------------- R-EOI

def message_decoders(P):
    ents = []
    for (tr, name), fl in P.impl_index.items():
        if tr.startswith("minicbor::decode::Decode") and name == "decode":
            for f in fl:
                if MSG_ADT.search(f.b.get("impl_adt") or ""):
                    ents.append(f)
    return ents


def tracked_locals(f):
    return {i for i, l in enumerate(f.locals) if X.RES_DECODE.match(l["ty"])}


def producer_label(f, l):
    """Short label of what produced tracked local l (callee of the defining call, else 'value')."""
    for bi, si, kind, payload in f.defs().get(l, []):
        if kind == "call":
            return strip_generics(payload.get("f") or payload.get("g") or "indirect").split("::")[-1]
        if kind == "assign" and payload[2]["k"] == "use":
            p = op_place(payload[2]["x"])
            if p is not None and not pl_proj(p):
                return producer_label(f, pl_local(p)) if pl_local(p) != l else "value"
            return "item"
    return "value"


def fresh_only(f, l):
    """Every definition of l is a locally built `Ok(..)`/`Err(..)` aggregate (not a decoder's result)."""
    ds = f.defs().get(l, [])
    return bool(ds) and all(kind == "assign" and payload[2]["k"] == "agg" for bi, si, kind, payload in ds)


def deref_root(f, l, og):
    """x if l is a temporary holding `&x` (x whole local), else l."""
    ds = og.defs().get(l, [])
    if len(ds) == 1 and ds[0][0] == "st" and ds[0][3][2]["k"] in ("ref", "rawptr"):
        p = ds[0][3][2]["p"]
        if not pl_proj(p) or all(e[0] == "deref" for e in pl_proj(p)):
            return deref_root(f, pl_local(p), og) if pl_local(p) != l else l
    return l


def check_map_err_closure(P, f, t):
    """map_err(f): accepted iff f returns (a with_message/at decoration of) its argument on every path."""
    if len(t["args"]) < 2:
        return False, "no closure argument"
    g = X.closure_fn_of_operand(P, f, t["args"][1])
    if g is None:
        return False, "the mapping function is not a closure defined at the call (cannot show it keeps the error)"
    ef = X.ErrFlow(g)
    ef.run(0, 0, {g.argc} if g.argc >= 1 else set(), {})
    if ef.fail:
        return False, "the closure replaces the error (%s)" % ef.fail[0][0]
    return True, "closure returns its argument"


def check_or_else_closure(P, f, t):
    if len(t["args"]) < 2:
        return False, "no closure argument"
    g = X.closure_fn_of_operand(P, f, t["args"][1])
    if g is None:
        return False, "the fallback is not a closure defined at the call"
    ef = X.ErrFlow(g)
    ef.run(0, 0, {g.argc}, {})
    if ef.fail:
        return False, "the fallback does not return the error when it is end-of-input (%s)" % ef.fail[0][0]
    return True, "fallback returns the error unless !is_end_of_input()"


def eoi_function(P, f, res, counts):
    """All obligations of one function of the decoder closure."""
    tracked = tracked_locals(f)
    if not tracked:
        return
    og = X.Origins(f)
    consumers = {}     # tracked local -> number of consuming uses
    ordinals = {}

    def key(kind, l):
        lab = producer_label(f, l)
        base = "eoi:%s:%s:%s" % (f.path, lab, kind)
        n = ordinals[base] = ordinals.get(base, 0) + 1
        return base + ("#%d" % n if n > 1 else "")

    def used(l):
        consumers[l] = consumers.get(l, 0) + 1

    def skip(l):
        return l == 0 or fresh_only(f, l)

    for bi in f.live_blocks():
        b = f.blocks[bi]
        for si, s in enumerate(b["st"]):
            if s[0] != "a":
                continue
            dst, rv = s[1], s[2]
            k = rv["k"]
            span = s[-1] if isinstance(s[-1], list) else None
            if k in ("use", "cast", "repeat"):
                p = op_place(rv["x"])
                if p is None or pl_local(p) not in tracked:
                    continue
                l = pl_local(p)
                used(l)
                if pl_proj(p) or skip(l):
                    continue          # payload extraction `(r as Ok).0` — guarded by a discriminant test, judged there
                if isinstance(dst, int) and (dst in tracked or dst == 0):
                    continue          # moved into another tracked local / the return place
                counts["escape"] += 1
                res.violation(key("stored", l), "%s: the decoder result of `%s` is stored away (%s) instead of being propagated; whether a "
                              "truncated buffer still ends in an end-of-input error can no longer be seen" % (f.path, producer_label(f, l), k),
                              where=where(f, span), rule="R-EOI")
            elif k in ("ref", "rawptr"):
                p = rv["p"]
                if pl_local(p) in tracked and not pl_proj(p):
                    used(pl_local(p))
                    if not (isinstance(dst, int) and dst in tracked) and not skip(pl_local(p)):
                        res.violation(key("borrowed", pl_local(p)), "%s: a borrow of the decoder result of `%s` escapes into a value the rule "
                                      "cannot follow" % (f.path, producer_label(f, pl_local(p))), where=where(f, span), rule="R-EOI")
            elif k == "discr":
                p = rv["p"]
                l = pl_local(p)
                if l not in tracked:
                    continue
                root = l if not pl_proj(p) else deref_root(f, l, og)
                used(l)
                used(root)
                if skip(root):
                    continue
                if not consumed_by_switch(f, bi, si, dst):
                    continue          # discriminant reads inserted by drop elaboration are not tests
                counts["tests"] += 1
                ef = X.ErrFlow(f)
                ef.run(bi, si, {root}, {root: 1})
                judge(res, f, key("match", root), ef, "matched on (`match`/`if let`)", root, span, counts)
            elif k == "agg":
                for fo in rv["fields"]:
                    p = op_place(fo)
                    if p is not None and pl_local(p) in tracked and not pl_proj(p) and not skip(pl_local(p)):
                        used(pl_local(p))
                        if rv.get("ak") == "adt" and (rv.get("adt") or "").startswith(("core::result::Result", "core::ops::control_flow::ControlFlow", "core::option::Option")):
                            continue
                        res.violation(key("stored", pl_local(p)), "%s: the decoder result of `%s` is stored in an aggregate instead of being "
                                      "propagated" % (f.path, producer_label(f, pl_local(p))), where=where(f, span), rule="R-EOI")
        t = b["term"]
        if t["k"] != "call":
            continue
        name = cname(t)
        for i, a in enumerate(t["args"]):
            p = op_place(a)
            if p is None or pl_proj(p) or pl_local(p) not in tracked:
                continue
            l = pl_local(p)
            root = deref_root(f, l, og)
            used(l)
            used(root)
            if skip(root):
                continue
            span = t.get("s")
            counts["consumers"] += 1
            if name == TRY_BRANCH:
                d = t["dest"]
                if not isinstance(d, int) or t.get("t") is None:
                    res.violation(key("try", root), "%s: `?` on `%s` in a shape the rule cannot follow" % (f.path, producer_label(f, root)),
                                  where=where(f, span), rule="R-EOI")
                    continue
                ef = X.ErrFlow(f)
                ef.run(t["t"], 0, {d}, {d: 1})
                judge(res, f, key("try", root), ef, "`?`-ed", root, span, counts)
            elif name == FROM_RESIDUAL:
                d = t["dest"]
                dty = f.local_ty(pl_local(d))
                if X.RES_DECODE.match(dty):
                    res.ok(key("residual", root), "R-EOI", "residual returned as the same error type")
                else:
                    res.violation(key("residual", root), "%s: the decoder error is converted into `%s` by `?`; end-of-input is no longer "
                                  "recognisable by the retry logic" % (f.path, dty[:80]), where=where(f, span), rule="R-EOI")
            elif CHAIN_OK.match(name) and i == 0:
                d = t["dest"]
                if isinstance(d, int) and (d in tracked or d == 0):
                    res.ok(key(name.split("::")[-1], root), "R-EOI", "error-preserving combinator; its result is tracked in turn")
                else:
                    res.violation(key(name.split("::")[-1], root), "%s: result of `%s` leaves the tracked error type" % (f.path, name), where=where(f, span), rule="R-EOI")
            elif name == "core::result::Result::map_err" and i == 0:
                ok, why = check_map_err_closure(P, f, t)
                if ok:
                    res.ok(key("map_err", root), "R-EOI", why)
                else:
                    res.violation(key("map_err", root), "%s: `map_err` on the result of `%s`: %s — a truncated buffer no longer yields an "
                                  "end-of-input error" % (f.path, producer_label(f, root), why), where=where(f, span), rule="R-EOI")
            elif name == "core::result::Result::or_else" and i == 0:
                ok, why = check_or_else_closure(P, f, t)
                if ok:
                    res.ok(key("or_else", root), "R-EOI", why)
                else:
                    res.violation(key("or_else", root), "%s: `or_else` on the result of `%s`: %s" % (f.path, producer_label(f, root), why),
                                  where=where(f, span), rule="R-EOI")
            elif name in TESTS and i == 0:
                d = t["dest"]
                counts["tests"] += 1
                if not isinstance(d, int) or t.get("t") is None:
                    res.violation(key("tested", root), "%s: `%s` on `%s` in a shape the rule cannot follow" % (f.path, name, producer_label(f, root)),
                                  where=where(f, span), rule="R-EOI")
                    continue
                ef = X.ErrFlow(f)
                ef.run(t["t"], 0, {root}, {root: 1}, {d: TESTS[name]})
                judge(res, f, key("tested", root), ef, "tested with `%s()`" % name.split("::")[-1], root, span, counts)
            else:
                short = name.split("::")[-1]
                res.violation(key(short, root), "%s: the decoder result of `%s` is consumed by `%s`, which tests, defaults, discards or replaces "
                              "the error: when the buffer is merely truncated the end-of-input error is lost and the retry logic sees a wrong "
                              "message or a hard error instead of \"need more bytes\"" % (f.path, producer_label(f, root), name),
                              where=where(f, span), rule="R-EOI")
    # discarded results: produced by a call, never consumed
    for bi, t in f.calls():
        d = t["dest"]
        if isinstance(d, int) and d in tracked and d != 0 and consumers.get(d, 0) == 0:
            counts["consumers"] += 1
            res.violation(key("discarded", d), "%s: the result of `%s` is discarded (`let _ =` / statement): an end-of-input error of this call is "
                          "ignored and decoding continues on a truncated buffer" % (f.path, cname(t)), where=where(f, t.get("s")), rule="R-EOI")


def consumed_by_switch(f, bi, si, dst):
    """Is the discriminant read at (bi, si) into local dst the operand of the block's switch (a real test)?"""
    if not isinstance(dst, int):
        return False
    t = f.blocks[bi]["term"]
    if t["k"] != "switch":
        return False
    p = op_place(t["d"])
    if p is None:
        return False
    l = pl_local(p)
    if l == dst:
        return True
    # moved once
    for s in f.blocks[bi]["st"][si + 1:]:
        if s[0] == "a" and s[1] == l and s[2]["k"] == "use" and op_place(s[2]["x"]) == dst:
            return True
    return False


def judge(res, f, key, ef, how, root, span, counts):
    if not ef.fail:
        counts["propagated"] += 1
        res.ok(key, "R-EOI", "%s; every Err path returns the error%s" % (how, " (or is the !is_end_of_input() side)" if ef.guarded else ""))
        return
    kinds = sorted({k for k, _ in ef.fail})
    bb = ef.fail[0][1]
    w = X.term_where(f, bb) if f.blocks[bb]["term"].get("s") else where(f, span)
    what = {"returns-without-error": "returns a value or a different error", "diverges": "panics / diverges",
            "budget": "is too large to follow"}
    res.violation(key, "%s: the result of `%s` is %s and its Err path %s (near %s) although the error may be end-of-input: a truncated "
                  "buffer is turned into a wrong message / hard failure instead of \"need more bytes\"; propagate the error (at least when "
                  "`is_end_of_input()`)" % (f.path, producer_label(f, root), how, " and ".join(what.get(k, k) for k in kinds), w),
                  where=where(f, span), rule="R-EOI")


def check_eoi(res, P):
    ents = message_decoders(P)
    res.count("message_decoders", len(ents))
    res.floor("message-decoders", len(ents), 10)
    stacks = {e.crate for e in ents}
    if stacks != {"pallas_network", "pallas_network2"}:
        res.violation("eoi:stacks", "message decoders found only in %s" % sorted(stacks), rule="R-EOI")
    closure = P.closure_of(ents)
    fns = [f for f, _ in closure.values() if not is_test_code(f)]
    res.count("closure_functions", len(fns))
    counts = {"consumers": 0, "tests": 0, "propagated": 0, "escape": 0}
    n_with = 0
    for f in sorted(fns, key=lambda f: f.path):
        before = len(res.obligations)
        eoi_function(P, f, res, counts)
        if len(res.obligations) > before:
            n_with += 1
    res.count("functions_with_decoder_results", n_with)
    res.count("decoder_result_consumers", counts["consumers"])
    res.count("results_tested", counts["tests"])
    res.count("paths_shown_propagating", counts["propagated"])
    res.floor("decoder-result-consumers", counts["consumers"], 60)
    return closure


# --------------------------------------------------------------------------------------------------------------- RETRY

DECODER_NEW = re.compile(r"^minicbor::decode::decoder::Decoder::new$")
DECODE_CALL = re.compile(r"^minicbor::decode::decoder::Decoder::(decode|decode_with)$")
POSITION = re.compile(r"^minicbor::decode::decoder::Decoder::position$")
CONSUME = re.compile(r"^alloc::vec::Vec::(drain|split_off)$")
NET_CRATES = ("pallas_network", "pallas_network2")
# external callees that receive the buffer reference generically (`T: AsRef<[u8]>` / `Debug`) and can only read it
READ_ONLY = re.compile(r"^(hex::encode|hex::encode_upper|hex::encode_to_slice|core::fmt::.*|.* as core::fmt::(Debug|Display|LowerHex)::fmt|"
                       r"alloc::vec::Vec as core::ops::deref::Deref::deref|alloc::vec::Vec::(len|is_empty|as_slice|capacity|iter|first|last|get)|"
                       r"minicbor::decode::decoder::Decoder::new)$")


def retry_sites(P):
    out = []
    for c in NET_CRATES:
        for f in P.by_crate.get(c, []):
            if is_test_code(f) or is_decoder_fn(f):
                continue
            if any(DECODER_NEW.match(cname(t)) for _, t in f.calls()):
                out.append(f)
    return out


def is_decoder_fn(f):
    """A function that itself *is* a decoder (receives a Decoder and returns Result<_, decode::Error>)."""
    return bool(X.RES_DECODE.match(f.local_ty(0))) and any("minicbor::decode::decoder::Decoder" in f.local_ty(i) for i in range(1, f.argc + 1))


def _strip_ref(s):
    while s[0] in ("ref", "deref"):
        s = s[1]
    return s


def _is_none(sym):
    return sym is not None and sym[0] == "agg" and str(sym[1]).startswith("core::option::Option") and sym[2] == "None"


def _mentions(sym, sub):
    from pv.mir import sym_walk
    return any(x == sub for x in sym_walk(sym))


def check_retry_site(res, P, f):
    from pv.tabulate import tabulate, BudgetExceeded
    from pv.mir import sym_walk
    kbase = "retry:%s" % f.path
    # the buffer: the &mut Vec<u8> parameter the decoder is created over
    bufs = [i for i in range(1, f.argc + 1) if re.match(r"^&mut alloc::vec::Vec<u8>$", f.local_ty(i))]
    if len(bufs) != 1:
        res.violation(kbase + ":buffer", "%s creates a Decoder but has no single `&mut Vec<u8>` buffer parameter; the retry idiom cannot be "
                      "checked (fail closed)" % f.path, where="%s:%s" % (f.file, f.line), rule="RETRY")
        return
    buf = bufs[0]
    try:
        paths = tabulate(f, P, 4096)
    except BudgetExceeded as e:
        res.violation(kbase + ":budget", "%s: too many paths to tabulate (%s)" % (f.path, e), where="%s:%s" % (f.file, f.line), rule="RETRY")
        return
    returns_result = f.local_ty(0).startswith("core::result::Result<")
    n_ok = n_eoi = n_other = 0
    bad = {}

    def flag(kind, msg, bb=None):
        if kind not in bad:
            bad[kind] = (msg, bb)

    for p in paths:
        if p.end != "return":
            if p.end == "diverge" and any(DECODE_CALL.match(strip_generics(c[0])) for c in p.calls):
                flag("diverge", "a path after the decode attempt diverges (panic) instead of returning", p.blocks[-1])
            continue
        dec = [c for c in p.calls if DECODE_CALL.match(strip_generics(c[0]))]
        # buffer mutations on this path: calls that receive the buffer mutably (Decoder::new only reads it)
        muts = []
        for callee, args, bb in p.calls:
            t = f.blocks[bb]["term"]
            nm = strip_generics(callee)
            for i, a in enumerate(args):
                root = X.root_key(f, t["args"][i]) if i < len(t["args"]) else None
                aty = None
                pa = op_place(t["args"][i]) if i < len(t["args"]) else None
                if pa is not None:
                    aty = f.local_ty(pl_local(pa)) if not pl_proj(pa) else None
                if root == buf and aty is not None and aty.startswith("&mut") and not READ_ONLY.match(nm):
                    muts.append((nm, args, bb))
        if not dec:
            if muts:
                flag("early-mutation", "the buffer is modified by `%s` on a path that never runs the decoder" % muts[0][0], muts[0][2])
            continue
        dsym = None
        outcome = None
        eoi = None
        for c, rel in p.conds:
            if c[0] == "discr" and c[1][0] == "call" and DECODE_CALL.match(strip_generics(c[1][1])):
                dsym = c[1]
                if rel[0] == "eq":
                    outcome = "Ok" if rel[1] == 0 else "Err"
                elif rel[0] == "ne":
                    outcome = "Err" if 0 in rel[1] else ("Ok" if 1 in rel[1] else None)
            cc = c
            neg = False
            while cc[0] == "un" and cc[1] == "Not":
                neg = not neg
                cc = cc[2]
            if cc[0] == "call" and X.IS_EOI.match(strip_generics(cc[1])):
                v = None
                if rel[0] == "eq":
                    v = bool(rel[1])
                elif rel[0] == "ne" and len(rel[1]) == 1:
                    v = not bool(rel[1][0])
                if v is not None:
                    eoi = (v != neg)
        if outcome is None:
            flag("untested", "the decode result is used without testing it", dec[0][2])
            continue
        ret = p.ret
        if outcome == "Ok":
            n_ok += 1
            cons = [m for m in muts if CONSUME.match(m[0])]
            other = [m for m in muts if not CONSUME.match(m[0])]
            if other:
                flag("ok-extra-mutation", "on the Ok path the buffer is also modified by `%s`" % other[0][0], other[0][2])
            if len(cons) != 1:
                flag("ok-consume", "on the Ok path the buffer must be consumed exactly once by the decoder position (found %d consuming calls): "
                     "decoded bytes would be decoded again or undecoded bytes lost" % len(cons), dec[0][2])
            else:
                nm, args, bb = cons[0]
                amount = args[1] if len(args) > 1 else None
                ok_amount = False
                why = "amount is not `Decoder::position()`"
                if amount is not None:
                    if amount[0] == "agg" and str(amount[1]).startswith("core::ops::range::Range") and not str(amount[1]).startswith("core::ops::range::RangeFrom") and not str(amount[1]).startswith("core::ops::range::RangeInclusive"):
                        fields = amount[3]
                        if str(amount[1]).startswith("core::ops::range::RangeTo") and not str(amount[1]).startswith("core::ops::range::RangeToInclusive"):
                            start, end = ("const", 0, "usize"), fields[0]
                        elif len(fields) == 2:
                            start, end = fields
                        else:
                            start = end = None
                        if start is not None and start[0] == "const" and int(start[1]) == 0:
                            amount = end
                        else:
                            amount = None
                            why = "range does not start at 0"
                    elif nm.endswith("drain"):
                        amount = None
                        why = "unsupported range form"
                    if amount is not None and amount[0] == "call" and POSITION.match(strip_generics(amount[1])):
                        # same decoder as the decode call, read after it
                        pos_dec = _strip_ref(amount[2][0])
                        dec_dec = _strip_ref(dec[0][1][0])
                        order_ok = p.blocks.index(amount[3]) > p.blocks.index(dec[0][2]) if amount[3] in p.blocks and dec[0][2] in p.blocks else False
                        if pos_dec != dec_dec:
                            why = "position() of a different decoder"
                        elif not order_ok:
                            why = "position() is read before the decode"
                        else:
                            ok_amount = True
                if not ok_amount:
                    flag("ok-amount", "on the Ok path `%s` does not remove exactly the decoded bytes (%s)" % (nm.split("::")[-1], why), bb)
            payload = ("field", ("downcast", dsym, "Ok"), 0) if dsym is not None else None
            if ret is None or dsym is None or not any(x[0] == "downcast" and x[1] == dsym for x in sym_walk(ret)):
                flag("ok-return", "the Ok path does not return the decoded message", p.blocks[-1])
        else:
            if muts:
                flag("err-mutation", "the buffer is modified by `%s` although decoding failed (bytes of a partial message are lost)" % muts[0][0].split("::")[-1], muts[0][2])
            if eoi is None:
                if returns_result:
                    flag("err-no-eoi", "an Err path returns without consulting `is_end_of_input()`: \"need more bytes\" and \"wrong bytes\" are not told apart", p.blocks[-1])
                elif not _is_none(ret):
                    flag("eoi-return", "a failed decode attempt returns `%s` instead of \"no message yet\"" % sym_str(ret, 60), p.blocks[-1])
                else:
                    n_eoi += 1      # a site that cannot report errors treats every failure as "no message yet"
                continue
            inner = ret
            if eoi:
                n_eoi += 1
                if returns_result:
                    good = ret is not None and ret[0] == "agg" and ret[2] == "Ok" and _is_none(ret[3][0] if ret[3] else None)
                else:
                    good = _is_none(ret)
                if not good:
                    flag("eoi-return", "on end-of-input the site returns `%s` instead of \"no message yet\"" % sym_str(ret, 60), p.blocks[-1])
            else:
                n_other += 1
                if returns_result and not (ret is not None and ret[0] == "agg" and ret[2] == "Err"):
                    flag("other-return", "a decode error other than end-of-input is not returned as Err (`%s`)" % sym_str(ret, 60), p.blocks[-1])
    for need, n, what in (("ok", n_ok, "an Ok path"), ("eoi", n_eoi, "an end-of-input path")):
        if n == 0:
            flag("no-" + need, "no path of the function is %s of the decode attempt" % what)
    for kind in ("ok-consume", "ok-amount", "ok-return", "ok-extra-mutation", "err-mutation", "err-no-eoi", "eoi-return", "other-return",
                 "untested", "early-mutation", "diverge", "no-ok", "no-eoi"):
        key = "%s:%s" % (kbase, kind)
        if kind in bad:
            msg, bb = bad[kind]
            res.violation(key, "%s: %s" % (f.path, msg), where=X.term_where(f, bb) if bb is not None else "%s:%s" % (f.file, f.line), rule="RETRY")
        elif not kind.startswith("no-") and kind not in ("untested", "early-mutation", "diverge"):
            res.ok(key, "RETRY", "%d Ok / %d end-of-input / %d other-error paths" % (n_ok, n_eoi, n_other))
    res.sample({"retry_site": f.path, "paths": len(paths), "ok": n_ok, "eoi": n_eoi, "other": n_other})


def check_retry(res, P):
    sites = retry_sites(P)
    res.count("retry_sites", len(sites))
    by = {c: [f for f in sites if f.crate == c] for c in NET_CRATES}
    for c in NET_CRATES:
        res.floor("retry-sites:" + c, len(by[c]), 1)
    for f in sites:
        check_retry_site(res, P, f)
    return sites


# --------------------------------------------------------------------------------------------------------------- decode after every append

def real_returns(f, L):
    """Blocks where the (logical) function really returns (not the suspension points of a coroutine body)."""
    reach = L.reachable(0)
    return [b for b in reach if f.blocks[b]["term"]["k"] == "return" and not L.succ(b)]


_DECODE_HELPER = {}


def is_decode_helper(P, g, site_paths, fname, depth=0):
    k = (g.path, fname)
    if k in _DECODE_HELPER:
        return _DECODE_HELPER[k]
    _DECODE_HELPER[k] = False
    body = X.async_body(P, g)
    L = X.LogicalCFG(body)
    dec = set()
    for bi, t in body.calls():
        callee = t.get("f") or ""
        if callee in site_paths and t["args"] and (arg_field(body, t["args"][0]) or (None,))[0] == fname:
            dec.add(bi)
        elif depth < 2:
            h = P.fns.get(callee)
            if h is not None and h.crate == g.crate and h.kind != "Closure" and h is not g and callee not in site_paths \
                    and is_decode_helper(P, h, site_paths, fname, depth + 1):
                dec.add(bi)
    ok = False
    if dec:
        reach = {0} | L.reachable(0, avoid=tuple(dec)) if 0 not in dec else set()
        ok = not any(b in reach for b in real_returns(body, L))
    _DECODE_HELPER[k] = ok
    return ok


def decode_before_next_chunk(res, f, key, rule, starts, decodes, acquires, what):
    """Must-pass-through: from every point where bytes were added to the reassembly buffer, every (logical) path to the next
    chunk acquisition or to a return passes a decode attempt.  Otherwise a complete message can sit in the buffer while the
    receiver waits for bytes that never come."""
    L = X.LogicalCFG(f)
    decodes = set(decodes)
    targets = {b: "the next chunk is awaited" for b in acquires}
    for b in real_returns(f, L):
        targets.setdefault(b, "the function returns")
    bad = None
    for a in starts:
        if a in decodes:
            continue
        reach = set()
        for s0 in L.succ(a):
            if s0 in decodes:
                continue
            reach |= {s0} | L.reachable(s0, avoid=tuple(decodes))
        hit = [b for b in targets if b in reach]
        if hit:
            bad = (a, hit[0])
            break
    if bad is None:
        res.ok(key, rule, "%d append/definition point(s): a decode attempt lies on every path to the next chunk / return" % len(starts))
    else:
        a, b = bad
        res.violation(key, "%s: after %s (near %s) there is a path on which %s (near %s) without a decode attempt on the buffer: a message "
                      "that is already complete stays in the buffer (with request/response protocols both sides then wait forever); every "
                      "appended chunk must be followed by a decode attempt" % (f.path, what, X.term_where(f, a), targets[b], X.term_where(f, b)),
                      where=X.term_where(f, a), rule=rule)


# --------------------------------------------------------------------------------------------------------------- BUF-1

APPEND = re.compile(r"^(alloc::vec::Vec as core::iter::traits::collect::Extend::extend|alloc::vec::Vec::extend_from_slice|alloc::vec::Vec::append)$")


def field_of_place(p):
    """(name, type) of the last field projection of a place, or None."""
    for e in reversed(pl_proj(p)):
        if e[0] == "field":
            return e[2], e[3]
        if e[0] != "deref":
            return None
    return None


def arg_field(f, o):
    """The struct field a `&mut x.f` argument refers to (through the borrow temporaries)."""
    p = op_place(o)
    seen = 0
    while p is not None and seen < 6:
        seen += 1
        fl = field_of_place(p)
        if fl is not None and fl[0] is not None:
            return fl
        l = pl_local(p)
        if pl_proj(p) and not all(e[0] == "deref" for e in pl_proj(p)):
            return None
        ds = f.defs().get(l, [])
        if len(ds) != 1 or ds[0][2] != "assign":
            return None
        rv = ds[0][3][2]
        if rv["k"] in ("ref", "rawptr"):
            p = rv["p"]
        elif rv["k"] == "use":
            p = op_place(rv["x"])
        else:
            return None
    return None


def check_buf1(res, P, sites):
    site_paths = {f.path for f in sites if f.crate == "pallas_network"}
    callers = []
    for f in P.by_crate["pallas_network"]:
        if is_test_code(f):
            continue
        for bi, t in f.calls():
            if (t.get("f") or "") in site_paths:
                callers.append((f, bi, t))
    res.count("buf1_retry_calls", len(callers))
    res.floor("buf1-retry-calls", len(callers), 1)
    fields = set()
    for f, bi, t in callers:
        fl = arg_field(f, t["args"][0]) if t["args"] else None
        if fl is None:
            res.violation("buf1:%s:buffer-not-a-field" % f.path, "%s hands a buffer to the retry site that is not a field of the channel object: "
                          "bytes left over after a message (or a partial message) do not survive until the next call" % f.path,
                          where=where(f, t.get("s")), rule="BUF-1")
            continue
        fields.add(fl)
    if len(fields) != 1:
        if fields:
            res.violation("buf1:buffers", "retry sites are fed from %d different buffers %s" % (len(fields), sorted(fields)), rule="BUF-1")
        return
    fname, fty = next(iter(fields))
    owner = None
    for a in P.adts("pallas_network"):
        for v in a["variants"]:
            if any(fd["name"] == fname and re.sub(r"\s", "", fd.get("ty", "")).endswith("Vec<u8>") for fd in v["fields"]):
                if any(f.path.startswith(a["path"] + "::") or (a["path"] + " ") in f.path for f, _, _ in callers):
                    owner = a["path"]
    if owner is None:
        res.violation("buf1:owner", "cannot find the type owning buffer field `%s`" % fname, rule="BUF-1")
        return
    module = owner.rsplit("::", 1)[0]
    res.sample({"buffer_field": "%s.%s" % (owner, fname)})
    n_app = 0
    n_mut = 0
    chunk_src = re.compile(r"dequeue_chunk")
    for f in P.by_crate["pallas_network"]:
        if is_test_code(f) or not f.path.startswith(module) and (module + "::") not in f.path:
            continue
        og = None
        for bi, si, s in f.statements():
            if s[0] == "a" and field_of_place(s[1]) is not None and field_of_place(s[1])[0] == fname and field_of_place(s[1])[1] == fty:
                res.violation("buf1:%s:assigned" % f.path, "%s overwrites the reassembly buffer `%s`: bytes received so far are lost" % (f.path, fname),
                              where=where(f, s[-1] if isinstance(s[-1], list) else None), rule="BUF-1")
        for bi, t in f.calls():
            for i, a in enumerate(t["args"]):
                pa = op_place(a)
                if pa is None:
                    continue
                aty = f.local_ty(pl_local(pa)) if not pl_proj(pa) else ""
                if not aty.startswith("&mut"):
                    continue
                fl = arg_field(f, a)
                if fl is None or fl[0] != fname or fl[1] != fty:
                    continue
                n_mut += 1
                name = cname(t)
                if (t.get("f") or "") in site_paths:
                    continue
                if APPEND.match(name) and i == 0:
                    if og is None:
                        og = X.Origins(f)
                    src = og.of_operand(t["args"][1]) if len(t["args"]) > 1 else set()
                    if X.origin_calls(src, chunk_src):
                        n_app += 1
                        res.ok("buf1:%s:append" % f.path, "BUF-1", "chunk from dequeue_chunk appended to `%s`" % fname)
                    else:
                        res.violation("buf1:%s:append-source" % f.path, "%s appends something that is not the dequeued chunk to the reassembly buffer" % f.path,
                                      where=where(f, t.get("s")), rule="BUF-1")
                    continue
                res.violation("buf1:%s:%s" % (f.path, name.split("::")[-1]), "%s modifies the reassembly buffer `%s` through `%s`; only appending a "
                              "dequeued chunk and the retry site may touch it" % (f.path, fname, name), where=where(f, t.get("s")), rule="BUF-1")
    res.count("buf1_mutable_uses", n_mut)
    if n_app == 0:
        res.violation("buf1:no-append", "no dequeued chunk is ever appended to the reassembly buffer `%s`" % fname, rule="BUF-1")
    # every dequeue in the owner's methods reaches an append
    for f in P.by_crate["pallas_network"]:
        if is_test_code(f) or owner not in f.path:
            continue
        deq = [bi for bi, t in f.calls() if cname(t).endswith("AgentChannel::dequeue_chunk")]
        if not deq:
            continue
        og = X.Origins(f)
        apps = [t for bi, t in f.calls() if APPEND.match(cname(t)) and len(t["args"]) > 1 and X.origin_calls(og.of_operand(t["args"][1]), chunk_src)]
        if not apps:
            res.violation("buf1:%s:chunk-dropped" % f.path, "%s dequeues a chunk that is never appended to the reassembly buffer" % f.path,
                          where="%s:%s" % (f.file, f.line), rule="BUF-1")
        else:
            res.ok("buf1:%s:chunk-appended" % f.path, "BUF-1", "every dequeued chunk flows into an append on the buffer")
        starts = [bi for bi, t in f.calls() if APPEND.match(cname(t)) and t["args"] and (arg_field(f, t["args"][0]) or (None,))[0] == fname]
        decodes = [bi for bi, t in f.calls() if (t.get("f") or "") in site_paths and t["args"] and (arg_field(f, t["args"][0]) or (None,))[0] == fname]
        # a decode attempt moved into a private helper (`self.take_buffered_msg()`): a function of the module that runs the
        # retry site on the buffer field on every path to its return counts as the attempt
        for bi, t in f.calls():
            g = P.fns.get(t.get("f") or "")
            if g is not None and g.crate == f.crate and g.kind != "Closure" and g.path not in site_paths and is_decode_helper(P, g, site_paths, fname):
                decodes.append(bi)
        decode_before_next_chunk(res, f, "buf1:%s:decode-after-append" % f.path, "BUF-1", starts, decodes, deq,
                                 "a chunk is appended to `%s`" % fname)


# --------------------------------------------------------------------------------------------------------------- BUF-2

MAP_REMOVE = re.compile(r"^std::collections::hash::map::HashMap::remove$|^alloc::collections::btree::map::BTreeMap::remove$")
MAP_INPLACE = re.compile(r"^(std::collections::hash::map|alloc::collections::btree::map)::Entry::(or_default|or_insert|or_insert_with|or_insert_with_key)$|"
                         r"^(std::collections::hash::map::HashMap|alloc::collections::btree::map::BTreeMap)::get_mut$")
MAP_INSERT = re.compile(r"^std::collections::hash::map::HashMap::insert$|^alloc::collections::btree::map::BTreeMap::insert$")


def show(f, o):
    """Readable name of an operand: the source variable it is (a copy of), else the symbolic expression."""
    k = X.root_key(f, o)
    if isinstance(k, int) and f.local_name(k):
        return f.local_name(k)
    return sym_str(f.sym_operand(o), 60)


def same_value(f, a, b):
    ra, rb = X.root_key(f, a), X.root_key(f, b)
    if ra is not None and ra == rb:
        return True
    sx = X.SymX(f)
    sa, sb = _strip_ref(sx.operand(a)), _strip_ref(sx.operand(b))
    return sa == sb and sa[0] not in ("local", "unknown", "other")


def check_buf2(res, P, sites):
    loops = []
    lifted = {}
    for f in P.by_crate["pallas_network2"]:
        if is_test_code(f) or "::emulation::" in f.path:
            continue
        cs = [(bi, t) for bi, t in f.calls() if (t.get("g") or t.get("f") or "").endswith("Message::from_payload") and t.get("trait")]
        if cs and f.kind == "Closure" and f.argc >= 1 and not X.is_coroutine_state_ty(f.local_ty(1)):
            # the decode loop written as a closure (`iter::from_fn(|| M::from_payload(channel, &mut payload)).collect()`):
            # key and buffer are captured variables; the attempt is judged where the closure is built, in the parent
            for bi, t in cs:
                k, b = X.lift_operand(P, f, t["args"][0]), X.lift_operand(P, f, t["args"][1])
                if k is None or b is None:
                    res.violation("buf2:%s:closure" % f.path, "%s calls from_payload on values the rule cannot follow to the enclosing function "
                                  "(fail closed)" % f.path, where=where(f, t.get("s")), rule="BUF-2")
                    continue
                lifted.setdefault(k[0].path, (k[0], []))[1].append((k[1], {"args": [k[2], b[2]], "s": t.get("s"), "lifted_from": f.path}))
            continue
        if cs:
            loops.append((f, cs))
    loops += list(lifted.values())
    res.count("buf2_reassembly_loops", len(loops))
    res.floor("buf2-reassembly-loops", len(loops), 1)
    for f, cs in loops:
        kb = "buf2:%s" % f.path
        og = X.Origins(f)
        dom = f.dominators()
        for bi, t in cs:
            key_arg, buf_arg = t["args"][0], t["args"][1]
            B = X.root_key(f, buf_arg)
            borig = X.Origins(f, append_flows=True).of_place(B) if isinstance(B, int) else set()
            removes = []     # (bb, call, key operand, in place?)
            for rb, rt in f.calls():
                nm = cname(rt)
                if ("call", nm, rb) not in borig:
                    continue
                if MAP_REMOVE.match(nm):
                    removes.append((rb, rt, rt["args"][1], False))
                elif MAP_INPLACE.match(nm):
                    keyop = None
                    if nm.endswith("::get_mut"):
                        keyop = rt["args"][1]
                    else:
                        for eo in og.of_operand(rt["args"][0]):
                            if eo[0] == "call" and eo[1].endswith("::entry"):
                                keyop = f.blocks[eo[2]]["term"]["args"][1]
                    if keyop is not None:
                        removes.append((rb, rt, keyop, True))
            in_place = bool(removes) and all(r[3] for r in removes)
            chunk = X.origin_calls(borig, r"read_segment")
            if not removes:
                res.violation(kb + ":no-leftover", "%s: the buffer handed to from_payload never contains what was left over from the previous "
                              "segment (no `remove`/lookup of the per-channel leftover flows into it)" % f.path, where=where(f, t.get("s")), rule="BUF-2")
                continue
            if not chunk:
                res.violation(kb + ":no-chunk", "%s: the buffer handed to from_payload does not contain the segment just read" % f.path,
                              where=where(f, t.get("s")), rule="BUF-2")
                continue
            # order: leftover.extend(chunk)
            good = bad = 0
            for ab, at in f.calls():
                if not APPEND.match(cname(at)) or len(at["args"]) < 2:
                    continue
                ro = og.of_operand(at["args"][0])
                ao = og.of_operand(at["args"][1])
                r_left = any(("call", cname(rt), rb) in ro for rb, rt, _k, _ip in removes)
                r_chunk = bool(X.origin_calls(ro, r"read_segment"))
                a_left = any(("call", cname(rt), rb) in ao for rb, rt, _k, _ip in removes)
                a_chunk = bool(X.origin_calls(ao, r"read_segment"))
                if r_left and a_chunk and not r_chunk:
                    good += 1
                elif r_chunk and a_left:
                    bad += 1
                    res.violation(kb + ":order", "%s: the leftover of the previous segment is appended *after* the new chunk; bytes reach the decoder "
                                  "out of order" % f.path, where=where(f, at.get("s")), rule="BUF-2")
            if good == 0 and bad == 0:
                res.violation(kb + ":not-joined", "%s: leftover and new chunk are never joined (`leftover.extend(chunk)`): a message split across "
                              "segments is never completed" % f.path, where=where(f, t.get("s")), rule="BUF-2")
            elif good:
                res.ok(kb + ":order", "BUF-2", "leftover.extend(chunk)")
            # keys
            for rb, rt, rkey, _ip in removes:
                if same_value(f, rkey, key_arg):
                    res.ok(kb + ":key-remove", "BUF-2", "leftover looked up under the dispatch key")
                else:
                    res.violation(kb + ":key-remove", "%s: the leftover is removed under a key (`%s`) different from the channel the bytes are decoded "
                                  "for (`%s`)" % (f.path, show(f, rt["args"][1]), show(f, key_arg)),
                                  where=where(f, rt.get("s")), rule="BUF-2")
            inserts = [(ib, it) for ib, it in f.calls() if MAP_INSERT.match(cname(it)) and len(it["args"]) >= 3 and X.root_key(f, it["args"][2]) == B]
            if not inserts and in_place:
                res.ok(kb + ":reinsert-condition", "BUF-2", "the buffer is decoded in place inside the per-channel map; nothing to store back")
                continue
            if not inserts:
                res.violation(kb + ":no-reinsert", "%s: bytes left in the buffer after decoding are never stored back: the beginning of the next "
                              "message is dropped" % f.path, where=where(f, t.get("s")), rule="BUF-2")
                continue
            for ib, it in inserts:
                if all(same_value(f, it["args"][1], rkey) for rb, rt, rkey, _ip in removes) and same_value(f, it["args"][1], key_arg):
                    res.ok(kb + ":key-insert", "BUF-2", "leftover stored under the key it was removed with")
                else:
                    res.violation(kb + ":key-insert", "%s: leftover bytes are stored under `%s`, not under the key they were removed with / decoded for "
                                  "(`%s`): they leak to another channel or are never found again" % (
                                      f.path, show(f, it["args"][1]), show(f, key_arg)),
                                  where=where(f, it.get("s")), rule="BUF-2")
                # control dependence of the insertion after the loop
                after = {x for x in f.live_blocks() if bi in dom.get(x, ()) and not f.can_reach(x, bi)}
                deps = X.transitive_control_deps(f, ib, within=after)
                okdep = True
                for S, s in deps:
                    st = f.blocks[S]["term"]
                    cond = f.sym_operand(st["d"]) if st["k"] == "switch" else ("unknown",)
                    neg = False
                    while cond[0] == "un" and cond[1] == "Not":
                        neg = not neg
                        cond = cond[2]
                    val = None
                    for v, tg in st.get("ts", []):
                        if tg == s:
                            val = int(v)
                    if val is None:
                        val = 1 if all(int(v) == 0 for v, _ in st.get("ts", [])) else None
                    verdict = None
                    if cond[0] == "call" and strip_generics(cond[1]) == "alloc::vec::Vec::is_empty" and X.root_key_sym(f, cond[2][0]) == B:
                        if val is not None:
                            empty_on_edge = bool(val) != neg
                            verdict = not empty_on_edge
                    elif cond[0] == "bin":
                        verdict = len_cond_nonempty(f, cond, B, val, neg)
                    if verdict is not True:
                        okdep = False
                        res.violation(kb + ":reinsert-condition", "%s: storing the leftover bytes depends on `%s` (%s); it may only depend on the "
                                      "buffer being non-empty, otherwise the beginning of the next message is dropped" % (
                                          f.path, sym_str(cond, 80), "wrong polarity" if verdict is False else "not an emptiness test of the buffer"),
                                      where=X.term_where(f, S), rule="BUF-2")
                if okdep:
                    res.ok(kb + ":reinsert-condition", "BUF-2", "insertion depends on %d emptiness test(s) only" % len(deps))
    for f, cs in loops:
        og2 = X.Origins(f, append_flows=True)
        bufs = {X.root_key(f, t["args"][1]) for bi, t in cs}
        bufs.discard(None)
        decodes = [bi for bi, t in cs]
        starts = []
        for B in bufs:
            for kind, bi, si, payload in og2.defs().get(B, []):
                starts.append(bi)
        for bi, t in f.calls():
            if APPEND.match(cname(t)) and len(t["args"]) >= 2 and X.origin_calls(X.Origins(f).of_operand(t["args"][1]), r"read_segment"):
                starts.append(bi)
        acquires = [bi for bi, t in f.calls() if re.search(r"::read_segment$", cname(t))]
        decode_before_next_chunk(res, f, "buf2:%s:decode-after-append" % f.path, "BUF-2", sorted(set(starts)), decodes, acquires,
                                 "the segment is joined to the channel's buffer")
    # from_payload implementations hand their own payload to the retry site
    site_paths = {f.path for f in sites if f.crate == "pallas_network2"}
    impls = [f for f in P.impl_index.get(("pallas_network2::Message", "from_payload"), []) if not is_test_code(f) and "::emulation::" not in f.path]
    res.count("buf2_from_payload_impls", len(impls))
    res.floor("buf2-from-payload-impls", len(impls), 1)
    for f in impls:
        og = X.Origins(f)
        pay = [i for i in range(1, f.argc + 1) if re.match(r"^&mut alloc::vec::Vec<u8>$", f.local_ty(i))]
        calls = [(bi, t) for bi, t in f.calls() if (t.get("f") or "") in site_paths]
        if not pay or not calls:
            res.violation("buf2:%s:no-retry" % f.path, "%s does not decode through a retry site" % f.path, where="%s:%s" % (f.file, f.line), rule="BUF-2")
            continue
        badc = [t for bi, t in calls if {o for o in og.of_operand(t["args"][0]) if o[0] in ("param", "call", "agg")} != {("param", pay[0], f.local_name(pay[0]))}]
        if badc:
            res.violation("buf2:%s:payload" % f.path, "%s decodes from a buffer other than the payload it was given" % f.path,
                          where=where(f, badc[0].get("s")), rule="BUF-2")
        else:
            res.ok("buf2:%s:payload" % f.path, "BUF-2", "%d retry calls on the payload parameter" % len(calls))


def len_cond_nonempty(f, cond, B, val, neg):
    """cond is a comparison of `B.len()` with a constant; is the taken edge exactly the non-empty case?"""
    op, l, r = cond[1], cond[2], cond[3]

    def is_len(s):
        return s[0] == "call" and strip_generics(s[1]) == "alloc::vec::Vec::len" and X.root_key_sym(f, s[2][0]) == B

    if is_len(l) and r[0] == "const":
        c = int(r[1])
        fn_ = {"Gt": lambda n: n > c, "Ge": lambda n: n >= c, "Ne": lambda n: n != c, "Eq": lambda n: n == c, "Lt": lambda n: n < c, "Le": lambda n: n <= c}.get(op)
    elif is_len(r) and l[0] == "const":
        c = int(l[1])
        fn_ = {"Gt": lambda n: c > n, "Ge": lambda n: c >= n, "Ne": lambda n: n != c, "Eq": lambda n: n == c, "Lt": lambda n: c < n, "Le": lambda n: c <= n}.get(op)
    else:
        return None
    if fn_ is None or val is None:
        return None
    taken = lambda n: (fn_(n) != neg) == bool(val)
    return (not taken(0)) and all(taken(n) for n in (1, 2, 3, 65535, 70000))


def run(tier="quick"):
    res = Result("C21", tier, level="other")
    P = Program(crates=CRATES)
    check_eoi(res, P)
    sites = check_retry(res, P)
    check_buf1(res, P, sites)
    check_buf2(res, P, sites)
    expl = ("Decides the end-of-input discipline reassembly relies on, not the quantified statement itself.")
    return finish(res, expl, __doc__.split("\n\n", 1)[1], trusted_base=["minicbor: a decoder method fails with an end-of-input error iff the "
                  "buffer ends inside the item", "rustc MIR (opt-level 0) as dumped by driver/"])
