#!/bin/sh
# Build the fact extractor and warm the dependency cache (offline).
set -e
cd "$(dirname "$0")"
export CARGO_NET_OFFLINE=true
(cd driver && cargo +nightly build --release --offline)
python3 -c "
import sys; sys.path.insert(0,'.')
from pv import facts
facts.facts_dir('default')
"
python3 -m compileall -q pv rules >/dev/null
echo setup-ok
