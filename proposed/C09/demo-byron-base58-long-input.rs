// Demonstration for C09 finding "parsing a long base58 string as a Byron address panics".
// Place this file at pallas-addresses/tests/c09_base58_long_input.rs and run
//   cargo test --offline -p pallas-addresses --test c09_base58_long_input
// Without proposed/C09/fix-byron-base58-long-input.diff the first three tests panic inside base58-0.2.0
// (src/lib.rs:165, "attempt to subtract with overflow"); with the fix they get an error, and the valid
// addresses of the last test still parse.
use pallas_addresses::{byron::ByronAddress, Address};
use std::str::FromStr;

#[test]
fn byron_from_base58_many_leading_ones_is_an_error() {
    let s = "1".repeat(133);
    assert!(ByronAddress::from_base58(&s).is_err());
}

#[test]
fn address_from_str_many_leading_ones_is_an_error() {
    // not bech32, not hex ('z'), and base58 with 199 leading zero bytes
    let s = format!("{}z", "1".repeat(199));
    assert!(Address::from_str(&s).is_err());
}

#[test]
fn byron_from_base58_ones_then_digits_is_an_error() {
    // 100 leading '1' (100 zero bytes) followed by 50 significant digits (37 bytes): 137 > 132
    let s = format!("{}{}", "1".repeat(100), "z".repeat(50));
    assert!(ByronAddress::from_base58(&s).is_err());
}

#[test]
fn valid_byron_addresses_still_parse() {
    for s in [
        "37btjrVyb4KDXBNC4haBVPCrro8AQPHwvCMp3RFhhSVWwfFmZ6wwzSK6JK1hY6wHNmtrpTf1kdbva8TCneM2YsiXT7mrzT21EacHnPpz5YyUdj64na",
        "DdzFFzCqrht7PQiAhzrn6rNNoADJieTWBt8KeK9BZdUsGyX9ooYD9NpMCTGjQoUKcHN47g8JMXhvKogsGpQHtiQ65fZwiypjrC6d3a4Q",
        "Ae2tdPwUPEZLs4HtbuNey7tK4hTKrwNwYtGqp7bDfCy2WdR3P6735W5Yfpe",
    ] {
        assert!(ByronAddress::from_base58(s).is_ok());
        assert!(matches!(Address::from_str(s), Ok(Address::Byron(_))));
    }
}
